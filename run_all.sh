#!/bin/bash
# usage: run_all.sh <quick|thorough> <seed> [checks...]  -- runs the registered commands, one line per check
TIER=$1; SEED=$2; shift 2
CHECKS=${@:-C01 C02 C03 C04 C05 C06 C07 C08 C09 C10 C11 C12 C13 C14 C15 C16 C17 C18 C19 C20}
cd /verif
for c in $CHECKS; do
  s=$(date +%s)
  VERIF_SEED=$SEED ./vcheck $c --tier $TIER > /tmp/run_all.$TIER.$SEED.$c.out 2>&1; rc=$?
  e=$(date +%s)
  echo "$c tier=$TIER seed=$SEED exit=$rc wall=$((e-s))s $(grep -a "^\[$c\]" /tmp/run_all.$TIER.$SEED.$c.out | sed 's/.*evaluations/evaluations/' | cut -c1-140) $(grep -a -c '^VIOLATION' /tmp/run_all.$TIER.$SEED.$c.out) violations"
done
