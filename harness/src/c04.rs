//! C04 — emitted value/size bounds equal the PER-visible effective constraint (X.691 §10.3).
use crate::comp;
use crate::core::*;
use crate::iv::*;
use crate::proj::{self, Kind, Module};
use serde_json::json;

#[derive(Clone, Debug, PartialEq, Eq, Hash)]
pub enum Atom {
    Single(i128),
    Range(Option<i128>, Option<i128>),
    /// `a..<b`, `a<..b`, `a<..<b` (X.680 51.4: the endpoint itself is excluded): (a, b, lower open, upper open)
    Open(i128, i128, bool, bool),
    /// contained subtype: a reference to `Tc<k> ::= INTEGER (a..b)`, written `Tc<k>` or `INCLUDES Tc<k>`
    Contained(i128, i128, bool),
}
impl Atom {
    fn set(&self) -> IvSet {
        match self {
            Atom::Single(v) => IvSet::single(Iv::new(Some(*v), Some(*v))),
            Atom::Range(l, h) => IvSet::single(Iv::new(*l, *h)),
            Atom::Open(l, h, lo, ho) => IvSet::single(Iv::new(Some(*l + *lo as i128), Some(*h - *ho as i128))),
            Atom::Contained(l, h, _) => IvSet::single(Iv::new(Some(*l), Some(*h))),
        }
    }
    fn shape(&self) -> &'static str {
        match self {
            Atom::Single(_) => "S",
            Atom::Range(None, None) => "Rall",
            Atom::Range(None, _) => "Rmin",
            Atom::Range(_, None) => "Rmax",
            Atom::Range(_, _) => "R",
            Atom::Open(_, _, true, false) => "Rlo-open",
            Atom::Open(_, _, false, _) => "Rhi-open",
            Atom::Open(..) => "Rboth-open",
            Atom::Contained(..) => "Contained",
        }
    }
    /// endpoint spelling: 0 literal, 1 value reference, 2 named number
    fn text(&self, sp: u8, names: &mut Vec<(String, i128)>, serial: &mut u32) -> String {
        // role: 0 single value, 1 lower endpoint, 2 upper endpoint; spelling 3 / 4: only the lower / only the upper endpoints
        // of ranges are value references, everything else is a literal
        let mut er = |v: i128, role: u8| -> String {
            let literal = sp == 0 || (sp == 3 && role != 1) || (sp == 4 && role != 2);
            if literal {
                v.to_string()
            } else {
                *serial += 1;
                let n = if sp == 2 { format!("nq{}", *serial) } else { format!("vq{}", *serial) };
                names.push((n.clone(), v));
                n
            }
        };
        match self {
            Atom::Single(v) => er(*v, 0),
            Atom::Range(l, h) => {
                let lo = l.map_or("MIN".to_string(), |v| er(v, 1));
                let hi = h.map_or("MAX".to_string(), |v| er(v, 2));
                format!("{lo}..{hi}")
            }
            Atom::Open(l, h, lo, ho) => {
                let a = er(*l, 1);
                let b = er(*h, 2);
                format!("{a}{}..{}{b}", if *lo { "<" } else { "" }, if *ho { "<" } else { "" })
            }
            Atom::Contained(l, h, kw) => {
                *serial += 1;
                let n = format!("Tc{}", *serial);
                // the definition of the contained type travels with the names (value = lower bound, upper bound follows)
                names.push((format!("#{n}"), *l));
                names.push((format!("#{n}"), *h));
                format!("{}{n}", if *kw { "INCLUDES " } else { "" })
            }
        }
    }
}

/// union of intersections of (atom [EXCEPT atom]); `all_except` = the whole constraint is `ALL EXCEPT atom`
#[derive(Clone, Debug, PartialEq, Eq, Hash)]
pub struct Expr {
    pub terms: Vec<Vec<(Atom, Option<Atom>)>>,
    pub all_except: Option<Atom>,
}
impl Expr {
    fn full(&self) -> IvSet {
        if let Some(a) = &self.all_except {
            return a.set().complement();
        }
        let mut u = IvSet::empty();
        for t in &self.terms {
            let mut i = IvSet::all();
            for (a, e) in t {
                let mut s = a.set();
                if let Some(e) = e {
                    s = s.minus(&e.set());
                }
                i = i.intersect(&s);
            }
            u = u.union(&i);
        }
        u
    }
    /// X.691 10.3.21: EXCEPT parts are ignored, intersections intersect, unions unite
    fn per_visible(&self) -> IvSet {
        if self.all_except.is_some() {
            return IvSet::all();
        }
        let mut u = IvSet::empty();
        for t in &self.terms {
            let mut i = IvSet::all();
            for (a, _) in t {
                i = i.intersect(&a.set());
            }
            u = u.union(&i);
        }
        u
    }
    /// the PER-visible set if contained subtypes were *not* PER-visible (10.3.21: ignored in an intersection, a union with
    /// one is not PER-visible at all); the oracle accepts either reading for "wider", see `judge`
    fn per_visible_without_contained(&self) -> IvSet {
        if self.all_except.is_some() {
            return IvSet::all();
        }
        let mut u = IvSet::empty();
        for t in &self.terms {
            let mut i = IvSet::all();
            let mut visible = false;
            for (a, _) in t {
                if !matches!(a, Atom::Contained(..)) {
                    i = i.intersect(&a.set());
                    visible = true;
                }
            }
            if !visible {
                return IvSet::all();
            }
            u = u.union(&i);
        }
        u
    }
    fn shape(&self) -> String {
        if let Some(a) = &self.all_except {
            return format!("ALL EXCEPT {}", a.shape());
        }
        self.terms
            .iter()
            .map(|t| t.iter().map(|(a, e)| format!("{}{}", a.shape(), e.as_ref().map_or(String::new(), |x| format!(" EXCEPT {}", x.shape())))).collect::<Vec<_>>().join(" ^ "))
            .collect::<Vec<_>>()
            .join(" | ")
    }
    fn text(&self, sp: u8, words: bool, names: &mut Vec<(String, i128)>, serial: &mut u32) -> String {
        self.text_with(sp, words, names, serial, &|a| a)
    }
    /// like `text`, every atom's spelling passed through `wrap`
    fn text_with(&self, sp: u8, words: bool, names: &mut Vec<(String, i128)>, serial: &mut u32, wrap: &dyn Fn(String) -> String) -> String {
        if let Some(a) = &self.all_except {
            return format!("ALL EXCEPT {}", wrap(a.text(sp, names, serial)));
        }
        let (u, i) = if words { (" UNION ", " INTERSECTION ") } else { (" | ", " ^ ") };
        self.terms
            .iter()
            .map(|t| t.iter().map(|(a, e)| format!("{}{}", wrap(a.text(sp, names, serial)), e.as_ref().map_or(String::new(), |x| format!(" EXCEPT {}", wrap(x.text(sp, names, serial)))))).collect::<Vec<_>>().join(i))
            .collect::<Vec<_>>()
            .join(u)
    }
    fn atoms(&self) -> Vec<&Atom> {
        self.all_except.iter().chain(self.terms.iter().flatten().flat_map(|(a, e)| std::iter::once(a).chain(e.iter()))).collect()
    }
    fn n_atoms(&self) -> usize {
        self.all_except.iter().count() + self.terms.iter().flatten().map(|(_, e)| 1 + e.iter().count()).sum::<usize>()
    }
}

#[derive(Clone, Debug)]
pub struct Case {
    pub expr: Expr,
    pub ext: bool,
    pub serial: Option<(Expr, bool)>,
    /// 0 INTEGER assignment, 1 INTEGER component, 2 constrained reference assignment, 3 constrained reference component,
    /// 4 value-reference endpoints, 5 named-number endpoints, 6 OCTET STRING SIZE assignment, 7 BIT STRING SIZE component,
    /// 8 IA5String SIZE assignment, 9 SEQUENCE OF SIZE assignment, 10 SET OF SIZE component, 11 BMPString SIZE component
    /// 15 constrained parent (INTEGER) assignment, 16 constrained parent component, 17 OCTET STRING with SIZE per operand,
    /// 18 IA5String component with SIZE per operand, 19 constrained parent (OCTET STRING SIZE) assignment
    pub ctx: u8,
    pub words: bool,
    /// constraint of the parent type in contexts 15, 16, 19
    pub parent: Option<Atom>,
}
pub const CTX_NAMES: [&str; 31] = [
    "INTEGER-assignment", "INTEGER-component", "constrained-reference-assignment", "constrained-reference-component", "value-reference-endpoints", "named-number-endpoints",
    "OCTET-STRING-SIZE-assignment", "BIT-STRING-SIZE-component", "IA5String-SIZE-assignment", "SEQUENCE-OF-SIZE-assignment", "SET-OF-SIZE-component", "BMPString-SIZE-component", "named-numbers-of-referenced-type", "INTEGER-object-set-alternative", "OCTET-STRING-SIZE-object-set-alternative", "constrained-parent-assignment", "constrained-parent-component", "OCTET-STRING-SIZE-per-operand-assignment", "IA5String-SIZE-per-operand-component", "constrained-parent-SIZE-assignment", "OCTET-STRING-SIZE-value-reference-endpoints", "BIT-STRING-SIZE-component-value-reference-endpoints", "SEQUENCE-OF-SIZE-value-reference-endpoints", "string-SIZE-component-value-reference-endpoints", "SEQUENCE-OF-element-reference-assignment", "SET-OF-element-reference-component", "named-numbers-of-referenced-type-component", "named-numbers-of-inline-type-component-with-homonym", "value-reference-as-lower-endpoint-only-assignment", "value-reference-as-lower-endpoint-only-component", "value-reference-as-upper-endpoint-only-assignment",
];
impl Case {
    fn is_size(&self) -> bool {
        (6..=11).contains(&self.ctx) || matches!(self.ctx, 14 | 17 | 18 | 19 | 20..=23)
    }
    fn key(&self) -> String {
        let mut n = vec![];
        let mut s = 0;
        format!("{}|{}|{:?}|ctx{}{}", self.expr.text(0, self.words, &mut n, &mut s), self.ext, self.serial.as_ref().map(|(e, x)| (e.text(0, false, &mut vec![], &mut 0), *x)), self.ctx, self.parent.as_ref().map_or(String::new(), |p| format!("|parent {}", p.text(0, &mut vec![], &mut 0))))
    }
    fn shape_key(&self) -> String {
        format!("{}{}{}", self.expr.shape(), if self.ext { ",..." } else { "" }, self.serial.as_ref().map_or(String::new(), |(e, x)| format!(" )( {}{}", e.shape(), if *x { ",..." } else { "" })))
    }
    /// exact permitted set and PER-visible set of the whole constraint chain (root parts)
    fn sets(&self) -> (IvSet, IvSet) {
        let base = if self.is_size() { IvSet::single(Iv::new(Some(0), None)) } else { IvSet::all() };
        let mut full = self.expr.full().intersect(&base);
        let mut pv = self.expr.per_visible().intersect(&base);
        if let Some((e, _)) = &self.serial {
            full = full.intersect(&e.full());
            pv = pv.intersect(&e.per_visible());
        }
        if let Some(p) = &self.parent {
            full = full.intersect(&p.set());
            pv = pv.intersect(&p.set());
        }
        (full, pv)
    }
    fn emit(&self, n: usize, src: &mut String) -> (String, Option<String>) {
        let sp = match self.ctx {
            4 | 20..=23 => 1,
            5 | 12 | 26 | 27 => 2,
            28 | 29 => 3,
            30 => 4,
            _ => 0,
        };
        let mut names = vec![];
        let mut serial = (n as u32) * 100;
        let mut c = format!("({}{})", self.expr.text(sp, self.words, &mut names, &mut serial), if self.ext { ", ..." } else { "" });
        if let Some((e, x)) = &self.serial {
            c.push_str(&format!("({}{})", e.text(sp, false, &mut names, &mut serial), if *x { ", ..." } else { "" }));
        }
        // definitions of contained types (recorded by Atom::text as pairs of `#name` entries)
        let defs: Vec<(String, i128)> = names.iter().filter(|(n, _)| n.starts_with('#')).cloned().collect();
        names.retain(|(n, _)| !n.starts_with('#'));
        for d in defs.chunks(2) {
            src.push_str(&format!("{} ::= INTEGER ({}..{})\n", &d[0].0[1..], d[0].1, d[1].1));
        }
        if matches!(sp, 1 | 3 | 4) {
            for (nm, v) in &names {
                src.push_str(&format!("{nm} INTEGER ::= {v}\n"));
            }
        }
        let mut sz = format!("(SIZE{c})");
        if matches!(self.ctx, 17 | 18) {
            // SIZE written per operand: `(SIZE (a) | SIZE (b))` instead of `(SIZE (a | b))`
            let mut nn = vec![];
            let mut ss = 0;
            sz = format!("({}{})", self.expr.text_with(0, self.words, &mut nn, &mut ss, &|a| format!("SIZE ({a})")), if self.ext { ", ..." } else { "" });
            if let Some((e, x)) = &self.serial {
                sz.push_str(&format!("({}{})", e.text_with(0, false, &mut nn, &mut ss, &|a| format!("SIZE ({a})")), if *x { ", ..." } else { "" }));
            }
        }
        match self.ctx {
            0 | 28 | 30 => {
                src.push_str(&format!("Tq{n} ::= INTEGER {c}\n"));
                (format!("Tq{n}"), None)
            }
            1 | 29 => {
                src.push_str(&format!("Tq{n} ::= SEQUENCE {{ fq1 INTEGER {c} }}\n"));
                (format!("Tq{n}"), Some("fq1".into()))
            }
            2 => {
                src.push_str(&format!("Tq{n} ::= Tz {c}\n"));
                (format!("Tq{n}"), None)
            }
            3 => {
                src.push_str(&format!("Tq{n} ::= SEQUENCE {{ fq1 Tz {c} }}\n"));
                (format!("Tq{n}"), Some("fq1".into()))
            }
            4 => {
                src.push_str(&format!("Tq{n} ::= INTEGER {c}\n"));
                (format!("Tq{n}"), None)
            }
            // a value constraint on the (referenced) element type of SEQUENCE OF / SET OF: it lives on the element's delegate
            24 => {
                src.push_str(&format!("Tq{n} ::= SEQUENCE OF Tz {c}\n"));
                (format!("Tq{n}"), None)
            }
            25 => {
                src.push_str(&format!("Tq{n} ::= SEQUENCE {{ fq1 SET OF Tz {c} }}\n"));
                (format!("Tq{n}"), Some("fq1".into()))
            }
            // size bounds written with value references (the only reference of the assignment)
            20 => {
                src.push_str(&format!("Tq{n} ::= OCTET STRING {sz}\n"));
                (format!("Tq{n}"), None)
            }
            21 => {
                src.push_str(&format!("Tq{n} ::= SEQUENCE {{ fq1 BIT STRING {sz} }}\n"));
                (format!("Tq{n}"), Some("fq1".into()))
            }
            22 => {
                src.push_str(&format!("Tq{n} ::= SEQUENCE {sz} OF BOOLEAN\n"));
                (format!("Tq{n}"), None)
            }
            23 => {
                src.push_str(&format!("Tq{n} ::= SEQUENCE {{ fq1 IA5String {sz}, fq2 OCTET STRING {sz} }}\n"));
                (format!("Tq{n}"), Some(if n % 2 == 0 { "fq1" } else { "fq2" }.into()))
            }
            5 => {
                let nn: Vec<String> = names.iter().map(|(nm, v)| format!("{nm}({v})")).collect();
                if nn.is_empty() {
                    src.push_str(&format!("Tq{n} ::= INTEGER {c}\n"));
                } else {
                    src.push_str(&format!("Tq{n} ::= INTEGER {{ {} }} {c}\n", nn.join(", ")));
                }
                (format!("Tq{n}"), None)
            }
            12 => {
                // the governing type declares the named numbers; a decoy type that sorts before it declares the same names with other values
                let nn: Vec<String> = names.iter().map(|(nm, v)| format!("{nm}({v})")).collect();
                let dd: Vec<String> = names.iter().map(|(nm, v)| format!("{nm}({})", v + 1000)).collect();
                if nn.is_empty() {
                    src.push_str(&format!("Tq{n} ::= INTEGER {c}\n"));
                } else {
                    src.push_str(&format!("Ta{n}decoy ::= INTEGER {{ {} }}\nTb{n}gov ::= INTEGER {{ {} }}\nTq{n} ::= Tb{n}gov {c}\n", dd.join(", "), nn.join(", ")));
                }
                (format!("Tq{n}"), None)
            }
            26 => {
                // the same in component position: `fq1 Tb<n>gov (0..limit)`; the decoys (an INTEGER and an ENUMERATED that sort
                // before the governing type) declare the same names with other numbers
                let nn: Vec<String> = names.iter().map(|(nm, v)| format!("{nm}({v})")).collect();
                let dd: Vec<String> = names.iter().map(|(nm, v)| format!("{nm}({})", v + 1000)).collect();
                if nn.is_empty() {
                    src.push_str(&format!("Tq{n} ::= SEQUENCE {{ fq1 INTEGER {c} }}\n"));
                } else {
                    let en: Vec<String> = names.iter().map(|(nm, _)| nm.clone()).collect();
                    src.push_str(&format!("Ta{n}decoy ::= INTEGER {{ {} }}\nTa{n}enum ::= ENUMERATED {{ zq{n}first, {} }}\nTb{n}gov ::= INTEGER {{ {} }}\nTq{n} ::= SEQUENCE {{ fq1 Tb{n}gov {c} }}\n", dd.join(", "), en.join(", "), nn.join(", ")));
                }
                (format!("Tq{n}"), Some("fq1".into()))
            }
            27 => {
                // the component's own (inline) INTEGER type declares the named numbers; another top-level type that sorts before
                // the SEQUENCE declares the same names with other numbers
                let nn: Vec<String> = names.iter().map(|(nm, v)| format!("{nm}({v})")).collect();
                let dd: Vec<String> = names.iter().map(|(nm, v)| format!("{nm}({})", v + 1000)).collect();
                if nn.is_empty() {
                    src.push_str(&format!("Tq{n} ::= SEQUENCE {{ fq1 INTEGER {c} }}\n"));
                } else {
                    src.push_str(&format!("Ta{n}decoy ::= INTEGER {{ {} }}\nTq{n} ::= SEQUENCE {{ fq1 INTEGER {{ {} }} {c} }}\n", dd.join(", "), nn.join(", ")));
                }
                (format!("Tq{n}"), Some("fq1".into()))
            }
            13 | 14 => {
                // alternative of an information object set (compiled with `opaque_open_types: false`): the bound sits on the
                // delegate `Inner_Sq<n>_Type_0`
                let ty = if self.ctx == 13 { format!("INTEGER {c}") } else { format!("OCTET STRING {sz}") };
                src.push_str(&format!("Sq{n} CLQ ::= {{ {{ {ty} IDENTIFIED BY 0 }} }}\nHq{n} ::= SEQUENCE {{ id CLQ.&id ({{Sq{n}}}), val CLQ.&Type ({{Sq{n}}}{{@id}}) }}\n"));
                (format!("Inner_Sq{n}_Type_0"), None)
            }
            6 | 17 => {
                src.push_str(&format!("Tq{n} ::= OCTET STRING {sz}\n"));
                (format!("Tq{n}"), None)
            }
            18 => {
                src.push_str(&format!("Tq{n} ::= SEQUENCE {{ fq1 IA5String {sz} }}\n"));
                (format!("Tq{n}"), Some("fq1".into()))
            }
            15 => {
                let p = self.parent.as_ref().expect("parent");
                src.push_str(&format!("Tp{n} ::= INTEGER ({})\nTq{n} ::= Tp{n} {c}\n", p.text(0, &mut vec![], &mut 0)));
                (format!("Tq{n}"), None)
            }
            16 => {
                let p = self.parent.as_ref().expect("parent");
                src.push_str(&format!("Tp{n} ::= INTEGER ({})\nTq{n} ::= SEQUENCE {{ fq1 Tp{n} {c} }}\n", p.text(0, &mut vec![], &mut 0)));
                (format!("Tq{n}"), Some("fq1".into()))
            }
            19 => {
                let p = self.parent.as_ref().expect("parent");
                src.push_str(&format!("Tp{n} ::= OCTET STRING (SIZE ({}))\nTq{n} ::= Tp{n} {sz}\n", p.text(0, &mut vec![], &mut 0)));
                (format!("Tq{n}"), None)
            }
            7 => {
                src.push_str(&format!("Tq{n} ::= SEQUENCE {{ fq1 BIT STRING {sz} }}\n"));
                (format!("Tq{n}"), Some("fq1".into()))
            }
            8 => {
                src.push_str(&format!("Tq{n} ::= IA5String {sz}\n"));
                (format!("Tq{n}"), None)
            }
            9 => {
                src.push_str(&format!("Tq{n} ::= SEQUENCE {sz} OF BOOLEAN\n"));
                (format!("Tq{n}"), None)
            }
            10 => {
                src.push_str(&format!("Tq{n} ::= SEQUENCE {{ fq1 SET {sz} OF BOOLEAN }}\n"));
                (format!("Tq{n}"), Some("fq1".into()))
            }
            _ => {
                src.push_str(&format!("Tq{n} ::= SEQUENCE {{ fq1 BMPString {sz} }}\n"));
                (format!("Tq{n}"), Some("fq1".into()))
            }
        }
    }
}

/// "a..=b" | "..=b" | "a.." | "a"  ->  interval
fn parse_range(s: &str) -> Option<Iv> {
    let s = s.trim();
    if let Some((l, h)) = s.split_once("..") {
        // `a..=b` includes b, `a..b` does not (rasn reads the string as a Rust range)
        let (h, inclusive) = match h.strip_prefix('=') {
            Some(r) => (r, true),
            None => (h, false),
        };
        let lo = if l.is_empty() { None } else { Some(l.parse::<i128>().ok()?) };
        let hi = if h.is_empty() { None } else { Some(h.parse::<i128>().ok()? - if inclusive { 0 } else { 1 }) };
        Some(Iv::new(lo, hi))
    } else {
        let v = s.parse::<i128>().ok()?;
        Some(Iv::new(Some(v), Some(v)))
    }
}

/// observed bound for a case: Some((interval, extensible)) or None when no annotation is attached
fn observe(m: &Module, case: &Case, item: &str, field: &Option<String>) -> Result<Option<(Iv, bool)>, String> {
    if matches!(case.ctx, 24 | 25) {
        // the collection item (top-level newtype, or the hoisted newtype of the component) and from it the element type
        let it = m.find(item).ok_or("item missing")?;
        let coll = match (&it.kind, field) {
            (Kind::Struct { fields, .. }, Some(f)) => {
                let ty = fields.iter().find(|x| &x.name == f).ok_or("field missing")?.ty.clone();
                match m.find(&ty).map(|h| &h.kind) {
                    Some(Kind::Struct { fields: hf, tuple: true }) => hf.first().map(|x| x.ty.clone()).unwrap_or(ty),
                    _ => ty,
                }
            }
            (Kind::Struct { fields, tuple: true }, None) => fields.first().map(|x| x.ty.clone()).ok_or("no field")?,
            _ => return Err("unexpected item kind".into()),
        };
        let elem = coll.strip_prefix("SequenceOf<").or_else(|| coll.strip_prefix("SetOf<")).and_then(|t| t.strip_suffix('>')).ok_or_else(|| format!("not a collection: {coll}"))?;
        return Ok(m.find(elem).and_then(|e| e.attrs.range("value")).and_then(|(r, x)| parse_range(&r).map(|iv| (iv, x))));
    }
    let own = observe_own(m, case, item, field)?;
    if case.parent.is_none() {
        return Ok(own);
    }
    // constrained parent: the rasn derives intersect a delegate's / field's constraints with those of the inner type
    // (`<Inner as AsnType>::CONSTRAINTS.intersect(..)`), so the bound in force is the emitted one composed with the bound
    // of the referenced Rust type
    let which = if case.is_size() { "size" } else { "value" };
    let it = m.find(item).ok_or("item missing")?;
    let inner_ty = match (&it.kind, field) {
        (Kind::Struct { fields, .. }, Some(f)) => fields.iter().find(|x| &x.name == f).map(|x| x.ty.clone()),
        (Kind::Struct { fields, tuple: true }, None) => fields.first().map(|x| x.ty.clone()),
        _ => None,
    };
    let parent = inner_ty.as_deref().and_then(|t| m.find(t)).and_then(|p| p.attrs.range(which)).and_then(|(r, x)| parse_range(&r).map(|iv| (iv, x)));
    Ok(match (own, parent) {
        (Some((a, x)), Some((b, _))) => Some((a.intersect(&b), x)),
        (None, Some((b, _))) => Some((b, false)),
        (o, None) => o,
    })
}

fn observe_own(m: &Module, case: &Case, item: &str, field: &Option<String>) -> Result<Option<(Iv, bool)>, String> {
    let which = if case.is_size() { "size" } else { "value" };
    let it = m.find(item).ok_or_else(|| format!("item {item} missing"))?;
    let from_attrs = |a: &proj::Attrs| -> Result<Option<(Iv, bool)>, String> {
        match a.range(which) {
            Some((r, x)) => parse_range(&r).map(|iv| Some((iv, x))).ok_or_else(|| format!("unparsable range `{r}`")),
            None => Ok(None),
        }
    };
    let fixed = |ty: &str| -> Option<Iv> {
        for p in ["FixedOctetString<", "FixedBitString<"] {
            if let Some(r) = ty.strip_prefix(p) {
                let n: i128 = r.trim_end_matches('>').trim_end_matches("usize").parse().ok()?;
                return Some(Iv::new(Some(n), Some(n)));
            }
        }
        None
    };
    match (&it.kind, field) {
        (Kind::Struct { fields, .. }, Some(f)) => {
            let fld = fields.iter().find(|x| &x.name == f).ok_or("field missing")?;
            if let Some(b) = from_attrs(&fld.attrs)? {
                return Ok(Some(b));
            }
            let ty = fld.ty.as_str();
            if let Some(iv) = fixed(ty) {
                return Ok(Some((iv, false)));
            }
            // a hoisted newtype may carry the annotation
            if let Some(h) = m.find(ty) {
                if let Some(b) = from_attrs(&h.attrs)? {
                    return Ok(Some(b));
                }
                if let Kind::Struct { fields: hf, tuple: true } = &h.kind {
                    if let Some(iv) = hf.first().and_then(|x| fixed(&x.ty)) {
                        return Ok(Some((iv, false)));
                    }
                }
            }
            Ok(None)
        }
        (Kind::Struct { fields, tuple: true }, None) => {
            if let Some(b) = from_attrs(&it.attrs)? {
                return Ok(Some(b));
            }
            Ok(fields.first().and_then(|x| fixed(&x.ty)).map(|iv| (iv, false)))
        }
        _ => Err("unexpected item kind".into()),
    }
}

/// hull of the PER-visible set under the reading "contained subtypes are not PER-visible" (None: the case has none)
fn alt_hull(case: &Case, base: Iv) -> Option<Iv> {
    let has_contained = case.expr.atoms().iter().any(|a| matches!(a, Atom::Contained(..))) || case.serial.as_ref().is_some_and(|(e, _)| e.atoms().iter().any(|a| matches!(a, Atom::Contained(..))));
    if !has_contained {
        return None;
    }
    let mut pv2 = case.expr.per_visible_without_contained().intersect(&IvSet::single(base));
    if let Some((e, _)) = &case.serial {
        pv2 = pv2.intersect(&e.per_visible_without_contained());
    }
    Some(pv2.hull().unwrap_or(base))
}

/// the same case with every open range end closed (what the pinned tree's parser makes of `a..<b`)
fn closed_variant(case: &Case) -> Option<Case> {
    let close = |a: &Atom| match a {
        Atom::Open(l, h, _, _) => Atom::Range(Some(*l), Some(*h)),
        o => o.clone(),
    };
    let fix = |e: &Expr| Expr { terms: e.terms.iter().map(|t| t.iter().map(|(a, x)| (close(a), x.as_ref().map(close))).collect()).collect(), all_except: e.all_except.as_ref().map(close) };
    let has_open = case.expr.atoms().iter().any(|a| matches!(a, Atom::Open(..))) || case.serial.as_ref().is_some_and(|(e, _)| e.atoms().iter().any(|a| matches!(a, Atom::Open(..))));
    has_open.then(|| Case { expr: fix(&case.expr), serial: case.serial.as_ref().map(|(e, x)| (fix(e), *x)), ..case.clone() })
}

fn judge(case: &Case, obs: &Option<(Iv, bool)>) -> Vec<(String, String)> {
    let mut out = vec![];
    let (full, pv) = case.sets();
    let base = if case.is_size() { Iv::new(Some(0), None) } else { Iv::all() };
    let hull = pv.hull().unwrap_or(base);
    // an unconstrained result may be expressed by no annotation at all, or by the base range
    let got = obs.map(|o| o.0).unwrap_or(base);
    let got_n = if case.is_size() { got.intersect(&base) } else { got };
    if !full.subset_of_iv(&got_n) {
        out.push(("excludes-permitted".to_string(), format!("emitted {} excludes values of the permitted set {}", got.show(), full.show())));
    } else if got_n != hull {
        let wider = IvSet::single(hull).subset_of_iv(&got_n);
        // contained subtypes: whether X.691 counts them as PER-visible is not asserted here; a bound that is right under
        // either reading is accepted (exclusion of a permitted value, above, is judged regardless)
        let alt_ok = alt_hull(case, base) == Some(got_n);
        if !alt_ok {
        out.push((if wider { "wider-than-per-visible" } else { "tighter-than-per-visible" }.to_string(), format!("emitted {}, PER-visible effective constraint is {}", got.show(), hull.show())));
        }
    }
    // extensibility: judged when unambiguous (single constraint, or the last one of a serial chain decides per X.680 50.8)
    let want_ext = match &case.serial {
        None => case.ext,
        Some((_, x)) => *x,
    };
    let ambiguous = matches!(&case.serial, Some((_, x)) if *x != case.ext);
    if !ambiguous {
        if std::env::var("C04_DEBUG").is_ok() && want_ext && hull == base {
            eprintln!("DBG|{}|{}|{}", case.shape_key(), case.is_size(), match obs { None => "none".to_string(), Some(o) => format!("some ext={}", o.1) });
        }
        let got_ext = obs.map(|o| o.1).unwrap_or(false);
        // an effective constraint that is the whole base range gets no annotation at all, marker or not: measured on the
        // pinned tree for every INTEGER case and for SIZE expressions containing EXCEPT / ALL EXCEPT; a SIZE built from
        // ranges and unions only (e.g. `SIZE (0..MAX, ...)`) does get `size("0..", extensible)` and is judged
        let has_except = case.expr.all_except.is_some() || case.expr.terms.iter().flatten().any(|(_, e)| e.is_some()) || case.serial.as_ref().is_some_and(|(e, _)| e.all_except.is_some() || e.terms.iter().flatten().any(|(_, x)| x.is_some()));
        let no_annotation_for_full_range = obs.is_none() && want_ext && (hull == base || alt_hull(case, base) == Some(base)) && (!case.is_size() || has_except);
        if got_ext != want_ext && !no_annotation_for_full_range {
            out.push(("extensible-flag".to_string(), format!("extensible={got_ext}, constraint {} an extension marker", if want_ext { "carries" } else { "has no" })));
        }
    }
    out
}

fn check_batch(cases: &[Case], rep: &mut Report) {
    let object_sets = cases.iter().any(|c| c.ctx >= 13);
    let mut src = String::from("Mq1 DEFINITIONS AUTOMATIC TAGS ::= BEGIN\nTz ::= INTEGER\n");
    if object_sets {
        src.push_str("CLQ ::= CLASS { &id INTEGER UNIQUE, &Type } WITH SYNTAX { &Type IDENTIFIED BY &id }\n");
    }
    let mut locs = vec![];
    for (n, c) in cases.iter().enumerate() {
        locs.push(c.emit(n, &mut src));
    }
    src.push_str("END\n");
    let run = if object_sets { comp::rasn(&[src.clone()], &comp::Cfg { opaque_open_types: false, ..comp::Cfg::default_cfg() }) } else { comp::rasn1(&src) };
    let mods = match &run.out {
        comp::Outcome::Ok { generated, .. } => proj::project(generated).ok(),
        _ => None,
    };
    let Some(mods) = mods else {
        if cases.len() == 1 {
            rep.evaluations += 1;
            rep.count("not_compiled(not a claim)", 1);
            rep.note("not_compiled_shapes", cases[0].shape_key());
            return;
        }
        for c in cases {
            check_batch(std::slice::from_ref(c), rep);
        }
        return;
    };
    let m = &mods[0];
    let warned = run.out.warnings().join("\n");
    for (c, (item, field)) in cases.iter().zip(&locs) {
        rep.evaluations += 1;
        if warned.contains(&format!("{item} ")) || warned.contains(&format!("{item}:")) || warned.contains(&format!("'{item}'")) || m.find(item).is_none() {
            rep.count("warned_or_absent(not a claim)", 1);
            continue;
        }
        let obs = match observe(m, c, item, field) {
            Ok(o) => o,
            Err(e) => {
                rep.inconclusive.push(format!("{}: {e}", c.key()));
                continue;
            }
        };
        rep.count("bounds_compared", 1);
        rep.count(&format!("bounds_compared[{}]", CTX_NAMES[c.ctx as usize]), 1);
        let mut verdicts = judge(c, &obs);
        if c.is_size() {
            // a size bound belongs in `size(..)`; a `value(..)` on a string / collection type constrains nothing
            let it = m.find(item);
            let attrs = match (it.map(|i| &i.kind), field) {
                (Some(Kind::Struct { fields, .. }), Some(f)) => fields.iter().find(|x| &x.name == f).map(|x| &x.attrs),
                _ => it.map(|i| &i.attrs),
            };
            if let Some((r, _)) = attrs.and_then(|a| a.range("value")) {
                verdicts.push(("size-bound-emitted-as-value".to_string(), format!("value(\"{r}\") attached to a type that has no integer value; the size bound belongs in size(..)")));
            }
        }
        rep.nontrivial.insert(hash_str(&c.key()));
        rep.note("expression_shapes", c.shape_key());
        if rep.samples.len() < 5 && rep.evaluations % 3001 == 17 {
            let (f, p) = c.sets();
            rep.sample(json!({"constraint": c.key(), "permitted": f.show(), "per_visible": p.show(), "observed": obs.map(|o| (o.0.show(), o.1))}));
        }
        for (kind, detail) in verdicts {
            let ctxc = match c.ctx {
                0 | 4 | 5 | 28 | 30 => "assignment",
                1 | 27 | 29 => "component",
                2 | 3 | 12 | 15 | 16 | 19 | 26 => "constrained-reference",
                24 | 25 => "collection-element",
                13 | 14 => "object-set-alternative",
                _ => "size",
            };
            // root-cause classes of the known folding defects (spec-side conditions only); everything else keeps its exact shape
            let ops = |e: &Expr| e.n_atoms().saturating_sub(1) + e.all_except.iter().count();
            let n_ops = ops(&c.expr);
            let has_union = c.expr.terms.len() > 1;
            let has_except = c.expr.terms.iter().flatten().any(|(_, e)| e.is_some());
            let class = if c.ctx == 5 {
                "named-number-endpoints-of-own-type".to_string()
            } else if c.ctx == 27 && kind != "extensible-flag" && {
                let mut nm = vec![];
                let mut sr = 0;
                let _ = c.expr.text(2, false, &mut nm, &mut sr);
                if let Some((e, _)) = &c.serial {
                    let _ = e.text(2, false, &mut nm, &mut sr);
                }
                nm.iter().any(|(n, _)| !n.starts_with('#'))
            } {
                "named-number-of-the-inline-type-resolved-in-a-homonymous-type".to_string()
            } else if n_ops >= 2 {
                "set-operations>=2".to_string()
            } else if (c.serial.is_some() || c.parent.is_some()) && has_union {
                "serial-after-union".to_string()
            } else if kind == "wider-than-per-visible" && closed_variant(c).is_some_and(|cv| judge(&cv, &obs).is_empty()) {
                // exactly the bound of the closed range: the `<` was read and dropped
                "open-range-end-ignored".to_string()
            } else if has_except && c.ext && kind == "extensible-flag" {
                "except-with-marker".to_string()
            } else {
                c.shape_key()
            };
            let asn1_text = {
                let mut s = String::new();
                c.emit(0, &mut s);
                s
            };
            rep.violations.push(Violation {
                sig: format!("c04|{kind}|{class}|{ctxc}"),
                what: format!("{} [{}]: {detail}", c.key(), CTX_NAMES[c.ctx as usize]),
                replay: json!({"case": c.key(), "asn1": asn1_text, "detail": detail}),
            });
        }
    }
}

fn atoms(alpha: &[i128], size: bool) -> Vec<Atom> {
    let mut v = vec![];
    for a in alpha {
        v.push(Atom::Single(*a));
    }
    for (i, a) in alpha.iter().enumerate() {
        for b in &alpha[i..] {
            if a < b {
                v.push(Atom::Range(Some(*a), Some(*b)));
            }
        }
    }
    for a in alpha {
        v.push(Atom::Range(Some(*a), None));
        if !size {
            v.push(Atom::Range(None, Some(*a)));
        }
    }
    if !size {
        v.push(Atom::Range(None, None));
    }
    v
}

fn two_operand(at: &[Atom]) -> Vec<Expr> {
    let mut v = vec![];
    for a in at {
        v.push(Expr { terms: vec![vec![(a.clone(), None)]], all_except: None });
        v.push(Expr { terms: vec![], all_except: Some(a.clone()) });
        for b in at {
            v.push(Expr { terms: vec![vec![(a.clone(), None)], vec![(b.clone(), None)]], all_except: None });
            v.push(Expr { terms: vec![vec![(a.clone(), None), (b.clone(), None)]], all_except: None });
            v.push(Expr { terms: vec![vec![(a.clone(), Some(b.clone()))]], all_except: None });
        }
    }
    v
}

fn random_expr(rng: &mut Rng, at: &[Atom], max_atoms: usize) -> Expr {
    let n = 1 + rng.below(max_atoms);
    let mut terms: Vec<Vec<(Atom, Option<Atom>)>> = vec![vec![]];
    let mut used = 0;
    while used < n {
        let a = rng.pick(at).clone();
        used += 1;
        let e = if used < n && rng.chance(1, 4) {
            used += 1;
            Some(rng.pick(at).clone())
        } else {
            None
        };
        terms.last_mut().unwrap().push((a, e));
        if used < n && rng.chance(1, 2) {
            terms.push(vec![]);
        }
    }
    terms.retain(|t| !t.is_empty());
    Expr { terms, all_except: None }
}

pub fn run(ctx: &Ctx) -> Report {
    let mut rep = Report::new(
        "exploration",
        "subtype expressions as unions of intersections of (atom [EXCEPT atom]) or ALL EXCEPT atom; atoms = single values, a..b, MIN..b, a..MAX, MIN..MAX over an endpoint alphabet; optional outer `, ...`; optional second serial constraint; spelled with | ^ or UNION INTERSECTION; endpoints as literals, value references or named numbers; on INTEGER (assignment, component, constrained reference) and via SIZE on OCTET STRING, BIT STRING, IA5String, BMPString, SEQUENCE OF, SET OF. EXHAUSTIVE for <= 2 atoms over the 5-point alphabet {-300,-1,0,5,300} (SIZE: {0,1,5,255,300}) in the INTEGER-assignment, INTEGER-component and OCTET-STRING-SIZE contexts; seeded random for 3..4 atoms, the 7-point alphabet, serial constraints and the remaining contexts. Oracle: emitted value()/size()/Fixed*String<n> = hull of the PER-visible set (EXCEPT ignored, ^ intersects, | unites), never excluding a permitted value (exact set semantics), extensible flag = marker. Added spellings (enumerated over the 5-point alphabet): open range ends `a..<b`, `a<..b`, `a<..<b` (the endpoint is excluded); contained subtypes `Tc` / `INCLUDES Tc` as operands of |, ^, EXCEPT and in serial position (judged for exclusion of permitted values under every reading, for width under either reading of their PER-visibility); constrained parent types `Tp ::= INTEGER (p)`, `Tq ::= Tp (c)` / component `f Tp (c)` / `OCTET STRING (SIZE (p))` parent, where the bound in force is the emitted annotation intersected with the parent item's annotation, as the rasn derives compose them; value constraints on the referenced element type of SEQUENCE OF / SET OF (`SEQUENCE OF Tz (c)`, read from the element's delegate); size bounds with value references as endpoints on OCTET STRING, BIT STRING, IA5String and SEQUENCE OF (the references being the only ones of the assignment); SIZE written per operand `(SIZE (a) | SIZE (b))`, `(SIZE (a) EXCEPT SIZE (b))`, where additionally a value(..) annotation on a type that has no integer value is a violation. Expressions whose exact set is empty are skipped; cases the compiler rejects or warns about are not claims. Non-trivial = bound compared; distinct by constraint text and context.",
    );
    rep.must_observe = vec!["bounds_compared".into(), "bounds_compared[INTEGER-object-set-alternative]".into(), "bounds_compared[INTEGER-component]".into(), "bounds_compared[OCTET-STRING-SIZE-assignment]".into(), "bounds_compared[constrained-parent-assignment]".into(), "bounds_compared[constrained-parent-component]".into(), "bounds_compared[OCTET-STRING-SIZE-per-operand-assignment]".into(), "bounds_compared[IA5String-SIZE-per-operand-component]".into(), "bounds_compared[OCTET-STRING-SIZE-value-reference-endpoints]".into(), "bounds_compared[SEQUENCE-OF-SIZE-value-reference-endpoints]".into(), "bounds_compared[SEQUENCE-OF-element-reference-assignment]".into(), "bounds_compared[SET-OF-element-reference-component]".into()];
    rep.assumptions = vec!["X.691 10.3 as implemented in c04.rs (Expr::per_visible) over the brute-force-tested interval sets of iv.rs".into(), "parenthesised sub-expressions and an open lower end (`a<..b`) are rejected by the compiler's parser and therefore not claims".into(), "rasn 0.27 derives intersect the constraints of a delegate / field with those of its inner type (asn_type.rs:105, config.rs:886), which is why a constrained parent's bound need not be repeated on the referencing item".into()];
    let e5: [i128; 5] = [-300, -1, 0, 5, 300];
    let s5: [i128; 5] = [0, 1, 5, 255, 300];
    let e7: [i128; 7] = [-300, -1, 0, 1, 5, 255, 300];
    let mut cases: Vec<Case> = vec![];
    if let Some(path) = &ctx.replay {
        let doc: serde_json::Value = serde_json::from_str(&std::fs::read_to_string(path).expect("replay")).expect("json");
        let asn = doc["case"]["asn1"].as_str().unwrap_or("").to_string();
        let src = format!("Mq1 DEFINITIONS AUTOMATIC TAGS ::= BEGIN\nTz ::= INTEGER\n{asn}END\n");
        let run = comp::rasn1(&src);
        println!("replayed input:\n{src}\noutcome: {}\n{}", run.out.brief(), run.out.generated().unwrap_or(""));
        rep.evaluations = 1;
        rep.inconclusive.push("replay prints the compiler output for the recorded ASN.1; the verdict needs the model (re-run the check)".into());
        return rep;
    }
    let at = atoms(&e5, false);
    let sat = atoms(&s5, true);
    for e in two_operand(&at) {
        for ext in [false, true] {
            for c in [0u8, 1] {
                cases.push(Case { expr: e.clone(), ext, serial: None, ctx: c, words: false, parent: None });
            }
        }
    }
    for e in two_operand(&sat) {
        for ext in [false, true] {
            cases.push(Case { expr: e.clone(), ext, serial: None, ctx: 6, words: false, parent: None });
        }
    }
    // alternatives of an information object set (generator path of its own: delegate structs built in
    // generate_information_object_set): one- and two-operand expressions
    let mut os_cases: Vec<Case> = vec![];
    for e in two_operand(&at).into_iter().step_by(3) {
        for ext in [false, true] {
            os_cases.push(Case { expr: e.clone(), ext, serial: None, ctx: 13, words: false, parent: None });
        }
    }
    for e in two_operand(&sat).into_iter().step_by(3) {
        for ext in [false, true] {
            os_cases.push(Case { expr: e.clone(), ext, serial: None, ctx: 14, words: false, parent: None });
        }
    }
    // (EXCEPT together with a marker is a known finding of the folding itself, listed for the other contexts)
    os_cases.retain(|c| !c.sets().0.is_empty() && !(c.ext && (c.expr.all_except.is_some() || c.expr.terms.iter().flatten().any(|(_, e)| e.is_some()))));
    rep.exhaustive = Some(true);
    rep.extra.insert("exhaustive_two_operand_cases".into(), json!(cases.len()));
    // --- spellings of the quantifier that the atom alphabet above does not contain -------------------------------------
    let one = |a: Atom| Expr { terms: vec![vec![(a, None)]], all_except: None };
    let un = |a: Atom, b: Atom| Expr { terms: vec![vec![(a, None)], vec![(b, None)]], all_except: None };
    let is = |a: Atom, b: Atom| Expr { terms: vec![vec![(a, None), (b, None)]], all_except: None };
    let ex = |a: Atom, b: Atom| Expr { terms: vec![vec![(a, Some(b))]], all_except: None };
    let mut extra: Vec<Case> = vec![];
    // (a) open range ends
    for (i, a) in e5.iter().enumerate() {
        for b in &e5[i + 1..] {
            if b - a < 3 {
                continue;
            }
            for (lo, ho) in [(false, true), (true, false), (true, true)] {
                let o = Atom::Open(*a, *b, lo, ho);
                for ext in [false, true] {
                    for c in [0u8, 1] {
                        extra.push(Case { expr: one(o.clone()), ext, serial: None, ctx: c, words: false, parent: None });
                    }
                }
                extra.push(Case { expr: un(o.clone(), Atom::Single(1000)), ext: false, serial: None, ctx: 0, words: false, parent: None });
                extra.push(Case { expr: is(Atom::Range(Some(-1000), Some(1000)), o.clone()), ext: false, serial: None, ctx: 1, words: false, parent: None });
                if *a >= 0 {
                    extra.push(Case { expr: one(o.clone()), ext: false, serial: None, ctx: 6, words: false, parent: None });
                }
            }
        }
    }
    // (b) contained subtypes as operands
    for (i, a) in e5.iter().enumerate() {
        for b in &e5[i + 1..] {
            for kw in [false, true] {
                let t = Atom::Contained(*a, *b, kw);
                let r = Atom::Range(Some(-1), Some(5));
                let far = Atom::Range(Some(1000), Some(2000));
                for c in [0u8, 1] {
                    for ext in [false, true] {
                        extra.push(Case { expr: one(t.clone()), ext, serial: None, ctx: c, words: false, parent: None });
                    }
                    extra.push(Case { expr: un(t.clone(), far.clone()), ext: false, serial: None, ctx: c, words: false, parent: None });
                    extra.push(Case { expr: un(far.clone(), t.clone()), ext: false, serial: None, ctx: c, words: false, parent: None });
                    extra.push(Case { expr: is(t.clone(), r.clone()), ext: false, serial: None, ctx: c, words: false, parent: None });
                    extra.push(Case { expr: is(r.clone(), t.clone()), ext: false, serial: None, ctx: c, words: false, parent: None });
                    extra.push(Case { expr: ex(Atom::Range(Some(-1000), Some(1000)), t.clone()), ext: false, serial: None, ctx: c, words: false, parent: None });
                    extra.push(Case { expr: un(t.clone(), Atom::Contained(1000, 2000, kw)), ext: false, serial: None, ctx: c, words: false, parent: None });
                    extra.push(Case { expr: one(Atom::Range(Some(-1000), Some(1000))), ext: false, serial: Some((one(t.clone()), false)), ctx: c, words: false, parent: None });
                    extra.push(Case { expr: one(t.clone()), ext: false, serial: Some((one(Atom::Range(Some(-1000), Some(1000))), false)), ctx: c, words: false, parent: None });
                }
            }
        }
    }
    // (c) constrained parent types: the bound in force is the composition (see `observe`)
    let parents: Vec<Atom> = vec![Atom::Range(Some(-300), Some(300)), Atom::Range(Some(-1), Some(5)), Atom::Range(Some(0), None), Atom::Range(None, Some(5)), Atom::Range(Some(-300), Some(-1)), Atom::Range(Some(0), Some(255))];
    for p in &parents {
        for e in two_operand(&at).into_iter().step_by(7) {
            for c in [15u8, 16] {
                extra.push(Case { expr: e.clone(), ext: false, serial: None, ctx: c, words: false, parent: Some(p.clone()) });
            }
        }
    }
    for p in [Atom::Range(Some(0), Some(300)), Atom::Range(Some(1), Some(5)), Atom::Range(Some(5), None), Atom::Range(Some(1), Some(255))] {
        for e in two_operand(&sat).into_iter().step_by(5) {
            extra.push(Case { expr: e.clone(), ext: false, serial: None, ctx: 19, words: false, parent: Some(p.clone()) });
        }
    }
    // (d) SIZE written per operand
    for e in two_operand(&sat) {
        if e.n_atoms() < 2 {
            continue;
        }
        for ext in [false, true] {
            extra.push(Case { expr: e.clone(), ext, serial: None, ctx: 17, words: false, parent: None });
        }
        extra.push(Case { expr: e.clone(), ext: false, serial: None, ctx: 18, words: false, parent: None });
    }
    // (e) size bounds whose endpoints are value references
    for e in two_operand(&sat).into_iter().step_by(2) {
        for (k, c) in [20u8, 21, 22, 23].into_iter().enumerate() {
            extra.push(Case { expr: e.clone(), ext: k % 2 == 1 && e.all_except.is_none() && !e.terms.iter().flatten().any(|(_, x)| x.is_some()), serial: None, ctx: c, words: false, parent: None });
        }
    }
    // (f) value constraints on a referenced element type
    for e in two_operand(&at).into_iter().step_by(3) {
        for c in [24u8, 25] {
            extra.push(Case { expr: e.clone(), ext: false, serial: None, ctx: c, words: false, parent: None });
        }
    }
    rep.extra.insert("extra_spelling_cases".into(), json!(extra.len()));
    cases.extend(extra);
    let at7 = atoms(&e7, false);
    let sat7 = atoms(&[0, 1, 2, 5, 255, 256, 300], true);
    let nrand = ctx.pick(40_000u64, 800_000);
    for i in 0..nrand {
        let mut rng = Rng::for_case(ctx.seed, 4, i);
        let c = match rng.below(18) {
            13 => 26,
            14 => 27,
            15 => 28,
            16 => 29,
            17 => 30,
            x => x,
        } as u8;
        let pool = if (6..=11).contains(&c) { &sat7 } else { &at7 };
        let expr = random_expr(&mut rng, pool, 4);
        let serial = if rng.chance(1, 5) { Some((random_expr(&mut rng, pool, 1), rng.chance(1, 4))) } else { None };
        cases.push(Case { expr, ext: rng.chance(1, 4), serial, ctx: c, words: rng.chance(1, 6), parent: None });
    }
    // illegal (empty) constraints are not generated
    cases.retain(|c| !c.sets().0.is_empty() && c.expr.n_atoms() <= 4);
    let acc = Acc::new(rep);
    let mut chunks: Vec<&[Case]> = os_cases.chunks(40).collect();
    chunks.extend(cases.chunks(120));
    par_for(chunks.len() as u64, |i| {
        let mut local = Report::default();
        check_batch(chunks[i as usize], &mut local);
        acc.with(|r| r.merge(local));
    });
    acc.into_inner()
}
