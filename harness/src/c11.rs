//! C11 — the result is a deterministic function of the set of definitions (metamorphic equality + schedules).
use crate::c08::load_corpus;
use crate::comp::{self, Cfg};
use crate::core::*;
use crate::gen::{self, GenOpts, ModuleSet};
use serde_json::json;
use std::sync::Arc;

#[derive(Clone, PartialEq, Eq, Debug)]
pub struct Key {
    status: String,
    generated: String,
    warnings: Vec<String>,
}

pub fn key_of(srcs: &[String], cfg: &Cfg) -> Key {
    let run = comp::rasn(srcs, cfg);
    match &run.out {
        comp::Outcome::Ok { generated, warnings } => {
            let mut w = warnings.clone();
            w.sort();
            Key { status: "Ok".into(), generated: generated.clone(), warnings: w }
        }
        comp::Outcome::Err { display, .. } => Key { status: "Err".into(), generated: display.clone(), warnings: vec![] },
        comp::Outcome::Panic(p) => Key { status: "Panic".into(), generated: p.clone(), warnings: vec![] },
    }
}

fn diff_kind(a: &Key, b: &Key) -> Option<String> {
    if a == b {
        None
    } else if a.status != b.status {
        Some(format!("status {}->{}", a.status, b.status))
    } else if a.generated != b.generated {
        Some("bytes differ".into())
    } else {
        Some("warnings differ".into())
    }
}

fn first_diff(a: &str, b: &str) -> String {
    let i = a.bytes().zip(b.bytes()).position(|(x, y)| x != y).unwrap_or(a.len().min(b.len()));
    let lo = i.saturating_sub(60);
    let cut = |s: &str| -> String {
        let mut l = lo;
        while !s.is_char_boundary(l) && l > 0 {
            l -= 1;
        }
        let mut h = (i + 60).min(s.len());
        while !s.is_char_boundary(h) && h < s.len() {
            h += 1;
        }
        s.get(l..h).unwrap_or("").to_string()
    };
    format!("…{}… vs …{}…", cut(a), cut(b))
}

fn opts() -> GenOpts {
    GenOpts { modules: (1, 3), assigns: (1, 8), max_depth: 2, max_comps: 4, ..GenOpts::default() }
}

fn permutations(n: usize) -> Vec<Vec<usize>> {
    fn rec(cur: &mut Vec<usize>, used: &mut Vec<bool>, n: usize, out: &mut Vec<Vec<usize>>) {
        if cur.len() == n {
            out.push(cur.clone());
            return;
        }
        for i in 0..n {
            if !used[i] {
                used[i] = true;
                cur.push(i);
                rec(cur, used, n, out);
                cur.pop();
                used[i] = false;
            }
        }
    }
    let mut out = vec![];
    rec(&mut vec![], &mut vec![false; n], n, &mut out);
    out
}

fn permuted_assignments(set: &ModuleSet, rng: &mut Rng, k: usize) -> Vec<(String, ModuleSet)> {
    let mut out = vec![];
    // all permutations when every module has <= 4 assignments and the product stays small, else reversal + k random
    let small = set.modules.iter().all(|m| m.assigns.len() <= 4) && set.modules.len() == 1;
    if small {
        for p in permutations(set.modules[0].assigns.len()).into_iter().skip(1) {
            let mut s = set.clone();
            s.modules[0].assigns = p.iter().map(|i| set.modules[0].assigns[*i].clone()).collect();
            out.push(("assignment-permutation(all)".to_string(), s));
        }
    } else {
        let mut s = set.clone();
        for m in s.modules.iter_mut() {
            m.assigns.reverse();
        }
        out.push(("assignment-permutation(reversal)".to_string(), s));
        for _ in 0..k {
            let mut s = set.clone();
            for m in s.modules.iter_mut() {
                rng.shuffle(&mut m.assigns);
            }
            out.push(("assignment-permutation(random)".to_string(), s));
        }
    }
    out
}

fn check_set(seed: u64, idx: u64, k: usize, rep: &mut Report) {
    let mut rng = Rng::for_case(seed, 11, idx);
    let set = if idx % 10 == 9 { gen::assoc_import_set(&mut rng) } else { gen::random_set(seed, 1100, idx, &opts()) };
    let cfg = Cfg::default_cfg();
    let base_src = vec![set.render().text];
    let base = key_of(&base_src, &cfg);
    rep.evaluations += 1;
    if base.status == "Panic" {
        rep.count("baseline_panic(C08's subject)", 1);
        return;
    }
    rep.count(&format!("g_inputs[{}]", base.status), 1);
    let mut record = |rel: &str, srcs: &[String], k2: &Key, rep: &mut Report| {
        rep.evaluations += 1;
        rep.count(&format!("compared[{}]", rel.split('(').next().unwrap()), 1);
        rep.nontrivial.insert(hash_str(&format!("{rel}|{}", srcs.join("\u{1}"))));
        if let Some(d) = diff_kind(&base, k2) {
            rep.violations.push(Violation {
                sig: format!("c11|{}|{}", rel.split('(').next().unwrap(), d),
                what: format!("{rel}: {d}: {}", first_diff(&base.generated, &k2.generated)),
                replay: json!({"baseline_sources": base_src, "variant_sources": srcs, "relation": rel}),
            });
        }
    };
    // repetition
    let again = key_of(&base_src, &cfg);
    record("repeat", &base_src, &again, rep);
    // history: this worker thread has compiled many other generated sets before (same definition names Tq1, nq3, vq7 ..
    // with other contents); a thread that has never compiled anything must produce the same result
    {
        let (srcs, c2) = (base_src.clone(), cfg.clone());
        if let Ok(fresh) = std::thread::Builder::new().stack_size(256 << 20).spawn(move || key_of(&srcs, &c2)).map(|h| h.join()) {
            match fresh {
                Ok(fresh) => record("history(fresh-thread-vs-worker-history)", &base_src, &fresh, rep),
                Err(_) => rep.count("fresh_thread_panicked(C08's subject)", 1),
            }
        }
    }
    // history with homonyms: a module pair defining the same names with other numbers is compiled first on a new thread
    if idx % 4 == 0 {
        let k1 = 2 + rng.below(40) as i64;
        let k2 = k1 + 1 + rng.below(40) as i64;
        let twin = |k: i64| -> String {
            format!(
                "Hq1 DEFINITIONS AUTOMATIC TAGS ::= BEGIN\nVersion ::= INTEGER {{ v1(0), v3({k}) }}\nColour ::= ENUMERATED {{ red({k}), green({}) }}\nlimit INTEGER ::= {}\nTq1 ::= Version (0..v3)\nTq2 ::= SEQUENCE {{ a Version DEFAULT v3, b Colour DEFAULT red, c INTEGER (0..limit) DEFAULT limit }}\nTq3 ::= {} (FROM (\"0\"..\"9\") ^ SIZE (1..{k}))\nEND\n",
                k + 1,
                k * 3,
                if k % 2 == 0 { "NumericString" } else { "IA5String" }
            )
        };
        let (p1, p2) = (vec![twin(k1)], vec![twin(k2)]);
        let alone = {
            let (s, c) = (p2.clone(), cfg.clone());
            std::thread::Builder::new().stack_size(64 << 20).spawn(move || key_of(&s, &c)).ok().and_then(|h| h.join().ok())
        };
        let after = {
            let (a, b, c) = (p1.clone(), p2.clone(), cfg.clone());
            std::thread::Builder::new().stack_size(64 << 20).spawn(move || {
                let _ = key_of(&a, &c);
                key_of(&b, &c)
            }).ok().and_then(|h| h.join().ok())
        };
        if let (Some(alone), Some(after)) = (alone, after) {
            rep.evaluations += 3;
            rep.count("compared[history]", 1);
            rep.count("compared[history-homonyms]", 1);
            rep.nontrivial.insert(hash_str(&format!("homonyms|{k1}|{k2}")));
            if let Some(d) = diff_kind(&alone, &after) {
                rep.violations.push(Violation {
                    sig: format!("c11|history-homonyms|{d}"),
                    what: format!("a module compiled after a same-named module with other numbers differs from the module compiled alone: {d}: {}", first_diff(&alone.generated, &after.generated)),
                    replay: json!({"baseline_sources": p2, "variant_sources": p2, "preceded_by": p1, "relation": "history-homonyms"}),
                });
            }
        }
    }
    // assignments permuted inside modules
    // (second pass: every assignment carries a leading comment, which becomes its doc text and must travel with it)
    let with_docs = |text: &str| -> String {
        let mut out = String::new();
        for l in text.lines() {
            let first = l.split_whitespace().next().unwrap_or("");
            if !l.contains("DEFINITIONS") && first != "END" && first != "IMPORTS" && first != "EXPORTS" && !first.is_empty() {
                out.push_str(&format!("-- about {first}\n"));
            }
            out.push_str(l);
            out.push('\n');
        }
        out
    };
    let base_docs_src = vec![with_docs(&base_src[0])];
    let base_docs = key_of(&base_docs_src, &cfg);
    for (rel, s) in permuted_assignments(&set, &mut rng, k) {
        let srcs = vec![s.render().text];
        let kk = key_of(&srcs, &cfg);
        record(&rel, &srcs, &kk, rep);
        let dsrcs = vec![with_docs(&srcs[0])];
        let dk = key_of(&dsrcs, &cfg);
        rep.evaluations += 1;
        rep.count("compared[assignment-permutation-with-comments]", 1);
        rep.nontrivial.insert(hash_str(&format!("{rel}+comments|{}", dsrcs[0])));
        if let Some(d) = diff_kind(&base_docs, &dk) {
            rep.violations.push(Violation {
                sig: format!("c11|assignment-permutation-with-comments|{d}"),
                what: format!("{rel}, every assignment preceded by a comment: {d}: {}", first_diff(&base_docs.generated, &dk.generated)),
                replay: json!({"baseline_sources": base_docs_src, "variant_sources": dsrcs, "relation": format!("{rel}+comments")}),
            });
        }
    }
    let n = set.modules.len();
    if n > 1 {
        let perms = permutations(n);
        for p in perms.iter().skip(1) {
            // modules permuted within one source
            let srcs = vec![set.render_modules(p).text];
            let kk = key_of(&srcs, &cfg);
            record("module-permutation(all)", &srcs, &kk, rep);
            // one source per module, permuted
            let each = set.render_each();
            let srcs: Vec<String> = p.iter().map(|i| each[*i].clone()).collect();
            let kk = key_of(&srcs, &cfg);
            record("source-permutation(all)", &srcs, &kk, rep);
        }
        let srcs = set.render_each();
        let kk = key_of(&srcs, &cfg);
        record("split-into-sources", &srcs, &kk, rep);
    }
    if rep.samples.len() < 3 && idx % 97 == 5 {
        rep.sample(json!({"input": one_line(&base_src[0], 300), "status": base.status, "bytes": base.generated.len(), "warnings": base.warnings.len()}));
    }
}

pub fn run(ctx: &Ctx) -> Report {
    let mut rep = Report::new(
        "exploration",
        "inputs: grammar-G module sets (1..3 modules) and the real-world corpus modules (<= 60 kB; Ok and Err outcomes both compared). Relations executed per G input: repetition; assignments permuted inside modules (every permutation for single-module inputs with <= 4 assignments, else reversal + k random); every permutation of the modules inside one source; every permutation of one-source-per-module; one source vs split sources. Corpus: repetition, compilation after h in {1,2,3} other compilations on the same thread (histories), and 2/4/8/16 threads each compiling a shuffled copy of the whole input list concurrently, all compared byte-for-byte (generated text + sorted warning strings) with a single-threaded reference. rustfmt is made unavailable. Non-trivial = one comparison executed; distinct by (relation, sources).",
    );
    rep.must_observe = vec!["compared[repeat]".into(), "compared[assignment-permutation]".into(), "compared[threads]".into(), "compared[history]".into()];
    rep.assumptions = vec!["equality of String bytes; warnings compared as sorted Display strings".into()];
    if let Some(path) = &ctx.replay {
        let doc: serde_json::Value = serde_json::from_str(&std::fs::read_to_string(path).expect("replay")).expect("json");
        let c = &doc["case"];
        let get = |k: &str| -> Vec<String> { c[k].as_array().map(|a| a.iter().map(|x| x.as_str().unwrap_or("").to_string()).collect()).unwrap_or_default() };
        let (a, b) = (get("baseline_sources"), get("variant_sources"));
        if !a.is_empty() && !b.is_empty() {
            let (ka, kb) = (key_of(&a, &Cfg::default_cfg()), key_of(&b, &Cfg::default_cfg()));
            rep.evaluations = 2;
            if let Some(d) = diff_kind(&ka, &kb) {
                rep.violations.push(Violation { sig: doc["sig"].as_str().unwrap_or("c11|replay").into(), what: format!("replayed: {d}"), replay: c.clone() });
            }
        }
        return rep;
    }
    let seed = ctx.seed;
    let n_g = ctx.pick(1500u64, 40_000);
    let k = ctx.pick(3usize, 10);
    let acc = Acc::new(rep);
    par_for(n_g, |i| {
        let mut local = Report::default();
        check_set(seed, i, k, &mut local);
        acc.with(|r| r.merge(local));
    });
    let mut rep = acc.into_inner();

    // ---- corpus + G texts: histories and schedules
    let corpus = load_corpus();
    let max_len = ctx.pick(20_000usize, 60_000);
    let mut inputs: Vec<(String, String)> = corpus.files.iter().filter(|f| f.1.len() <= max_len).cloned().collect();
    Rng::for_case(seed, 111, 0).shuffle(&mut inputs);
    inputs.truncate(ctx.pick(260usize, 892));
    for i in 0..ctx.pick(150u64, 600) {
        let set = gen::random_set(seed, 1101, i, &GenOpts { modules: (1, 3), assigns: (2, 10), ..GenOpts::default() });
        inputs.push((format!("G#{i}"), set.render().text));
    }
    let inputs = Arc::new(inputs);
    let cfg = Cfg::default_cfg();
    // single-threaded reference (this thread)
    let reference: Vec<Key> = inputs.iter().map(|(_, s)| key_of(&[s.clone()], &cfg)).collect();
    rep.evaluations += reference.len() as u64;
    rep.count("reference_compilations", reference.len() as u64);
    for r in &reference {
        rep.count(&format!("corpus_and_g_reference[{}]", r.status), 1);
    }
    let reference = Arc::new(reference);
    // histories: same thread, after h other compilations
    {
        let mut rng = Rng::for_case(seed, 112, 0);
        for (i, (name, s)) in inputs.iter().enumerate() {
            let h = 1 + rng.below(3);
            for _ in 0..h {
                let j = rng.below(inputs.len());
                let _ = key_of(&[inputs[j].1.clone()], &cfg);
            }
            let k2 = key_of(&[s.clone()], &cfg);
            rep.evaluations += 1 + h as u64;
            rep.count("compared[history]", 1);
            rep.nontrivial.insert(hash_str(&format!("history|{name}|{h}")));
            if let Some(d) = diff_kind(&reference[i], &k2) {
                rep.violations.push(Violation {
                    sig: format!("c11|history|{d}"),
                    what: format!("{name} compiled after {h} other compilations on the same thread: {d}: {}", first_diff(&reference[i].generated, &k2.generated)),
                    replay: json!({"input": name, "history_len": h, "seed": seed}),
                });
            }
        }
    }
    // schedules: T threads, each compiling the whole list in its own shuffled order
    for t in [2usize, 4, 8, 16] {
        let results: Vec<Vec<(usize, Option<String>)>> = std::thread::scope(|sc| {
            let mut hs = vec![];
            for ti in 0..t {
                let inputs = inputs.clone();
                let reference = reference.clone();
                let cfg = cfg.clone();
                hs.push(
                    std::thread::Builder::new()
                        .stack_size(256 << 20)
                        .spawn_scoped(sc, move || {
                            let mut order: Vec<usize> = (0..inputs.len()).collect();
                            Rng::for_case(seed, 113, (t * 100 + ti) as u64).shuffle(&mut order);
                            let mut out = vec![];
                            for i in order {
                                let k2 = key_of(&[inputs[i].1.clone()], &cfg);
                                out.push((i, diff_kind(&reference[i], &k2).map(|d| format!("{d}: {}", first_diff(&reference[i].generated, &k2.generated)))));
                            }
                            out
                        })
                        .expect("spawn"),
                );
            }
            hs.into_iter().map(|h| h.join().unwrap_or_default()).collect()
        });
        for (ti, rs) in results.iter().enumerate() {
            for (i, d) in rs {
                rep.evaluations += 1;
                rep.count("compared[threads]", 1);
                rep.nontrivial.insert(hash_str(&format!("threads|{t}|{ti}|{}", inputs[*i].0)));
                if let Some(d) = d {
                    let kind = d.split(':').next().unwrap_or("").to_string();
                    rep.violations.push(Violation {
                        sig: format!("c11|threads|{kind}"),
                        what: format!("{} compiled on thread {ti} of {t} concurrent threads: {d}", inputs[*i].0),
                        replay: json!({"input": inputs[*i].0, "threads": t, "seed": seed}),
                    });
                }
            }
        }
        rep.note("thread_counts", t.to_string());
    }
    if !ctx.quick() || std::env::var("VERIF_C11_TSAN").is_ok() {
        tsan_schedules(ctx, &inputs, &mut rep);
    }
    if !ctx.quick() {
        miri_schedules(ctx, &mut rep);
    }
    rep
}

/// Thorough tier: the concurrent-compilation workload of /verif/miri-c11 (same module pair compiled repeatedly, in both
/// source orders and on 3 threads at once, results compared byte-for-byte inside the program) run under Miri, one thread
/// schedule per seed. Miri reports undefined behaviour and data races of the executions it interprets; a failed
/// assertion inside the driver is a C11 violation under that schedule. Anything else (Miri missing, unsupported
/// operation, build failure) is inconclusive.
fn miri_schedules(ctx: &Ctx, rep: &mut Report) {
    use std::process::{Command, Stdio};
    let dir = format!("{VERIF_DIR}/miri-c11");
    let _ = std::fs::copy(format!("{REPO_DIR}/Cargo.lock"), format!("{dir}/Cargo.lock"));
    let first = (ctx.seed % 1000) * 16;
    let seeds = format!("{}..{}", first, first + 16);
    // Miri's isolation keeps CARGO / CARGO_HOME away from the program, so the compiler finds no rustfmt to spawn
    let out = Command::new("cargo")
        .args(["+nightly", "miri", "run", "--offline", "--quiet", "--", "3"])
        .current_dir(&dir)
        .env("CARGO_NET_OFFLINE", "true")
        .env("MIRIFLAGS", format!("-Zmiri-many-seeds={seeds}"))
        .stdin(Stdio::null())
        .stdout(Stdio::piped())
        .stderr(Stdio::piped())
        .output();
    let out = match out {
        Ok(o) => o,
        Err(e) => {
            rep.inconclusive.push(format!("miri: cannot run cargo: {e}"));
            return;
        }
    };
    let stdout = String::from_utf8_lossy(&out.stdout).to_string();
    let stderr = String::from_utf8_lossy(&out.stderr).to_string();
    let ok_runs = stdout.matches("MIRI-C11 ok").count() as u64;
    rep.count("miri_schedules_explored(ok)", ok_runs);
    rep.evaluations += ok_runs;
    rep.extra.insert("miri_seeds".into(), json!(seeds));
    for k in 0..ok_runs {
        rep.nontrivial.insert(hash_str(&format!("miri-seed-{}", first + k)));
    }
    let ub = stderr.contains("Undefined Behavior") || stderr.contains("Data race detected");
    let assertion = stderr.contains("C11: ");
    if ub || assertion {
        let line = stderr.lines().find(|l| l.contains("Undefined Behavior") || l.contains("Data race") || l.contains("C11: ")).unwrap_or("").to_string();
        rep.violations.push(Violation {
            sig: format!("c11|miri|{}", if assertion { "result-differs-under-schedule" } else { "undefined-behaviour-or-data-race" }),
            what: format!("Miri (seeds {seeds}): {}", one_line(&line, 300)),
            replay: json!({"miri_seeds": seeds, "stderr": one_line(&stderr, 4000)}),
        });
    } else if !out.status.success() || ok_runs == 0 {
        rep.inconclusive.push(format!("miri run did not complete ({} ok runs): {}", ok_runs, one_line(&stderr, 400)));
    }
}

const TSAN_DRIVER: &str = include_str!("c11tsan_driver.rs.in");

/// Thorough tier: the compiler built with ThreadSanitizer (nightly, -Zsanitizer=thread, std rebuilt with the same flag so
/// that every synchronisation the program uses is seen) compiles the corpus / grammar inputs on 16 threads at once, twice:
/// without rustfmt, and (fewer inputs, 4 threads) with rustfmt reachable so that the helper thread feeding rustfmt's stdin
/// runs inside the observed executions. Oracles: the sanitizer's data-race reports (deduplicated by the first frame inside
/// the compiler) and the driver's own byte comparison with a single-threaded reference. A build or start failure is
/// inconclusive.
fn tsan_schedules(ctx: &Ctx, inputs: &[(String, String)], rep: &mut Report) {
    use std::process::{Command, Stdio};
    let ws = format!("{VERIF_DIR}/gen-ws/tsan-c11");
    let proj = format!("{ws}/proj");
    let _ = std::fs::create_dir_all(format!("{proj}/src"));
    let manifest = format!("[package]\nname = \"tsan-c11\"\nversion = \"0.0.0\"\nedition = \"2021\"\n\n[workspace]\n\n[dependencies]\nrasn-compiler = {{ path = \"{REPO_DIR}/rasn-compiler\" }}\n\n[profile.dev]\nopt-level = 1\n");
    let write = |p: String, s: &str| {
        if std::fs::read_to_string(&p).ok().as_deref() != Some(s) {
            let _ = std::fs::write(&p, s);
        }
    };
    write(format!("{proj}/Cargo.toml"), &manifest);
    write(format!("{proj}/src/main.rs"), TSAN_DRIVER);
    let _ = std::fs::copy(format!("{REPO_DIR}/Cargo.lock"), format!("{proj}/Cargo.lock"));
    let build = Command::new("cargo")
        .args(["+nightly", "build", "--offline", "-Zbuild-std", "--target", "x86_64-unknown-linux-gnu"])
        .current_dir(&proj)
        .env("CARGO_NET_OFFLINE", "true")
        .env("RUSTFLAGS", "-Zsanitizer=thread")
        .stdin(Stdio::null())
        .stdout(Stdio::null())
        .stderr(Stdio::piped())
        .output();
    match build {
        Ok(o) if o.status.success() => {}
        Ok(o) => {
            rep.inconclusive.push(format!("tsan: build failed: {}", one_line(&String::from_utf8_lossy(&o.stderr).lines().rev().take(5).collect::<Vec<_>>().join(" / "), 400)));
            return;
        }
        Err(e) => {
            rep.inconclusive.push(format!("tsan: cannot run cargo: {e}"));
            return;
        }
    }
    let bin = format!("{proj}/target/x86_64-unknown-linux-gnu/debug/tsan-c11");
    let n_inputs: usize = std::env::var("VERIF_C11_TSAN_INPUTS").ok().and_then(|s| s.parse().ok()).unwrap_or(ctx.pick(120, 500));
    for (mode, threads, take) in [("plain", 16usize, n_inputs), ("rustfmt", 4usize, n_inputs / 8)] {
        let dir = format!("{ws}/inputs-{mode}");
        let _ = std::fs::remove_dir_all(&dir);
        let _ = std::fs::create_dir_all(&dir);
        let mut n = 0;
        for (i, (_, text)) in inputs.iter().filter(|x| x.1.len() <= 30_000).enumerate().take(take) {
            if std::fs::write(format!("{dir}/{i:05}.asn"), text).is_ok() {
                n += 1;
            }
        }
        for old in std::fs::read_dir(&ws).into_iter().flatten().flatten() {
            if old.file_name().to_string_lossy().starts_with(&format!("tsan-{mode}.log")) {
                let _ = std::fs::remove_file(old.path());
            }
        }
        let mut cmd = Command::new(&bin);
        cmd.args([dir.as_str(), &threads.to_string(), "1"]);
        if mode == "rustfmt" {
            cmd.arg("rustfmt");
            // the compiler derives the rustfmt path from CARGO_HOME / CARGO (main() removed both from this process)
            let home = std::env::var("HOME").unwrap_or_else(|_| "/root".into());
            cmd.env("CARGO_HOME", format!("{home}/.cargo"));
        }
        let out = cmd
            .env("TSAN_OPTIONS", format!("halt_on_error=0 exitcode=66 second_deadlock_stack=1 log_path={ws}/tsan-{mode}.log"))
            .stdin(Stdio::null())
            .stdout(Stdio::piped())
            .stderr(Stdio::null())
            .output();
        let out = match out {
            Ok(o) => o,
            Err(e) => {
                rep.inconclusive.push(format!("tsan[{mode}]: cannot start the driver: {e}"));
                continue;
            }
        };
        let stdout = String::from_utf8_lossy(&out.stdout).to_string();
        let done = stdout.lines().find(|l| l.starts_with("TSAN-C11 done")).unwrap_or("").to_string();
        let compared: u64 = done.split_whitespace().find_map(|w| w.strip_prefix("compared=")).and_then(|x| x.parse().ok()).unwrap_or(0);
        rep.count(&format!("tsan_compared[{mode}]"), compared);
        rep.count(&format!("tsan_inputs[{mode}]"), n as u64);
        rep.evaluations += compared;
        rep.nontrivial.insert(hash_str(&format!("tsan|{mode}|{n}|{threads}")));
        for l in stdout.lines().filter(|l| l.starts_with("TSAN-C11 DIFF")).take(20) {
            rep.violations.push(Violation {
                sig: "c11|tsan-threads|bytes differ".into(),
                what: format!("ThreadSanitizer build, {threads} threads ({mode}): result differs from the single-threaded reference: {l}"),
                replay: json!({"mode": mode, "threads": threads, "line": l, "inputs_dir": dir}),
            });
        }
        // sanitizer reports: one block per `WARNING: ThreadSanitizer: <kind>`; key = kind + first frame inside the compiler
        let mut reports = 0u64;
        for f in std::fs::read_dir(&ws).into_iter().flatten().flatten() {
            if !f.file_name().to_string_lossy().starts_with(&format!("tsan-{mode}.log")) {
                continue;
            }
            let text = std::fs::read_to_string(f.path()).unwrap_or_default();
            let mut kind = String::new();
            let mut frame: Option<String> = None;
            let mut block = String::new();
            let mut flush = |kind: &str, frame: &Option<String>, block: &str, rep: &mut Report| {
                if kind.is_empty() {
                    return;
                }
                let fr = frame.clone().unwrap_or_else(|| "outside-the-compiler".into());
                rep.violations.push(Violation {
                    sig: format!("c11|tsan|{kind}|{fr}"),
                    what: format!("ThreadSanitizer ({mode}, {threads} threads): {kind}, first compiler frame `{fr}`"),
                    replay: json!({"mode": mode, "threads": threads, "report": one_line(block, 6000), "inputs_dir": dir}),
                });
            };
            for l in text.lines() {
                if let Some(k) = l.trim().strip_prefix("WARNING: ThreadSanitizer: ") {
                    flush(&kind, &frame, &block, rep);
                    reports += 1;
                    kind = k.split(" (pid").next().unwrap_or(k).trim().to_string();
                    frame = None;
                    block.clear();
                }
                if !kind.is_empty() {
                    block.push_str(l);
                    block.push('\n');
                    if frame.is_none() && l.trim_start().starts_with('#') && l.contains("rasn_compiler::") {
                        let f = l.split("rasn_compiler::").nth(1).unwrap_or("").split_whitespace().next().unwrap_or("");
                        frame = Some(f.split("::h").next().unwrap_or(f).to_string());
                    }
                }
            }
            flush(&kind, &frame, &block, rep);
        }
        rep.count(&format!("tsan_reports[{mode}]"), reports);
        rep.note("tsan_runs", format!("{mode}: threads={threads} inputs={n} compared={compared} reports={reports} exit={:?}", out.status.code()));
        if compared == 0 {
            rep.inconclusive.push(format!("tsan[{mode}]: the driver compared nothing (exit {:?}): {}", out.status.code(), one_line(&stdout, 300)));
        }
    }
}
