//! C16 — generated identifiers are legal and keep the ASN.1 name recoverable.
use crate::comp;
use crate::core::*;
use crate::proj::{self, Kind};
use serde_json::json;

pub const KEYWORDS: &[&str] = &[
    "as", "break", "const", "continue", "crate", "else", "enum", "extern", "false", "fn", "for", "if", "impl", "in", "let", "loop", "match", "mod", "move", "mut", "pub", "ref", "return",
    "self", "static", "struct", "super", "trait", "true", "type", "unsafe", "use", "where", "while", "async", "await", "dyn", "abstract", "become", "box", "do", "final", "macro",
    "override", "priv", "typeof", "unsized", "virtual", "yield", "try", "gen", "union", "auto", "raw", "safe", "default", "macro-rules",
];
const TYPE_SPECIALS: &[&str] = &["Self", "Type", "Box", "Option", "Vec", "String", "Result", "Some", "None", "Ok", "Err", "Default", "Clone", "Debug", "Copy", "A", "Z9", "ALLCAPS", "A-b", "Ab-C-d", "X1-y2-Z3"];

#[derive(Clone, Copy, Debug, PartialEq, Eq, Hash)]
pub enum Role {
    Module,
    Type,
    Component,
    Alternative,
    Enumeral,
    Value,
    NestedComponent,
    /// component and alternative whose type is an anonymous constructed type: the hoisted item is named after them
    HoistParent,
    /// type assignments of the other kinds (CHOICE, ENUMERATED, SEQUENCE OF, a constrained INTEGER)
    TypeChoice,
    TypeEnumerated,
    TypeCollection,
    TypeDelegate,
}
const ROLES: [Role; 12] = [Role::Module, Role::Type, Role::Component, Role::Alternative, Role::Enumeral, Role::Value, Role::NestedComponent, Role::HoistParent, Role::TypeChoice, Role::TypeEnumerated, Role::TypeCollection, Role::TypeDelegate];

fn upper_first(s: &str) -> String {
    let mut c = s.chars();
    match c.next() {
        Some(f) => f.to_ascii_uppercase().to_string() + c.as_str(),
        None => String::new(),
    }
}

fn source(role: Role, name: &str) -> String {
    match role {
        Role::Module => format!("{name} DEFINITIONS AUTOMATIC TAGS ::= BEGIN\nTq1 ::= BOOLEAN\nEND\n"),
        Role::Type => format!("Mq1 DEFINITIONS AUTOMATIC TAGS ::= BEGIN\n{name} ::= SEQUENCE {{ fq1 BOOLEAN DEFAULT TRUE }}\nTq2 ::= SEQUENCE {{ fq2 {name}, fq3 SEQUENCE OF {name} }}\nEND\n"),
        Role::Component => format!("Mq1 DEFINITIONS AUTOMATIC TAGS ::= BEGIN\nTq1 ::= SEQUENCE {{ {name} BOOLEAN, fq2 INTEGER }}\nEND\n"),
        Role::Alternative => format!("Mq1 DEFINITIONS AUTOMATIC TAGS ::= BEGIN\nTq1 ::= CHOICE {{ {name} BOOLEAN, cq2 NULL }}\nEND\n"),
        Role::Enumeral => format!("Mq1 DEFINITIONS AUTOMATIC TAGS ::= BEGIN\nTq1 ::= ENUMERATED {{ {name}, eq2 }}\nTq2 ::= SEQUENCE {{ fq1 Tq1 DEFAULT {name} }}\nEND\n"),
        Role::Value => format!("Mq1 DEFINITIONS AUTOMATIC TAGS ::= BEGIN\n{name} INTEGER ::= 5\nTq1 ::= SEQUENCE {{ fq1 INTEGER DEFAULT {name} }}\nEND\n"),
        Role::NestedComponent => format!("Mq1 DEFINITIONS AUTOMATIC TAGS ::= BEGIN\nTq1 ::= SEQUENCE {{ fq1 SEQUENCE {{ {name} BOOLEAN }}, fq2 CHOICE {{ {name} NULL, cq3 BOOLEAN }} }}\nEND\n"),
        Role::TypeChoice => format!("Mq1 DEFINITIONS AUTOMATIC TAGS ::= BEGIN\n{name} ::= CHOICE {{ cq1 BOOLEAN, cq2 NULL }}\nTq2 ::= SEQUENCE {{ fq2 {name} }}\nEND\n"),
        Role::TypeEnumerated => format!("Mq1 DEFINITIONS AUTOMATIC TAGS ::= BEGIN\n{name} ::= ENUMERATED {{ eq1, eq2 }}\nTq2 ::= SEQUENCE {{ fq2 {name} }}\nEND\n"),
        // the element type is anonymous and constrained, so it is hoisted into an item named after the collection
        Role::TypeCollection => format!("Mq1 DEFINITIONS AUTOMATIC TAGS ::= BEGIN\n{name} ::= SEQUENCE OF INTEGER (0..5)\nTq2 ::= SEQUENCE {{ fq2 {name} }}\nEND\n"),
        Role::TypeDelegate => format!("Mq1 DEFINITIONS AUTOMATIC TAGS ::= BEGIN\n{name} ::= INTEGER (0..7)\nTq2 ::= SEQUENCE {{ fq2 {name} }}\nEND\n"),
        Role::HoistParent => format!("Mq1 DEFINITIONS AUTOMATIC TAGS ::= BEGIN\nTq1 ::= SEQUENCE {{ {name} SEQUENCE {{ fq8 BOOLEAN }}, fq2 INTEGER }}\nTq2 ::= CHOICE {{ {name} SET {{ fq9 NULL }}, cq3 BOOLEAN }}\nEND\n"),
    }
}

fn norm(s: &str) -> String {
    s.chars().filter(|c| *c != '_' && *c != '-').flat_map(|c| c.to_lowercase()).collect()
}

fn related(rust: &str, asn: &str) -> bool {
    let (r, a) = (norm(rust), norm(asn));
    r == a || r == format!("r{a}")
}

fn is_rust_keyword(id: &str) -> bool {
    const STRICT: &[&str] = &[
        "as", "break", "const", "continue", "crate", "else", "enum", "extern", "false", "fn", "for", "if", "impl", "in", "let", "loop", "match", "mod", "move", "mut", "pub", "ref", "return", "self",
        "Self", "static", "struct", "super", "trait", "true", "type", "unsafe", "use", "where", "while", "async", "await", "dyn", "abstract", "become", "box", "do", "final", "macro", "override",
        "priv", "typeof", "unsized", "virtual", "yield", "try",
    ];
    // edition 2021: `gen` (reserved from edition 2024 on) and the weak keywords are ordinary identifiers
    STRICT.contains(&id)
}

fn legal_ident(id: &str) -> bool {
    let id = id.strip_prefix("r#").unwrap_or(id);
    let mut ch = id.chars();
    match ch.next() {
        Some(c) if c == '_' || c.is_alphabetic() => {}
        _ => return false,
    }
    ch.all(|c| c == '_' || c.is_alphanumeric()) && id != "_"
}

struct Found {
    ident: String,
    annotation: Option<String>,
    annotated_role: bool,
}

fn judge(role: Role, name: &str, generated: &str) -> Result<Vec<(String, String)>, String> {
    let mut out = vec![];
    let mods = match proj::project(generated) {
        Ok(m) => m,
        Err(e) => {
            out.push(("output-not-parsable".to_string(), format!("generated text is not Rust: {e}")));
            return Ok(out);
        }
    };
    // every identifier of the output must be a legal non-keyword identifier
    for m in &mods {
        let mut ids: Vec<String> = vec![m.name.clone()];
        for it in &m.items {
            match &it.kind {
                Kind::Struct { fields, tuple } => {
                    ids.push(it.name.clone());
                    if !*tuple {
                        ids.extend(fields.iter().map(|f| f.name.clone()));
                    }
                }
                Kind::Enum { variants } => {
                    ids.push(it.name.clone());
                    ids.extend(variants.iter().map(|v| v.name.clone()));
                }
                Kind::Const { .. } | Kind::Fn { .. } => ids.push(it.name.clone()),
                _ => {}
            }
        }
        for id in ids {
            if !legal_ident(&id) || is_rust_keyword(&id) || id.contains('-') {
                out.push(("illegal-identifier".into(), format!("`{id}` in the output is not a legal non-keyword identifier")));
            }
        }
    }
    // hoisted helper types (`Anonymous..`, `Inner..`) are referred to by the identifier they are defined with
    for m in &mods {
        let defined: std::collections::BTreeSet<&str> = m.items.iter().filter(|i| matches!(i.kind, Kind::Struct { .. } | Kind::Enum { .. })).map(|i| i.name.as_str()).collect();
        for it in &m.items {
            let tys: Vec<&str> = match &it.kind {
                Kind::Struct { fields, .. } => fields.iter().map(|f| f.ty.as_str()).collect(),
                Kind::Enum { variants } => variants.iter().flat_map(|v| v.payload.iter().map(|p| p.as_str())).collect(),
                _ => vec![],
            };
            for t in tys {
                for w in t.split(|c: char| !(c.is_alphanumeric() || c == '_')).filter(|w| w.starts_with("Anonymous") || w.starts_with("Inner")) {
                    if !defined.contains(w) {
                        out.push(("hoisted-type-reference-undefined".into(), format!("`{}` mentions the hoisted type `{w}`, which is not defined (defined: {:?})", it.name, defined.iter().filter(|d| d.starts_with("Anonymous") || d.starts_with("Inner")).collect::<Vec<_>>())));
                    }
                }
            }
        }
    }
    // helper functions are referred to by the identifier they are defined with: every `.._default` function named in a
    // `default = ".."` annotation or called by an `impl Default` must exist
    for m in &mods {
        let fns: std::collections::BTreeSet<&str> = m.items.iter().filter(|i| matches!(i.kind, Kind::Fn { .. })).map(|i| i.name.as_str()).collect();
        for it in &m.items {
            let mut named: Vec<String> = vec![];
            match &it.kind {
                Kind::Struct { fields, .. } => named.extend(fields.iter().filter_map(|f| f.attrs.kv("default").map(|s| s.to_string()))),
                Kind::Impl { trait_: Some(t), .. } if t.ends_with("Default") => {
                    let toks: Vec<&str> = it.text.split(|c: char| !(c.is_alphanumeric() || c == '_')).filter(|w| w.ends_with("_default")).collect();
                    named.extend(toks.into_iter().map(|s| s.to_string()));
                }
                _ => {}
            }
            for n in named {
                if !fns.contains(n.as_str()) {
                    out.push(("reference-spelled-differently".into(), format!("`{}` names the default function `{n}`, no such function is defined (defined: {:?})", it.name, fns)));
                }
            }
        }
    }
    let m = mods.first().ok_or("no module")?;
    let found: Vec<Found> = match role {
        Role::Module => vec![Found { ident: m.name.clone(), annotation: None, annotated_role: false }],
        Role::Type => {
            // the struct with field fq1
            let it = m.items.iter().find(|i| matches!(&i.kind, Kind::Struct { fields, tuple: false } if fields.iter().any(|f| f.name == "fq1"))).ok_or("type item not found")?;
            // references must use the same identifier
            if let Some(t2) = m.find("Tq2") {
                if let Kind::Struct { fields, .. } = &t2.kind {
                    let f2 = fields.iter().find(|f| f.name == "fq2").map(|f| f.ty.clone()).unwrap_or_default();
                    let f3 = fields.iter().find(|f| f.name == "fq3").map(|f| f.ty.clone()).unwrap_or_default();
                    if f2 != it.name || f3 != format!("SequenceOf<{}>", it.name) {
                        out.push(("reference-spelled-differently".into(), format!("type `{}` is referenced as `{f2}` / `{f3}`", it.name)));
                    }
                }
            }
            vec![Found { ident: it.name.clone(), annotation: it.attrs.kv("identifier").map(|s| s.to_string()), annotated_role: true }]
        }
        Role::TypeChoice | Role::TypeEnumerated | Role::TypeCollection | Role::TypeDelegate => {
            // the one struct/enum item that is neither Tq2 nor a hoisted helper (Anonymous*/Inner*)
            let it = m
                .items
                .iter()
                .find(|i| matches!(i.kind, Kind::Struct { .. } | Kind::Enum { .. }) && i.name != "Tq2" && !i.name.starts_with("Anonymous") && !i.name.starts_with("Inner"))
                .ok_or("type item not found")?;
            if let Some(t2) = m.find("Tq2") {
                if let Kind::Struct { fields, .. } = &t2.kind {
                    let f2 = fields.iter().find(|f| f.name == "fq2").map(|f| f.ty.clone()).unwrap_or_default();
                    if f2 != it.name {
                        out.push(("reference-spelled-differently".into(), format!("type `{}` is referenced as `{f2}`", it.name)));
                    }
                }
            }
            vec![Found { ident: it.name.clone(), annotation: it.attrs.kv("identifier").map(|s| s.to_string()), annotated_role: true }]
        }
        Role::Component => {
            let it = m.find("Tq1").ok_or("Tq1 missing")?;
            let Kind::Struct { fields, .. } = &it.kind else { return Err("Tq1 not a struct".into()) };
            let f = fields.first().ok_or("no fields")?;
            vec![Found { ident: f.name.clone(), annotation: f.attrs.kv("identifier").map(|s| s.to_string()), annotated_role: true }]
        }
        Role::Alternative | Role::Enumeral => {
            let it = m.find("Tq1").ok_or("Tq1 missing")?;
            let Kind::Enum { variants } = &it.kind else { return Err("Tq1 not an enum".into()) };
            let v = variants.first().ok_or("no variants")?;
            vec![Found { ident: v.name.clone(), annotation: v.attrs.kv("identifier").map(|s| s.to_string()), annotated_role: true }]
        }
        Role::Value => {
            let it = m.items.iter().find(|i| matches!(i.kind, Kind::Const { .. })).ok_or("constant not found")?;
            vec![Found { ident: it.name.clone(), annotation: None, annotated_role: false }]
        }
        Role::HoistParent => {
            // the hoisted items must be referenced by the identifier they are defined with
            let t1 = m.find("Tq1").ok_or("Tq1 missing")?;
            let t2 = m.find("Tq2").ok_or("Tq2 missing")?;
            let Kind::Struct { fields, .. } = &t1.kind else { return Err("Tq1 not a struct".into()) };
            let Kind::Enum { variants } = &t2.kind else { return Err("Tq2 not an enum".into()) };
            let f = fields.first().ok_or("no fields")?;
            let v = variants.first().ok_or("no variants")?;
            let payload = v.payload.first().cloned().unwrap_or_default();
            for (what, ty) in [("component", f.ty.clone()), ("alternative", payload)] {
                let defined = m.items.iter().any(|i| matches!(i.kind, Kind::Struct { .. }) && i.name == ty);
                if !defined {
                    out.push(("reference-spelled-differently".into(), format!("the anonymous type of {what} `{name}` is referenced as `{ty}`, no such item is defined")));
                }
            }
            vec![
                Found { ident: f.name.clone(), annotation: f.attrs.kv("identifier").map(|s| s.to_string()), annotated_role: true },
                Found { ident: v.name.clone(), annotation: v.attrs.kv("identifier").map(|s| s.to_string()), annotated_role: true },
            ]
        }
        Role::NestedComponent => {
            let mut v = vec![];
            for it in &m.items {
                match &it.kind {
                    Kind::Struct { fields, tuple: false } if it.name != "Tq1" => {
                        if let Some(f) = fields.first() {
                            v.push(Found { ident: f.name.clone(), annotation: f.attrs.kv("identifier").map(|s| s.to_string()), annotated_role: true });
                        }
                    }
                    Kind::Enum { variants } => {
                        if let Some(x) = variants.first() {
                            v.push(Found { ident: x.name.clone(), annotation: x.attrs.kv("identifier").map(|s| s.to_string()), annotated_role: true });
                        }
                    }
                    _ => {}
                }
            }
            if v.len() != 2 {
                return Err(format!("expected two nested items, found {}", v.len()));
            }
            v
        }
    };
    for f in found {
        let id = f.ident.strip_prefix("r#").unwrap_or(&f.ident);
        // documented case rules
        let case_ok = match role {
            Role::Type | Role::TypeChoice | Role::TypeEnumerated | Role::TypeCollection | Role::TypeDelegate => id.starts_with(|c: char| c.is_uppercase()) && !id.trim_start_matches("R_").contains('_'),
            Role::Component | Role::Module => !id.chars().any(|c| c.is_uppercase()),
            Role::NestedComponent | Role::HoistParent => true,
            Role::Value => !id.chars().any(|c| c.is_lowercase()),
            Role::Alternative | Role::Enumeral => true,
        };
        if !case_ok {
            out.push(("case-rule".into(), format!("{role:?} `{name}` became `{id}`")));
        }
        if !related(id, name) {
            out.push(("not-derived-from-name".into(), format!("{role:?} `{name}` became `{id}`")));
        }
        if f.annotated_role {
            match (&f.annotation, id == name) {
                (None, false) => out.push(("identifier-annotation-missing".into(), format!("{role:?} `{name}` became `{id}` without identifier = \"{name}\""))),
                (Some(a), _) if a != name => out.push(("identifier-annotation-wrong".into(), format!("{role:?} `{name}` became `{id}` with identifier = \"{a}\""))),
                _ => {}
            }
        }
    }
    Ok(out)
}

fn random_name(rng: &mut Rng, upper: bool) -> String {
    let len = 1 + rng.below(24);
    let mut s = String::new();
    let letters = b"abcdefghijklmnopqrstuvwxyzABCDEFGHIJKLMNOPQRSTUVWXYZ";
    let first = letters[rng.below(26)] as char;
    s.push(if upper { first.to_ascii_uppercase() } else { first });
    while s.len() < len {
        let last_hyphen = s.ends_with('-');
        match rng.below(10) {
            0 | 1 if !last_hyphen && s.len() + 1 < len => s.push('-'),
            2 | 3 => s.push((b'0' + rng.below(10) as u8) as char),
            4 | 5 => s.push((b'A' + rng.below(26) as u8) as char),
            _ => s.push(letters[rng.below(26)] as char),
        }
    }
    if s.ends_with('-') {
        s.push('x');
    }
    s
}

fn check(role: Role, name: &str, rep: &mut Report) {
    let src = source(role, name);
    let run = comp::rasn1(&src);
    rep.evaluations += 1;
    match &run.out {
        comp::Outcome::Ok { generated, warnings } if warnings.is_empty() => {
            rep.count(&format!("names_judged[{role:?}]"), 1);
            rep.count("names_judged", 1);
            rep.nontrivial.insert(hash_str(&format!("{role:?}|{name}")));
            if is_rust_keyword(name) {
                rep.count("keyword_names_judged", 1);
            }
            match judge(role, name, generated) {
                Ok(ds) => {
                    if rep.samples.len() < 5 && rep.evaluations % 1777 == 9 {
                        rep.sample(json!({"role": format!("{role:?}"), "asn1_name": name, "input": src}));
                    }
                    let mut seen = std::collections::BTreeSet::new();
                    for (kind, detail) in ds {
                        if !seen.insert(kind.clone()) {
                            continue;
                        }
                        let class = if KEYWORDS.contains(&name) || name == "Self" { "keyword" } else if name.contains('-') { "hyphenated" } else { "plain" };
                        rep.violations.push(Violation { sig: format!("c16|{kind}|{role:?}|{class}"), what: detail, replay: json!({"role": format!("{role:?}"), "name": name, "input": src, "generated": generated}) });
                    }
                }
                Err(e) => rep.inconclusive.push(format!("{role:?} `{name}`: {e}")),
            }
        }
        o => {
            rep.count(&format!("not_compiled_cleanly[{}]", o.status()), 1);
        }
    }
}

/// Two hoisted anonymous members whose (parent, member) names concatenate to the same letters but split differently
/// (`Sub`.`scription` / `Subscript`.`ion`): by the documented case rules the hoisted items are `SubScription` and
/// `SubscriptIon`. Judged three ways on one thread: both parents in one module, in two modules of one compilation, and in
/// two successive compilations (state that survives a definition, a module, a compilation).
fn hoist_collisions(seed: u64, range: std::ops::Range<u64>, rep: &mut Report) {
    let title = |w: &str| -> String {
        let mut c = w.chars();
        c.next().map(|f| f.to_ascii_uppercase().to_string() + c.as_str()).unwrap_or_default()
    };
    for i in range {
        let mut rng = Rng::for_case(seed, 1616, i);
        let len = 4 + rng.below(8);
        let word: String = (0..len).map(|_| (b'a' + rng.below(26) as u8) as char).collect();
        let a = 1 + rng.below(len - 2);
        let mut b = 1 + rng.below(len - 2);
        if b == a {
            b = if a + 1 < len - 1 { a + 1 } else { a - 1 };
        }
        if b == 0 || b >= len {
            continue;
        }
        let pairs = [(title(&word[..a]), word[a..].to_string()), (title(&word[..b]), word[b..].to_string())];
        if is_rust_keyword(&pairs[0].1) || is_rust_keyword(&pairs[1].1) {
            continue;
        }
        let def = |k: usize| format!("{} ::= SEQUENCE {{ {} {} {{ inner{k} NULL }}, other{k} BOOLEAN }}\n", pairs[k].0, pairs[k].1, if (i + k as u64) % 2 == 0 { "SEQUENCE" } else { "CHOICE" });
        let header = |m: &str| format!("{m} DEFINITIONS AUTOMATIC TAGS ::= BEGIN\n");
        let layouts: [(&str, Vec<Vec<String>>); 3] = [
            ("one-module", vec![vec![format!("{}{}{}END\n", header("Mq1"), def(0), def(1))]]),
            ("two-modules", vec![vec![format!("{}{}END\n", header("Mq1"), def(0)), format!("{}{}END\n", header("Mq2"), def(1))]]),
            ("two-compilations", vec![vec![format!("{}{}END\n", header("Mq1"), def(0))], vec![format!("{}{}END\n", header("Mq1"), def(1))]]),
        ];
        for (layout, compilations) in layouts {
            let mut found: Vec<(usize, String, bool)> = vec![]; // (pair, field type, defined)
            let mut clean = true;
            let mut first_pair = 0usize;
            for srcs in &compilations {
                let run = comp::rasn(srcs, &comp::Cfg::default_cfg());
                rep.evaluations += 1;
                let comp::Outcome::Ok { generated, warnings } = &run.out else {
                    clean = false;
                    break;
                };
                if !warnings.is_empty() {
                    clean = false;
                    break;
                }
                let Ok(mods) = proj::project(generated) else {
                    clean = false;
                    break;
                };
                let npairs = if layout == "two-compilations" { 1 } else { 2 };
                for k in first_pair..first_pair + npairs {
                    for m in &mods {
                        if let Some(it) = m.find(&pairs[k].0) {
                            if let Kind::Struct { fields, .. } = &it.kind {
                                if let Some(f) = fields.first() {
                                    let defined = m.items.iter().any(|x| x.name == f.ty && matches!(x.kind, Kind::Struct { .. } | Kind::Enum { .. }));
                                    found.push((k, f.ty.clone(), defined));
                                }
                            }
                        }
                    }
                }
                first_pair += npairs;
            }
            if !clean {
                rep.count("hoist_collision_cases[not compiled cleanly]", 1);
                continue;
            }
            rep.count(&format!("hoist_collision_cases_judged[{layout}]"), 1);
            rep.nontrivial.insert(hash_str(&format!("{layout}|{word}|{a}|{b}")));
            if found.len() != 2 {
                rep.inconclusive.push(format!("hoist collisions: parent structs not found for {pairs:?} ({layout})"));
                continue;
            }
            for (k, ty, defined) in found {
                let want = format!("{}{}", pairs[k].0, title(&pairs[k].1));
                if ty != want || !defined {
                    rep.violations.push(Violation {
                        sig: format!("c16|hoisted-name-not-derived-from-its-own-names|{layout}"),
                        what: format!("the anonymous type of component `{}` of `{}` must be hoisted as `{want}`; the field has type `{ty}` (defined: {defined}) - other parent in the same run: `{}`.`{}` [{layout}]", pairs[k].1, pairs[k].0, pairs[1 - k].0, pairs[1 - k].1),
                        replay: json!({"family": "hoist-collision", "seed": seed, "index": i, "layout": layout, "pairs": [[pairs[0].0, pairs[0].1], [pairs[1].0, pairs[1].1]], "compilations": compilations}),
                    });
                }
            }
        }
    }
}

pub fn run(ctx: &Ctx) -> Report {
    let mut rep = Report::new(
        "exploration",
        "one hostile name per tiny module, in each role {module, type (with two references), SEQUENCE component, CHOICE alternative, enumeral (with a DEFAULT use), value (with a DEFAULT use), component/alternative of an anonymous nested type}. EXHAUSTIVE: every Rust strict / reserved / weak keyword (58, incl. Self in the type role, try, gen, union, auto, raw, safe, default, macro-rules) in every role whose spelling rules admit it, plus special type names (Self, Box, Option, String, ...); seeded random legal ASN.1 identifiers up to 24 characters (letters, digits, single hyphens, case changes next to digits, all-caps runs). Oracle: the output parses (syn) and every identifier in it is a legal non-keyword identifier; documented case rule per role; the Rust identifier normalises (drop _ and -, lower-case, optional r_ escape) to the ASN.1 name; if it differs from the ASN.1 name the item/field/variant carries identifier = \"<exact ASN.1 spelling>\"; references to a renamed type use the same identifier. Non-trivial = warning-free Ok compilation judged; distinct by (role, name).",
    );
    rep.must_observe = vec!["names_judged".into(), "keyword_names_judged".into(), "names_judged[Enumeral]".into(), "names_judged[Type]".into()];
    rep.assumptions = vec!["normalisation relation of DESIGN §4 C16; rustc as final authority on legality is exercised by C01's batches, not here".into()];
    let mut cases: Vec<(Role, String)> = vec![];
    if let Some(path) = &ctx.replay {
        let doc: serde_json::Value = serde_json::from_str(&std::fs::read_to_string(path).expect("replay")).expect("json");
        let c = &doc["case"];
        if c["family"].as_str() == Some("hoist-collision") {
            let i = c["index"].as_u64().unwrap_or(0);
            hoist_collisions(c["seed"].as_u64().unwrap_or(1), i..i + 1, &mut rep);
            return rep;
        }
        let role = ROLES.iter().find(|r| format!("{r:?}") == c["role"].as_str().unwrap_or("")).copied().unwrap_or(Role::Component);
        check(role, c["name"].as_str().unwrap_or("x"), &mut rep);
        return rep;
    }
    for role in ROLES {
        for k in KEYWORDS {
            let n = match role {
                Role::Module | Role::Type | Role::TypeChoice | Role::TypeEnumerated | Role::TypeCollection | Role::TypeDelegate => upper_first(k),
                _ => k.to_string(),
            };
            cases.push((role, n));
        }
        if matches!(role, Role::Type | Role::Module | Role::TypeChoice | Role::TypeEnumerated | Role::TypeCollection | Role::TypeDelegate) {
            for t in TYPE_SPECIALS {
                cases.push((role, t.to_string()));
            }
        }
    }
    rep.exhaustive = Some(true);
    rep.extra.insert("exhaustive_keyword_role_cases".into(), json!(cases.len()));
    let nrand = ctx.pick(100_000u64, 1_000_000);
    for i in 0..nrand {
        let mut rng = Rng::for_case(ctx.seed, 16, i);
        let role = ROLES[rng.below(ROLES.len())];
        let upper = matches!(role, Role::Module | Role::Type | Role::TypeChoice | Role::TypeEnumerated | Role::TypeCollection | Role::TypeDelegate);
        cases.push((role, random_name(&mut rng, upper)));
    }
    let acc = Acc::new(rep);
    let chunks: Vec<&[(Role, String)]> = cases.chunks(64).collect();
    par_for(chunks.len() as u64, |i| {
        let mut local = Report::default();
        for (r, n) in chunks[i as usize] {
            check(*r, n, &mut local);
        }
        acc.with(|r| r.merge(local));
    });
    let mut rep = acc.into_inner();
    // sequential on this thread: the family is about state that survives an earlier definition / module / compilation
    hoist_collisions(ctx.seed, 0..ctx.pick(400u64, 6000), &mut rep);
    rep
}
