//! Reference-model monitors over the O1 projection: C02 (shape), C03 (tags), C05 (extensibility).
use crate::gen::*;
use crate::iv::rust_int_range;
use crate::proj::{self, Attrs, Item, Kind, Module};
use std::collections::{BTreeMap, BTreeSet};

#[derive(Clone, Debug)]
pub struct Disc {
    pub prop: &'static str,
    pub kind: String,
    /// coarse, spec-side feature key for the signature
    pub key: String,
    pub detail: String,
}

pub struct Oracle<'a> {
    pub set: &'a ModuleSet,
    pub env: BTreeMap<String, (usize, Ty)>,
    pub mods: &'a [Module],
    /// reachability over the model's type reference graph: name -> all names reachable (>= 1 step)
    reach: BTreeMap<String, BTreeSet<String>>,
    pub out: Vec<Disc>,
    pub counters: BTreeMap<&'static str, u64>,
}

pub fn rust_mod_name(asn: &str) -> String {
    asn.to_lowercase().replace('-', "_")
}

fn refs_in(t: &Ty, out: &mut BTreeSet<String>) {
    match &t.kind {
        TyKind::Ref { name, .. } => {
            out.insert(name.clone());
        }
        TyKind::Sequence(s) | TyKind::Set(s) | TyKind::Choice(s) => {
            for c in all_comps(s) {
                refs_in(&c.ty, out);
            }
        }
        TyKind::SeqOf(e) | TyKind::SetOf(e) => refs_in(e, out),
        _ => {}
    }
}

pub fn all_comps(s: &Struct) -> Vec<&Comp> {
    let mut v: Vec<&Comp> = s.root.iter().collect();
    if let Some(adds) = &s.ext {
        for a in adds {
            match a {
                Addition::Comp(c) => v.push(c),
                Addition::Group { comps, .. } => v.extend(comps.iter()),
            }
        }
    }
    v.extend(s.root2.iter());
    v
}

fn strip<'b>(tok: &'b str, prefix: &str) -> Option<&'b str> {
    tok.strip_prefix(prefix).and_then(|t| t.strip_suffix('>'))
}

#[derive(Clone, Copy, PartialEq, Eq, Debug)]
pub enum Pos {
    Assignment,
    Component,
    Alternative,
    NestedComponent,
    NestedAlternative,
    Element,
}
impl Pos {
    fn name(&self) -> &'static str {
        match self {
            Pos::Assignment => "type-assignment",
            Pos::Component => "component",
            Pos::Alternative => "alternative",
            Pos::NestedComponent => "nested-component",
            Pos::NestedAlternative => "nested-alternative",
            Pos::Element => "element",
        }
    }
}

fn kind_class(t: &Ty, env: &BTreeMap<String, (usize, Ty)>) -> &'static str {
    match &t.kind {
        TyKind::Choice(_) => "inline-choice",
        TyKind::Any => "open-type",
        TyKind::ClassField { .. } => "class-field",
        TyKind::Sequence(_) | TyKind::Set(_) => "inline-constructed",
        TyKind::SeqOf(_) | TyKind::SetOf(_) => "inline-collection",
        TyKind::Ref { .. } => match resolve(env, t) {
            Some(r) => match r.kind {
                TyKind::Choice(_) => "referenced-choice",
                TyKind::Sequence(_) | TyKind::Set(_) => "referenced-constructed",
                TyKind::Any => "referenced-open-type",
                _ => "referenced-other",
            },
            None => "dangling-ref",
        },
        _ => "primitive",
    }
}

impl<'a> Oracle<'a> {
    pub fn new(set: &'a ModuleSet, mods: &'a [Module]) -> Self {
        let env = set.type_env();
        let mut direct: BTreeMap<String, BTreeSet<String>> = BTreeMap::new();
        for (n, (_, t)) in &env {
            let mut r = BTreeSet::new();
            refs_in(t, &mut r);
            direct.insert(n.clone(), r);
        }
        let mut reach = BTreeMap::new();
        for n in direct.keys() {
            let mut seen = BTreeSet::new();
            let mut stack: Vec<String> = direct[n].iter().cloned().collect();
            while let Some(x) = stack.pop() {
                if seen.insert(x.clone()) {
                    if let Some(d) = direct.get(&x) {
                        stack.extend(d.iter().cloned());
                    }
                }
            }
            reach.insert(n.clone(), seen);
        }
        Oracle { set, env, mods, reach, out: vec![], counters: BTreeMap::new() }
    }

    fn bump(&mut self, k: &'static str) {
        *self.counters.entry(k).or_insert(0) += 1;
    }
    fn disc(&mut self, prop: &'static str, kind: &str, key: String, detail: String) {
        self.out.push(Disc { prop, kind: kind.to_string(), key, detail });
    }

    fn rmod(&self, mi: usize) -> Option<&'a Module> {
        let n = rust_mod_name(&self.set.modules[mi].name);
        self.mods.iter().find(|m| m.name == n)
    }

    /// is the (possibly tagged) type an untagged CHOICE / open type after following references?
    fn choice_like(&self, t: &Ty) -> bool {
        if t.tag.is_some() {
            return false;
        }
        match &t.kind {
            TyKind::Choice(_) | TyKind::Any => true,
            TyKind::Ref { name, .. } => self.env.get(name).is_some_and(|(_, rt)| self.choice_like(rt)),
            _ => false,
        }
    }

    /// is the (possibly tagged) type an untagged open type after following references?
    fn open_type_like(&self, t: &Ty) -> bool {
        if t.tag.is_some() {
            return false;
        }
        match &t.kind {
            TyKind::Any => true,
            TyKind::Ref { name, .. } => self.env.get(name).is_some_and(|(_, rt)| self.open_type_like(rt)),
            _ => false,
        }
    }

    // ------------------------------------------------------------------ C03
    fn check_tag(&mut self, got: Option<proj::Tag>, ty: &Ty, mi: usize, pos: Pos, what: &str) {
        let tagging = self.set.modules[mi].tagging;
        let mut inner = ty.clone();
        inner.tag = None;
        let kc = kind_class(&inner, &self.env);
        match (&ty.tag, got) {
            (None, None) => {}
            (None, Some(g)) => {
                self.bump("tags_compared");
                self.disc("C03", "unexpected-tag", format!("default={tagging:?},pos={},kind={kc}", pos.name()), format!("{what}: tag({},{}) emitted but the source has none", g.class, g.num));
            }
            (Some(t), None) => {
                self.bump("tags_compared");
                self.disc(
                    "C03",
                    "tag-missing",
                    if pos == Pos::Element { "pos=element".to_string() } else { format!("default={tagging:?},kw={:?},class={:?},pos={},kind={kc}", t.mode, t.class, pos.name()) },
                    format!("{what}: source tag [{} {}] not applied", t.class.kw(), t.num),
                );
            }
            (Some(t), Some(g)) => {
                self.bump("tags_compared");
                if g.class != t.class.rust() || g.num != t.num.to_string() {
                    self.disc(
                        "C03",
                        "tag-class-or-number",
                        format!("class={:?},pos={}", t.class, pos.name()),
                        format!("{what}: source [{} {}] but emitted tag({}, {})", t.class.kw(), t.num, g.class, g.num),
                    );
                }
                let choice_like = self.choice_like(&inner);
                let expect_explicit = t.mode == TagMode::Explicit || (t.mode == TagMode::NoKeyword && matches!(tagging, Tagging::Explicit | Tagging::None)) || choice_like;
                // rasn applies explicit tagging to CHOICE types on its own: on a component/alternative/element the marking is not observable
                // (decided by the DER-level monitor only); the same holds for a delegate newtype around a referenced CHOICE / open type.
                // Only a tag written on an inline CHOICE type assignment is judged at attribute level.
                // An open type is different: rasn's `Any` carries no tag of its own and an implicit tag on it is simply dropped on
                // the wire (`#[rasn(delegate, tag(context, 5))] struct A(Any)` encodes `02 01 05` as `02 01 05`, with
                // `tag(explicit(context, 5))` as `a5 03 02 01 05`; measured against rasn 0.27), so the marking is what decides.
                let observable = self.open_type_like(&inner) || !(choice_like && (pos != Pos::Assignment || !matches!(inner.kind, TyKind::Choice(_))));
                if observable {
                    self.bump("tag_modes_compared");
                    if g.explicit != expect_explicit {
                        self.disc(
                            "C03",
                            if expect_explicit { "implicit-expected-explicit" } else { "explicit-expected-implicit" },
                            // one defect, one signature: a module without TAGS clause is EXPLICIT by X.680 13.2
                            if tagging == Tagging::None && t.mode == TagMode::NoKeyword && expect_explicit { "default=None,kw=NoKeyword".to_string() } else { format!("default={tagging:?},kw={:?},pos={},kind={kc}", t.mode, pos.name()) },
                            format!("{what}: tag [{} {}] {:?} in a module with default {tagging:?} on a {kc} must be {}, emitted {}", t.class.kw(), t.num, t.mode, if expect_explicit { "explicit" } else { "implicit" }, if g.explicit { "explicit" } else { "implicit" }),
                        );
                    }
                } else {
                    self.bump("tag_modes_not_observable(choice-typed component)");
                }
            }
        }
    }

    fn check_automatic(&mut self, attrs: &Attrs, s: &Struct, mi: usize, what: &str, kind: &str) {
        let tagging = self.set.modules[mi].tagging;
        let any_tagged = all_comps(s).iter().any(|c| c.ty.tag.is_some());
        let expect = tagging == Tagging::Automatic && !any_tagged;
        let got = attrs.has("automatic_tags");
        self.bump("automatic_tags_compared");
        if got != expect {
            self.disc(
                "C03",
                if expect { "automatic-tags-missing" } else { "automatic-tags-unexpected" },
                format!("default={tagging:?},components-tagged={any_tagged},kind={kind}"),
                format!("{what}: automatic_tags={got}, module default {tagging:?}, some component tagged: {any_tagged}"),
            );
        }
    }

    // ------------------------------------------------------------------ definitions
    pub fn run(&mut self) {
        for mi in 0..self.set.modules.len() {
            let Some(rm) = self.rmod(mi) else {
                if self.set.modules[mi].assigns.iter().any(|a| matches!(a, Assign::Type { .. })) {
                    self.disc("C02", "module-missing", "module".into(), format!("no `pub mod {}` generated", rust_mod_name(&self.set.modules[mi].name)));
                }
                continue;
            };
            for a in &self.set.modules[mi].assigns {
                if let Assign::Type { name, ty } = a {
                    let Some(item) = rm.find(name) else {
                        self.disc("C02", "item-missing", format!("kind={}", kind_class(ty, &self.env)), format!("no item `{name}` generated for `{name} ::= ...`"));
                        continue;
                    };
                    self.bump("type_assignments_checked");
                    self.check_def(rm, item, ty, mi, name, name, true);
                }
            }
        }
        self.check_boxing();
    }

    /// `item` is the generated item standing for model type `ty` (top-level assignment or hoisted anonymous type)
    fn check_def(&mut self, rm: &'a Module, item: &'a Item, ty: &Ty, mi: usize, top: &str, what: &str, top_level: bool) {
        // tag written on the type itself (type assignment or hoisted element/anonymous type)
        if top_level {
            self.check_tag(item.attrs.tag(), ty, mi, Pos::Assignment, what);
        }
        let ext_implied = self.set.modules[mi].ext_implied;
        match (&ty.kind, &item.kind) {
            (TyKind::Sequence(s), Kind::Struct { fields, tuple: false }) | (TyKind::Set(s), Kind::Struct { fields, tuple: false }) => {
                let is_set = matches!(ty.kind, TyKind::Set(_));
                self.bump("constructed_types_checked");
                if item.attrs.has("set") != is_set {
                    self.disc("C02", "set-marker", format!("is_set={is_set}"), format!("{what}: `set` attribute = {}, source is {}", item.attrs.has("set"), if is_set { "SET" } else { "SEQUENCE" }));
                }
                let expect_ne = s.ext.is_some() || ext_implied;
                self.bump("extensibility_flags_compared");
                if item.attrs.non_exhaustive != expect_ne {
                    self.disc(
                        "C05",
                        if expect_ne { "non-exhaustive-missing" } else { "non-exhaustive-unexpected" },
                        format!("kind={},marker={},implied={ext_implied},toplevel={top_level}", if is_set { "SET" } else { "SEQUENCE" }, s.ext.is_some()),
                        format!("{what}: #[non_exhaustive]={}, marker present: {}, EXTENSIBILITY IMPLIED: {ext_implied}", item.attrs.non_exhaustive, s.ext.is_some()),
                    );
                }
                self.check_automatic(&item.attrs, s, mi, what, if is_set { "SET" } else { "SEQUENCE" });
                self.check_fields(rm, fields, s, mi, top, what, top_level);
            }
            (TyKind::Choice(s), Kind::Enum { variants }) => {
                self.bump("constructed_types_checked");
                if !item.attrs.has("choice") {
                    self.disc("C02", "choice-marker", "choice".into(), format!("{what}: enum lacks the `choice` attribute"));
                }
                let expect_ne = s.ext.is_some() || ext_implied;
                self.bump("extensibility_flags_compared");
                if item.attrs.non_exhaustive != expect_ne {
                    self.disc(
                        "C05",
                        if expect_ne { "non-exhaustive-missing" } else { "non-exhaustive-unexpected" },
                        format!("kind=CHOICE,marker={},implied={ext_implied},toplevel={top_level}", s.ext.is_some()),
                        format!("{what}: #[non_exhaustive]={}, marker present: {}, EXTENSIBILITY IMPLIED: {ext_implied}", item.attrs.non_exhaustive, s.ext.is_some()),
                    );
                }
                self.check_automatic(&item.attrs, s, mi, what, "CHOICE");
                // alternatives: root, then additions (version brackets have no effect on a CHOICE: flattened)
                let mut exp: Vec<(&Comp, bool)> = s.root.iter().map(|c| (c, false)).collect();
                if let Some(adds) = &s.ext {
                    for a in adds {
                        match a {
                            Addition::Comp(c) => exp.push((c, true)),
                            Addition::Group { comps, .. } => exp.extend(comps.iter().map(|c| (c, true))),
                        }
                    }
                }
                let got_names: Vec<&str> = variants.iter().map(|v| v.name.as_str()).collect();
                let exp_names: Vec<&str> = exp.iter().map(|(c, _)| c.name.as_str()).collect();
                self.bump("member_lists_compared");
                if got_names != exp_names {
                    self.disc("C02", "alternatives", format!("n={},marker={}", exp.len(), s.ext.is_some()), format!("{what}: variants {got_names:?}, alternatives {exp_names:?}"));
                    return;
                }
                for (v, (c, is_ext)) in variants.iter().zip(exp) {
                    let w = format!("{what}.{}", c.name);
                    self.bump("members_compared");
                    if v.attrs.has("extension_addition") != is_ext {
                        self.disc("C05", if is_ext { "addition-not-marked" } else { "root-marked-as-addition" }, "kind=CHOICE".into(), format!("{w}: extension_addition={}", v.attrs.has("extension_addition")));
                    }
                    self.check_tag(v.attrs.tag(), &c.ty, mi, if top_level { Pos::Alternative } else { Pos::NestedAlternative }, &w);
                    if v.payload.len() != 1 {
                        self.disc("C02", "alternative-payload", "payload-count".into(), format!("{w}: {} payload types", v.payload.len()));
                        continue;
                    }
                    let mut tok = v.payload[0].as_str();
                    let boxed = strip(tok, "Box<").is_some();
                    if boxed {
                        tok = strip(tok, "Box<").unwrap();
                    }
                    self.check_box(boxed, &c.ty, top, &w);
                    self.check_type(rm, tok, &c.ty, mi, top, &w);
                }
            }
            (TyKind::Enumerated(e), Kind::Enum { variants }) => {
                self.bump("enumerated_types_checked");
                if !item.attrs.has("enumerated") {
                    self.disc("C02", "enumerated-marker", "enumerated".into(), format!("{what}: enum lacks the `enumerated` attribute"));
                }
                let expect_ne = e.ext.is_some() || ext_implied;
                self.bump("extensibility_flags_compared");
                if item.attrs.non_exhaustive != expect_ne {
                    self.disc(
                        "C05",
                        if expect_ne { "non-exhaustive-missing" } else { "non-exhaustive-unexpected" },
                        format!("kind=ENUMERATED,marker={},implied={ext_implied},toplevel={top_level}", e.ext.is_some()),
                        format!("{what}: #[non_exhaustive]={}, marker present: {}, EXTENSIBILITY IMPLIED: {ext_implied}", item.attrs.non_exhaustive, e.ext.is_some()),
                    );
                }
                let n_root = e.root.len();
                let names: Vec<&str> = e.root.iter().chain(e.ext.iter().flatten()).map(|x| x.0.as_str()).collect();
                let got: Vec<&str> = variants.iter().map(|v| v.attrs.kv("identifier").unwrap_or(v.name.as_str())).collect();
                self.bump("member_lists_compared");
                if got != names {
                    self.disc("C02", "enumerals", format!("n={}", names.len()), format!("{what}: variants {got:?}, enumerals {names:?}"));
                    return;
                }
                for (i, v) in variants.iter().enumerate() {
                    let is_ext = i >= n_root;
                    if v.attrs.has("extension_addition") != is_ext {
                        self.disc("C05", if is_ext { "addition-not-marked" } else { "root-marked-as-addition" }, "kind=ENUMERATED".into(), format!("{what}.{}: extension_addition={}", v.name, v.attrs.has("extension_addition")));
                    }
                }
            }
            (_, Kind::Struct { fields, tuple: true }) if fields.len() == 1 && !matches!(ty.kind, TyKind::Sequence(_) | TyKind::Set(_) | TyKind::Choice(_) | TyKind::Enumerated(_)) => {
                // delegate newtype around the model type
                if !item.attrs.has("delegate") {
                    self.disc("C02", "delegate-marker", "delegate".into(), format!("{what}: newtype lacks `delegate`"));
                }
                let mut t2 = ty.clone();
                t2.tag = None;
                self.check_type(rm, &fields[0].ty, &t2, mi, top, what);
            }
            _ => {
                self.disc(
                    "C02",
                    "item-kind",
                    format!("model={}", kind_class(ty, &self.env)),
                    format!("{what}: generated item `{}` has the wrong kind for the ASN.1 type ({})", item.name, proj_kind_name(&item.kind)),
                );
            }
        }
    }

    fn check_box(&mut self, boxed: bool, ty: &Ty, top: &str, what: &str) {
        if !boxed {
            return;
        }
        self.bump("boxes_seen");
        let mut refs = BTreeSet::new();
        refs_in(ty, &mut refs);
        let on_cycle = refs.iter().any(|r| r == top || self.reach.get(r).is_some_and(|s| s.contains(top)));
        if !on_cycle {
            self.disc("C02", "box-without-recursion", format!("kind={}", kind_class(ty, &self.env)), format!("{what}: Box<_> although the component lies on no reference cycle"));
        }
    }

    fn check_fields(&mut self, rm: &'a Module, fields: &'a [proj::Field], s: &Struct, mi: usize, top: &str, what: &str, top_level: bool) {
        enum Exp<'b> {
            Comp(&'b Comp, bool),
            Group(&'b [Comp]),
        }
        let mut exp: Vec<Exp> = s.root.iter().map(|c| Exp::Comp(c, false)).collect();
        if let Some(adds) = &s.ext {
            for a in adds {
                match a {
                    Addition::Comp(c) => exp.push(Exp::Comp(c, true)),
                    Addition::Group { comps, .. } => exp.push(Exp::Group(comps)),
                }
            }
        }
        exp.extend(s.root2.iter().map(|c| Exp::Comp(c, false)));
        self.bump("member_lists_compared");
        // names: group members are located by their hoisted struct, so only the count and the plain components are compared by name
        let mismatch = fields.len() != exp.len()
            || fields.iter().zip(&exp).any(|(f, e)| match e {
                Exp::Comp(c, _) => f.name != c.name,
                Exp::Group(_) => false,
            });
        if mismatch {
            let got: Vec<&str> = fields.iter().map(|f| f.name.as_str()).collect();
            let want: Vec<String> = exp
                .iter()
                .map(|e| match e {
                    Exp::Comp(c, _) => c.name.clone(),
                    Exp::Group(g) => format!("[[{}]]", g.iter().map(|c| c.name.as_str()).collect::<Vec<_>>().join(",")),
                })
                .collect();
            self.disc(
                "C02",
                "components",
                format!("n={},marker={},groups={}", exp.len(), s.ext.is_some(), exp.iter().filter(|e| matches!(e, Exp::Group(_))).count()),
                format!("{what}: fields {got:?}, components {want:?}"),
            );
            // the extension marks of the members that can still be identified by name are judged all the same
            for e in &exp {
                if let Exp::Comp(c, is_ext) = e {
                    if let Some(f) = fields.iter().find(|f| f.name == c.name) {
                        self.bump("members_compared");
                        if f.attrs.has("extension_addition") != *is_ext || f.attrs.has("extension_addition_group") {
                            self.disc(
                                "C05",
                                if *is_ext { "addition-not-marked" } else { "root-marked-as-addition" },
                                "kind=SEQUENCE/SET".into(),
                                format!("{what}.{}: extension_addition={}, extension_addition_group={} (member list differs from the source: fields {got:?})", c.name, f.attrs.has("extension_addition"), f.attrs.has("extension_addition_group")),
                            );
                        }
                    }
                }
            }
            return;
        }
        let pos = if top_level { Pos::Component } else { Pos::NestedComponent };
        for (f, e) in fields.iter().zip(exp) {
            self.bump("members_compared");
            match e {
                Exp::Comp(c, is_ext) => {
                    let w = format!("{what}.{}", c.name);
                    if f.attrs.has("extension_addition") != is_ext || f.attrs.has("extension_addition_group") {
                        self.disc(
                            "C05",
                            if is_ext { "addition-not-marked" } else { "root-marked-as-addition" },
                            "kind=SEQUENCE/SET".into(),
                            format!("{w}: extension_addition={}, extension_addition_group={}", f.attrs.has("extension_addition"), f.attrs.has("extension_addition_group")),
                        );
                    }
                    self.check_comp_field(rm, f, c, mi, top, &w, pos);
                }
                Exp::Group(comps) => {
                    let w = format!("{what}.[[{}]]", comps[0].name);
                    self.bump("extension_groups_checked");
                    // shape (C02): a group is one member of its own; its place must not be taken by a grouped component itself
                    if comps.iter().any(|c| c.name == f.name) {
                        self.disc("C02", "group-replaced-by-its-component", format!("n={}", comps.len()), format!("{w}: the member at the group's position is the grouped component `{}` itself (type `{}`)", f.name, f.ty));
                    }
                    if !f.attrs.has("extension_addition_group") || f.attrs.has("extension_addition") {
                        self.disc("C05", "group-not-marked", "group".into(), format!("{w}: extension_addition_group={}", f.attrs.has("extension_addition_group")));
                    }
                    let Some(inner) = strip(&f.ty, "Option<") else {
                        self.disc("C05", "group-not-optional", "group".into(), format!("{w}: group member has type `{}`", f.ty));
                        continue;
                    };
                    let inner = strip(inner, "Box<").unwrap_or(inner);
                    match rm.find(inner) {
                        Some(Item { kind: Kind::Struct { fields: gf, tuple: false }, attrs: gattrs, .. }) => {
                            // the synthetic struct of a group is no type of the module: it has no extension marker of its own,
                            // whatever EXTENSIBILITY IMPLIED says about the types the module defines
                            if gattrs.non_exhaustive {
                                self.disc("C05", "group-struct-extensible", "group".into(), format!("{w}: the struct hoisted for the group is #[non_exhaustive] (an extension bit of its own in PER)"));
                            }
                            let got: Vec<&str> = gf.iter().map(|x| x.name.as_str()).collect();
                            let want: Vec<&str> = comps.iter().map(|c| c.name.as_str()).collect();
                            if got != want {
                                self.disc("C05", "group-components", format!("n={}", comps.len()), format!("{w}: group struct has {got:?}, source group has {want:?}"));
                                continue;
                            }
                            for (g, c) in gf.iter().zip(comps.iter()) {
                                let w2 = format!("{w}.{}", c.name);
                                if g.attrs.has("extension_addition") || g.attrs.has("extension_addition_group") {
                                    self.disc("C05", "group-member-marked", "group".into(), format!("{w2}: member of a group struct carries an extension attribute"));
                                }
                                self.check_comp_field(rm, g, c, mi, top, &w2, Pos::NestedComponent);
                            }
                        }
                        _ => self.disc("C05", "group-struct-missing", "group".into(), format!("{w}: no struct `{inner}` for the group")),
                    }
                }
            }
        }
    }

    fn check_comp_field(&mut self, rm: &'a Module, f: &'a proj::Field, c: &Comp, mi: usize, top: &str, w: &str, pos: Pos) {
        self.check_tag(f.attrs.tag(), &c.ty, mi, pos, w);
        let mut tok = f.ty.as_str();
        let is_opt = strip(tok, "Option<").is_some();
        if is_opt {
            tok = strip(tok, "Option<").unwrap();
        }
        let boxed = strip(tok, "Box<").is_some();
        if boxed {
            tok = strip(tok, "Box<").unwrap();
        }
        let want_opt = matches!(c.opt, Optionality::Optional);
        self.bump("optionality_compared");
        if is_opt != want_opt {
            self.disc("C02", if want_opt { "optional-not-option" } else { "option-without-optional" }, format!("opt={}", opt_name(&c.opt)), format!("{w}: field type `{}`, component is {}", f.ty, opt_name(&c.opt)));
        }
        let def = f.attrs.kv("default");
        let want_def = matches!(c.opt, Optionality::Default(_));
        if def.is_some() != want_def {
            self.disc("C02", if want_def { "default-missing" } else { "default-unexpected" }, format!("kind={}", kind_class(&c.ty, &self.env)), format!("{w}: default attribute {def:?}, component is {}", opt_name(&c.opt)));
        } else if let Some(fname) = def {
            match rm.find_fn(fname) {
                Some(Item { kind: Kind::Fn { ret, .. }, .. }) => {
                    if ret != &f.ty {
                        self.disc("C02", "default-fn-type", "default".into(), format!("{w}: default fn `{fname}` returns `{ret}`, field is `{}`", f.ty));
                    }
                }
                _ => self.disc("C02", "default-fn-missing", "default".into(), format!("{w}: default = \"{fname}\" but no such function")),
            }
        }
        self.check_box(boxed, &c.ty, top, w);
        self.check_type(rm, tok, &c.ty, mi, top, w);
    }

    /// `tok`: Rust type token (Option/Box already stripped) standing for model type `ty` (tag already judged by the caller)
    fn check_type(&mut self, rm: &'a Module, tok: &str, ty: &Ty, mi: usize, top: &str, what: &str) {
        self.bump("type_tokens_compared");
        let mismatch = |me: &mut Self, why: &str| {
            me.disc("C02", "type", format!("model={}", model_kind_name(&ty.kind)), format!("{what}: Rust type `{tok}` for ASN.1 {} ({why})", model_kind_name(&ty.kind)));
        };
        match &ty.kind {
            TyKind::Ref { name, .. } => {
                let last = tok.rsplit("::").next().unwrap_or(tok);
                if last != name {
                    // a constrained / tagged reference may be hoisted into a delegate newtype: follow it
                    if let Some(Item { kind: Kind::Struct { fields, tuple: true }, attrs, .. }) = rm.find(tok) {
                        if attrs.has("delegate") && fields.len() == 1 && !self.env.contains_key(tok) {
                            let inner = fields[0].ty.clone();
                            return self.check_type(rm, &inner, ty, mi, top, what);
                        }
                    }
                    return mismatch(self, &format!("expected a reference to `{name}`"));
                }
                if tok.contains("::") {
                    let def_mod = self.env.get(name).map(|(m, _)| rust_mod_name(&self.set.modules[*m].name));
                    if Some(tok.to_string()) != def_mod.as_ref().map(|m| format!("super::{m}::{name}")) {
                        self.disc("C12", "qualified-reference", "qualified".into(), format!("{what}: `{tok}` does not name the defining module {def_mod:?}"));
                    }
                }
            }
            TyKind::SeqOf(e) | TyKind::SetOf(e) => {
                let want_set = matches!(ty.kind, TyKind::SetOf(_));
                let (inner, is_set) = if let Some(i) = strip(tok, "SequenceOf<") {
                    (i, false)
                } else if let Some(i) = strip(tok, "SetOf<") {
                    (i, true)
                } else if let Some(it) = rm.find(tok) {
                    // hoisted `struct X(pub SequenceOf<..>)`
                    if self.env.contains_key(tok) {
                        return mismatch(self, "inline collection expected, reference to a top-level type found");
                    }
                    if let Kind::Struct { fields, tuple: true } = &it.kind {
                        if fields.len() == 1 {
                            let inner = fields[0].ty.clone();
                            return self.check_type(rm, &inner, ty, mi, top, what);
                        }
                    }
                    return mismatch(self, "not a collection");
                } else {
                    return mismatch(self, "not a collection");
                };
                if is_set != want_set {
                    self.disc("C02", "set-of-marker", format!("want_set={want_set}"), format!("{what}: `{tok}` for {}", if want_set { "SET OF" } else { "SEQUENCE OF" }));
                }
                // element: the tag (if any) lives on the anonymous element item
                let w = format!("{what}[]");
                let inner = strip(inner, "Box<").unwrap_or(inner);
                let elem_item = if self.env.contains_key(inner) { None } else { rm.find(inner) };
                let got_tag = elem_item.and_then(|i| i.attrs.tag());
                self.check_tag(got_tag, e, mi, Pos::Element, &w);
                let mut e2 = (**e).clone();
                e2.tag = None;
                self.check_type(rm, inner, &e2, mi, top, &w);
            }
            TyKind::Sequence(_) | TyKind::Set(_) | TyKind::Choice(_) | TyKind::Enumerated(_) => {
                if self.env.contains_key(tok) {
                    return mismatch(self, "anonymous type expected, reference to a top-level type found");
                }
                match rm.find(tok) {
                    Some(it) => {
                        // a hoisted anonymous item may be wrapped once more by a delegate newtype
                        if let Kind::Struct { fields, tuple: true } = &it.kind {
                            if fields.len() == 1 && it.attrs.has("delegate") {
                                let inner = fields[0].ty.clone();
                                return self.check_type(rm, &inner, ty, mi, top, what);
                            }
                        }
                        self.check_def(rm, it, ty, mi, top, what, false)
                    }
                    None => mismatch(self, "no generated item of that name"),
                }
            }
            TyKind::ClassField { .. } => {
                // the fixed type of the field or an open type: the property does not prescribe which; C09 compares with the expansion
                self.bump("class_field_types_seen");
            }
            prim => {
                // follow delegate newtypes that the generator hoists for constrained / named inline types
                let mut cur = tok.to_string();
                for _ in 0..4 {
                    if self.env.contains_key(&cur) {
                        return mismatch(self, "built-in type expected, reference to a top-level type found");
                    }
                    match rm.find(&cur) {
                        Some(Item { kind: Kind::Struct { fields, tuple: true }, .. }) if fields.len() == 1 => cur = fields[0].ty.clone(),
                        _ => break,
                    }
                }
                let ok = match prim {
                    TyKind::Null => cur == "()",
                    TyKind::Boolean => cur == "bool",
                    TyKind::Integer { .. } => cur == "Integer" || rust_int_range(&cur).is_some(),
                    TyKind::BitString { .. } => cur == "BitString" || cur.starts_with("FixedBitString<"),
                    TyKind::OctetString => cur == "OctetString" || cur.starts_with("FixedOctetString<"),
                    TyKind::Oid | TyKind::RelOid => cur == "ObjectIdentifier",
                    TyKind::UtcTime => cur == "UtcTime",
                    TyKind::GenTime => cur == "GeneralizedTime",
                    TyKind::Str(k) => cur == k.rust(),
                    TyKind::Any => cur == "Any",
                    _ => false,
                };
                if !ok {
                    mismatch(self, &format!("resolves to `{cur}`"));
                }
            }
        }
    }

    // ------------------------------------------------------------------ recursion sufficiency (C02)
    fn check_boxing(&mut self) {
        // by-value containment graph among generated items, per Rust module (cross-module edges by path)
        let mut edges: BTreeMap<String, BTreeSet<String>> = BTreeMap::new();
        for m in self.mods {
            for it in &m.items {
                let toks: Vec<&str> = match &it.kind {
                    Kind::Struct { fields, .. } => fields.iter().map(|f| f.ty.as_str()).collect(),
                    Kind::Enum { variants } => variants.iter().flat_map(|v| v.payload.iter().map(|p| p.as_str())).collect(),
                    _ => continue,
                };
                let from = format!("{}::{}", m.name, it.name);
                let e = edges.entry(from).or_default();
                for t in toks {
                    let t = strip(t, "Option<").unwrap_or(t);
                    if t.starts_with("Box<") || t.starts_with("SequenceOf<") || t.starts_with("SetOf<") || t.starts_with("Vec<") {
                        continue;
                    }
                    let target = if let Some(rest) = t.strip_prefix("super::") { rest.to_string() } else { format!("{}::{}", m.name, t) };
                    e.insert(target);
                }
            }
        }
        // DFS cycle detection
        let nodes: Vec<String> = edges.keys().cloned().collect();
        let mut color: BTreeMap<String, u8> = BTreeMap::new();
        let mut found: Option<Vec<String>> = None;
        fn dfs(n: &str, edges: &BTreeMap<String, BTreeSet<String>>, color: &mut BTreeMap<String, u8>, stack: &mut Vec<String>, found: &mut Option<Vec<String>>) {
            if found.is_some() {
                return;
            }
            color.insert(n.to_string(), 1);
            stack.push(n.to_string());
            if let Some(es) = edges.get(n) {
                for t in es {
                    if !edges.contains_key(t) {
                        continue;
                    }
                    match color.get(t).copied().unwrap_or(0) {
                        0 => dfs(t, edges, color, stack, found),
                        1 => {
                            let i = stack.iter().position(|x| x == t).unwrap_or(0);
                            *found = Some(stack[i..].to_vec());
                            return;
                        }
                        _ => {}
                    }
                    if found.is_some() {
                        return;
                    }
                }
            }
            stack.pop();
            color.insert(n.to_string(), 2);
        }
        for n in &nodes {
            if color.get(n).copied().unwrap_or(0) == 0 {
                dfs(n, &edges, &mut color, &mut vec![], &mut found);
            }
        }
        self.bump("containment_graphs_checked");
        if let Some(cyc) = found {
            // key: kinds of the model types on the cycle
            let mut kinds: Vec<&str> = cyc
                .iter()
                .map(|n| {
                    let name = n.rsplit("::").next().unwrap_or(n);
                    match self.env.get(name).map(|(_, t)| &t.kind) {
                        Some(TyKind::Sequence(_)) => "SEQUENCE",
                        Some(TyKind::Set(_)) => "SET",
                        Some(TyKind::Choice(_)) => "CHOICE",
                        Some(_) => "other",
                        None => "anonymous",
                    }
                })
                .collect();
            kinds.sort();
            kinds.dedup();
            self.disc("C02", "recursion-not-boxed", format!("cycle-kinds={}", kinds.join("+")), format!("by-value containment cycle among generated items: {}", cyc.join(" -> ")));
        }
    }
}

fn opt_name(o: &Optionality) -> &'static str {
    match o {
        Optionality::Required => "required",
        Optionality::Optional => "OPTIONAL",
        Optionality::Default(_) => "DEFAULT",
    }
}

fn proj_kind_name(k: &Kind) -> &'static str {
    match k {
        Kind::Struct { tuple: true, .. } => "tuple struct",
        Kind::Struct { .. } => "struct",
        Kind::Enum { .. } => "enum",
        _ => "other",
    }
}

pub fn model_kind_name(k: &TyKind) -> &'static str {
    match k {
        TyKind::Null => "NULL",
        TyKind::Boolean => "BOOLEAN",
        TyKind::Integer { .. } => "INTEGER",
        TyKind::Enumerated(_) => "ENUMERATED",
        TyKind::BitString { .. } => "BIT STRING",
        TyKind::OctetString => "OCTET STRING",
        TyKind::Oid => "OBJECT IDENTIFIER",
        TyKind::RelOid => "RELATIVE-OID",
        TyKind::UtcTime => "UTCTime",
        TyKind::GenTime => "GeneralizedTime",
        TyKind::Str(_) => "character string",
        TyKind::Sequence(_) => "SEQUENCE",
        TyKind::Set(_) => "SET",
        TyKind::Choice(_) => "CHOICE",
        TyKind::SeqOf(_) => "SEQUENCE OF",
        TyKind::SetOf(_) => "SET OF",
        TyKind::Ref { .. } => "type reference",
        TyKind::Any => "ANY",
        TyKind::ClassField { .. } => "class field type",
    }
}
