//! C12 — modules compile independently of their neighbours; IMPORTS become use lines (metamorphic + H4 state invariant).
use crate::comp::{self, Cfg};
use crate::core::*;
use crate::gen::{self, *};
use crate::oracle::rust_mod_name;
use crate::proj::{self, Kind, Module};
use rasn_compiler::verif_hooks::Event;
use serde_json::json;
use std::collections::{BTreeMap, BTreeSet};

fn opts() -> GenOpts {
    GenOpts { modules: (2, 5), assigns: (1, 7), max_depth: 2, max_comps: 4, qualified_refs: true, ..GenOpts::default() }
}

/// token-normalised, doc-free text of one module block (use lines included, in order)
fn block(m: &Module) -> String {
    let mut s = String::new();
    s.push_str(&m.attrs_text);
    for it in &m.items {
        s.push_str(&it.text);
        s.push('\n');
    }
    s
}

fn closure(set: &ModuleSet, mi: usize) -> BTreeSet<usize> {
    let idx: BTreeMap<&str, usize> = set.modules.iter().enumerate().map(|(i, m)| (m.name.as_str(), i)).collect();
    // module-qualified references also make a module necessary
    fn quals(t: &Ty, out: &mut BTreeSet<String>) {
        match &t.kind {
            TyKind::Ref { module: Some(m), .. } => {
                out.insert(m.clone());
            }
            TyKind::Sequence(s) | TyKind::Set(s) | TyKind::Choice(s) => {
                for c in crate::oracle::all_comps(s) {
                    quals(&c.ty, out);
                }
            }
            TyKind::SeqOf(e) | TyKind::SetOf(e) => quals(e, out),
            _ => {}
        }
    }
    let mut seen = BTreeSet::new();
    let mut stack = vec![mi];
    while let Some(i) = stack.pop() {
        if !seen.insert(i) {
            continue;
        }
        let m = &set.modules[i];
        let mut needs: BTreeSet<String> = m.imports.iter().map(|(f, _)| f.clone()).collect();
        for a in &m.assigns {
            match a {
                Assign::Type { ty, .. } | Assign::Value { ty, .. } => quals(ty, &mut needs),
                _ => {}
            }
        }
        for n in needs {
            if let Some(j) = idx.get(n.as_str()) {
                stack.push(*j);
            }
        }
    }
    seen
}

fn compile_subset(set: &ModuleSet, order: &[usize], cfg: &Cfg) -> (comp::Run, Option<Vec<Module>>) {
    compile_subset_via(set, order, cfg, None)
}

/// `plan`: the way the sources are handed to the one Compiler (None = one literal per module)
fn compile_subset_via(set: &ModuleSet, order: &[usize], cfg: &Cfg, plan: Option<&[comp::Step]>) -> (comp::Run, Option<Vec<Module>>) {
    let each = set.render_each();
    let srcs: Vec<String> = order.iter().map(|i| each[*i].clone()).collect();
    let run = match plan {
        Some(p) => comp::delivered(&srcs, cfg, p, false),
        None => comp::rasn(&srcs, cfg),
    };
    let mods = run.out.generated().and_then(|g| proj::project(g).ok());
    (run, mods)
}

fn check_env_events(run: &comp::Run, origin: &str, rep: &mut Report) {
    for e in &run.events {
        if let Event::ModuleEnv { module, tagging_before, tagging_after, tagging_header, ext_before, ext_after, ext_header } = e {
            rep.count("hook_events[ModuleEnv]", 1);
            if tagging_before != tagging_after || ext_before != ext_after {
                rep.count("module_env_overwrites_that_mattered", 1);
            }
            if tagging_after != tagging_header {
                rep.violations.push(Violation {
                    sig: "c12|backend-state|tagging-default-not-from-header".into(),
                    what: format!("module {module}: backend tagging default is {tagging_after} while generating, header says {tagging_header} (before: {tagging_before}) [{origin}]"),
                    replay: json!({"origin": origin}),
                });
            }
            if ext_after != ext_header {
                rep.violations.push(Violation {
                    sig: "c12|backend-state|extensibility-default-not-from-header".into(),
                    what: format!("module {module}: backend extensibility default is {ext_after} while generating, header says {ext_header} (before: {ext_before}) [{origin}]"),
                    replay: json!({"origin": origin}),
                });
            }
        }
    }
}

fn check_use_lines(set: &ModuleSet, mods: &[Module], origin: &str, rep: &mut Report) {
    let env = set.type_env();
    // value name -> governing type name (when it is a reference) for the documented associated-type additions
    let mut value_type: BTreeMap<String, String> = BTreeMap::new();
    for m in &set.modules {
        for a in &m.assigns {
            if let Assign::Value { name, ty: Ty { kind: TyKind::Ref { name: tn, .. }, .. }, .. } = a {
                value_type.insert(name.clone(), tn.clone());
            }
        }
    }
    for m in &set.modules {
        let Some(rm) = mods.iter().find(|x| x.name == rust_mod_name(&m.name)) else { continue };
        let uses: Vec<String> = rm.uses().into_iter().filter(|u| u.starts_with("super::")).collect();
        rep.count("modules_use_lines_checked", 1);
        // several use lines may name the same sibling module (the associated-type additions come as a line of their own):
        // judged is the union of symbols per sibling module; a symbol imported twice is an error (E0252 in Rust)
        let mut by_from: BTreeMap<String, Vec<String>> = BTreeMap::new();
        for u in &uses {
            let rest = &u["super::".len()..];
            let Some((from, syms)) = rest.split_once("::") else { continue };
            let e = by_from.entry(from.to_string()).or_default();
            e.extend(syms.trim_start_matches('{').trim_end_matches('}').split(',').map(|s| s.trim().to_string()).filter(|s| !s.is_empty()));
        }
        for (from, syms) in &by_from {
            let got: BTreeSet<String> = syms.iter().cloned().collect();
            if *from == rust_mod_name(&m.name) {
                // a module never imports from itself: the symbol is defined in this very `mod` (rustc E0255)
                rep.violations.push(Violation { sig: "c12|use-lines|use-of-the-module-itself".into(), what: format!("module {}: use lines {uses:?} import {got:?} from the module itself [{origin}]", m.name), replay: json!({"origin": origin}) });
                continue;
            }
            if got.len() != syms.len() {
                rep.violations.push(Violation { sig: "c12|use-lines|symbol-imported-twice".into(), what: format!("module {}: use lines {uses:?} import a symbol of `{from}` twice [{origin}]", m.name), replay: json!({"origin": origin}) });
            }
            let Some((_, want)) = m.imports.iter().find(|(f, _)| rust_mod_name(f) == *from) else {
                // documented: the governing type of an imported value is imported along with it, also when it lives in a
                // module this module has no IMPORTS clause for
                let imported_values: Vec<&String> = m.imports.iter().flat_map(|(_, s)| s.iter()).collect();
                let associated: BTreeSet<String> = imported_values.iter().filter_map(|v| value_type.get(*v)).filter(|t| env.get(*t).is_some_and(|(mi, _)| rust_mod_name(&set.modules[*mi].name) == *from)).cloned().collect();
                if !got.is_empty() && got.iter().all(|g| associated.contains(g)) {
                    rep.count("associated_type_use_lines_from_third_module", 1);
                    continue;
                }
                rep.violations.push(Violation { sig: "c12|use-lines|use-without-imports-clause".into(), what: format!("module {}: use of `{from}` ({uses:?}) but no IMPORTS ... FROM that module [{origin}]", m.name), replay: json!({"origin": origin}) });
                continue;
            };
            let expect: BTreeSet<String> = want.iter().map(|s| if s.starts_with(|c: char| c.is_lowercase()) { crate::c10::const_name(s) } else { s.clone() }).collect();
            // documented addition: the governing type of an imported value
            let mut allowed_extra: BTreeSet<String> = BTreeSet::new();
            for s in want {
                if let Some(t) = value_type.get(s) {
                    if env.get(t).is_some_and(|(mi, _)| rust_mod_name(&set.modules[*mi].name) == *from) {
                        allowed_extra.insert(t.clone());
                    }
                }
            }
            if got.contains("*") {
                rep.violations.push(Violation { sig: "c12|use-lines|wildcard-without-option".into(), what: format!("module {}: wildcard use of `{from}` although default_wildcard_imports is off [{origin}]", m.name), replay: json!({"origin": origin}) });
                continue;
            }
            rep.count("use_symbol_sets_compared", 1);
            let missing: Vec<&String> = expect.difference(&got).collect();
            let extra: Vec<&String> = got.difference(&expect).filter(|s| !allowed_extra.contains(*s)).collect();
            if !missing.is_empty() || !extra.is_empty() {
                rep.violations.push(Violation {
                    sig: format!("c12|use-lines|{}", if !missing.is_empty() { "imported-symbol-missing" } else { "symbol-not-in-imports" }),
                    what: format!("module {}: use lines {uses:?}; IMPORTS clause has {want:?}; missing {missing:?}, extra {extra:?} [{origin}]", m.name),
                    replay: json!({"origin": origin}),
                });
            }
        }
        for (f, _) in &m.imports {
            if !by_from.contains_key(&rust_mod_name(f)) {
                rep.violations.push(Violation { sig: "c12|use-lines|imports-clause-without-use".into(), what: format!("module {}: IMPORTS FROM {f} has no use line [{origin}]", m.name), replay: json!({"origin": origin}) });
            }
        }
    }
    // qualified references are judged by the oracle (prop tag C12)
    let mut o = crate::oracle::Oracle::new(set, mods);
    o.run();
    for d in o.out.iter().filter(|d| d.prop == "C12") {
        rep.violations.push(Violation { sig: format!("c12|{}|{}", d.kind, d.key), what: format!("{} [{origin}]", d.detail), replay: json!({"origin": origin}) });
    }
    if let Some(n) = o.counters.get("type_tokens_compared") {
        rep.count("type_tokens_compared", *n);
    }
}

fn check_set(seed: u64, idx: u64, rep: &mut Report, max_variants: usize) {
    let mut rng = Rng::for_case(seed, 12, idx);
    // every 8th input: a module pair aimed at the associated-type import bookkeeping (values imported, their types sometimes too)
    let set = if idx % 8 == 7 { gen::assoc_import_set(&mut Rng::for_case(seed, 1201, idx)) } else { gen::random_set(seed, 1200, idx, &opts()) };
    let origin = format!("G(seed={seed},salt=1200,idx={idx})");
    let cfg = Cfg::default_cfg();
    let n = set.modules.len();
    let all: Vec<usize> = (0..n).collect();
    let (full_run, full_mods) = compile_subset(&set, &all, &cfg);
    rep.evaluations += 1;
    rep.count(&format!("full_set_compilations[{}]", full_run.out.status()), 1);
    check_env_events(&full_run, &origin, rep);
    let Some(full_mods) = full_mods else { return };
    rep.nontrivial.insert(hash_of(&set));
    check_use_lines(&set, &full_mods, &origin, rep);
    let full_blocks: BTreeMap<String, String> = full_mods.iter().map(|m| (m.name.clone(), block(m))).collect();
    if rep.samples.len() < 3 && idx % 53 == 1 {
        rep.sample(json!({"origin": origin, "modules": set.modules.iter().map(|m| format!("{} {:?} implied={} imports={:?}", m.name, m.tagging, m.ext_implied, m.imports)).collect::<Vec<_>>()}));
    }
    for mi in 0..n {
        let need: Vec<usize> = closure(&set, mi).into_iter().collect();
        let rn = rust_mod_name(&set.modules[mi].name);
        let Some(reference) = full_blocks.get(&rn) else { continue };
        // variants: the import closure alone (every order when small), the closure plus random extra modules in random order
        let mut variants: Vec<Vec<usize>> = vec![];
        if need.len() <= 3 {
            variants.extend(permute(&need));
        } else {
            variants.push(need.clone());
            let mut r = need.clone();
            r.reverse();
            variants.push(r);
        }
        for _ in 0..3 {
            let mut v = need.clone();
            for j in 0..n {
                if !v.contains(&j) && rng.chance(1, 2) {
                    v.push(j);
                }
            }
            rng.shuffle(&mut v);
            variants.push(v);
        }
        // a module handed over twice (multiset): only when nothing else changes
        variants.sort();
        variants.dedup();
        if variants.len() > max_variants {
            rng.shuffle(&mut variants);
            variants.truncate(max_variants);
        }
        for v in variants {
            if v.len() == n && v == all {
                continue;
            }
            // one variant in three is handed over through another chain of the builder API (single paths, lists of paths, the
            // output mode set before / between / after): the way of handing over is part of "handed to one Compiler"
            let plan = if rng.chance(1, 3) { Some(comp::random_plan(&mut rng, v.len())) } else { None };
            if let Some(p) = &plan {
                rep.count("subset_compilations[handed over by a mixed builder chain]", 1);
                let shape: Vec<&str> = p.iter().map(|s| match s { comp::Step::Literal(_) => "literal", comp::Step::Path(_) => "path", comp::Step::Paths(_) => "paths", comp::Step::SetOutput => "output" }).collect();
                rep.note("delivery_chain_shapes", shape.join(">"));
            }
            let (run, mods) = compile_subset_via(&set, &v, &cfg, plan.as_deref());
            rep.evaluations += 1;
            check_env_events(&run, &origin, rep);
            let Some(mods) = mods else {
                rep.count("subset_compilations[not Ok]", 1);
                continue;
            };
            rep.count("subset_compilations[Ok]", 1);
            let Some(b) = mods.iter().find(|m| m.name == rn) else {
                rep.violations.push(Violation { sig: "c12|block|module-block-missing".into(), what: format!("module {rn} has no block when compiled with modules {v:?} [{origin}]"), replay: json!({"origin": origin, "subset": v}) });
                continue;
            };
            rep.count("module_blocks_compared", 1);
            let bt = block(b);
            if &bt != reference {
                // name the first differing item
                let a: Vec<&str> = reference.lines().collect();
                let c: Vec<&str> = bt.lines().collect();
                let i = a.iter().zip(c.iter()).position(|(x, y)| x != y).unwrap_or(a.len().min(c.len()));
                let kind = if a.get(i).is_some_and(|l| l.starts_with("use ")) || c.get(i).is_some_and(|l| l.starts_with("use ")) { "use-lines-differ" } else { "items-differ" };
                rep.violations.push(Violation {
                    sig: format!("c12|block|{kind}"),
                    what: format!("block of module {rn} differs between the full set and the subset/order {v:?}: `{}` vs `{}` [{origin}]", one_line(a.get(i).unwrap_or(&""), 160), one_line(c.get(i).unwrap_or(&""), 160)),
                    replay: json!({"origin": origin, "subset": v, "module": rn}),
                });
            }
        }
    }
    let _ = Kind::Other;
}

fn permute(v: &[usize]) -> Vec<Vec<usize>> {
    if v.len() <= 1 {
        return vec![v.to_vec()];
    }
    let mut out = vec![];
    for i in 0..v.len() {
        let mut rest = v.to_vec();
        let x = rest.remove(i);
        for mut p in permute(&rest) {
            p.insert(0, x);
            out.push(p);
        }
    }
    out
}

pub fn run(ctx: &Ctx) -> Report {
    let mut rep = Report::new(
        "exploration",
        "grammar-G sets of 2..5 modules with independently drawn tagging defaults and EXTENSIBILITY IMPLIED flags, acyclic and cyclic import graphs (forward references across modules), imported types and values (values as DEFAULTs), module-qualified references; each module is one source. For every module m: its `pub mod` block (doc-free token-normalised items incl. use lines) in the full-set compilation is compared with its block when compiled with exactly its import closure (every order when <= 3 modules) and with the closure plus random other modules in random order. State invariant per generated module (hook H4): the backend's tagging and extensibility defaults equal the module header's while generating. Use lines: exactly one per IMPORTS ... FROM clause, symbol set = imported symbols (values in upper snake case) plus, as documented, the governing type of an imported value; module-qualified references must name the defining module. Values of a sibling module in DEFAULTs, constraint bounds and value assignments, imported or module-qualified (exhaustive over 4 governing types x 3 positions x 2 spellings x 2 source orders): every mention of the sibling's constant must be in scope (use line or `super::<module>::` path) and a bound must be the referenced value. Non-trivial = full-set compilation Ok and projected; distinct by model hash.",
    );
    rep.must_observe = vec!["copied_member_tags_compared".into(), "module_blocks_compared".into(), "hook_events[ModuleEnv]".into(), "module_env_overwrites_that_mattered".into(), "use_symbol_sets_compared".into(), "value_reference_sites_checked".into()];
    rep.assumptions = vec!["hook H4 reports the backend state faithfully".into(), "import closure computed on the model (IMPORTS + module-qualified references)".into()];
    if let Some(path) = &ctx.replay {
        let doc: serde_json::Value = serde_json::from_str(&std::fs::read_to_string(path).expect("replay")).expect("json");
        let origin = doc["case"]["origin"].as_str().unwrap_or("");
        let nums: Vec<u64> = origin.split(|c: char| !c.is_ascii_digit()).filter(|s| !s.is_empty()).filter_map(|s| s.parse().ok()).collect();
        if nums.len() >= 3 {
            check_set(nums[0], nums[2], &mut rep, usize::MAX);
        }
        return rep;
    }
    let seed = ctx.seed;
    let n = ctx.pick(600u64, 20_000);
    let maxv = ctx.pick(6usize, 14);
    let acc = Acc::new(rep);
    par_for(n, |i| {
        let mut local = Report::default();
        check_set(seed, i, &mut local, maxv);
        acc.with(|r| r.merge(local));
    });
    let mut rep = acc.into_inner();
    name_styles(seed, ctx.pick(120u64, 2000), &mut rep);
    cross_module_cycles(seed, ctx.pick(120u64, 2000), &mut rep);
    copied_bodies(&mut rep);
    multi_clause_imports(&mut rep);
    qualified_values(&mut rep);
    rep
}

/// Values of another module used in DEFAULTs, constraint bounds and value assignments, written plain (imported) or
/// module-qualified (`Ma.va`, not imported). Exhaustive over position x spelling x governing type kind. Oracle (name
/// resolution, the part of C12 that says "module-qualified references resolve to that module"): a constant of the sibling
/// module that is mentioned in the using module's items must be in scope there - imported by a use line (by name or glob)
/// or spelled `super::<module>::NAME` - and the constraint bound must be the referenced value.
pub fn qualified_value_sources(kind: usize, position: usize, qualified: bool) -> Vec<String> {
    let (ty, val, name) = [("INTEGER", "5", "va"), ("Ea", "green", "ea"), ("Ta", "7", "ta"), ("BOOLEAN", "TRUE", "ba")][kind];
    let a = format!("Ma DEFINITIONS AUTOMATIC TAGS ::= BEGIN\nEXPORTS ALL;\nEa ::= ENUMERATED {{ red, green }}\nTa ::= INTEGER (0..100)\n{name} {ty} ::= {val}\nEND\n");
    let r = if qualified { format!("Ma.{name}") } else { name.to_string() };
    let mut imports: Vec<&str> = vec![];
    if !qualified {
        imports.push(name);
    }
    if ty == "Ea" || ty == "Ta" {
        imports.push(ty);
    }
    let imp = if imports.is_empty() { String::new() } else { format!("IMPORTS {} FROM Ma;\n", imports.join(", ")) };
    let body = match position {
        0 => format!("Tb ::= SEQUENCE {{ fa {ty} DEFAULT {r}, fb NULL }}"),
        1 => format!("vb {ty} ::= {r}"),
        _ => format!("Tb ::= INTEGER (0..{r})"),
    };
    vec![a, format!("Mb DEFINITIONS AUTOMATIC TAGS ::= BEGIN\n{imp}{body}\nEND\n")]
}

fn qualified_values(rep: &mut Report) {
    for kind in 0..4 {
        for position in 0..3 {
            if position == 2 && kind != 0 && kind != 2 {
                continue;
            }
            for qualified in [false, true] {
                for a_first in [true, false] {
                    let mut srcs = qualified_value_sources(kind, position, qualified);
                    if !a_first {
                        srcs.reverse();
                    }
                    let run = comp::rasn(&srcs, &Cfg::default_cfg());
                    rep.evaluations += 1;
                    let comp::Outcome::Ok { generated, warnings } = &run.out else {
                        rep.count("qualified_value_cases[not Ok]", 1);
                        continue;
                    };
                    if !warnings.is_empty() {
                        rep.count("qualified_value_cases[warnings]", 1);
                        continue;
                    }
                    let Ok(mods) = crate::proj::project(generated) else { continue };
                    let (Some(ma), Some(mb)) = (mods.iter().find(|m| m.name == "ma"), mods.iter().find(|m| m.name == "mb")) else { continue };
                    rep.count("qualified_value_cases_judged", 1);
                    rep.nontrivial.insert(hash_str(&srcs.join("|")));
                    let cname = ["VA", "EA", "TA", "BA"][kind];
                    if ma.find_const(cname).is_none() {
                        continue;
                    }
                    let pos = ["default", "value-assignment", "constraint-bound"][position];
                    let origin = format!("qualified-values(kind={kind},position={position},qualified={qualified},a_first={a_first})");
                    let imported = mb.uses().iter().any(|u| u.starts_with("super::ma::") && (u.ends_with("::*") || u["super::ma::".len()..].trim_start_matches('{').trim_end_matches('}').split(',').any(|x| x.trim() == cname)));
                    let mut mentioned = false;
                    for it in &mb.items {
                        if matches!(it.kind, Kind::Use(_)) {
                            continue;
                        }
                        // whole-identifier occurrences of the constant in the (white-space-free) item text
                        let text: String = it.text.chars().filter(|c| !c.is_whitespace()).collect();
                        let isid = |c: char| c.is_ascii_alphanumeric() || c == '_';
                        let mut from = 0;
                        while let Some(off) = text[from..].find(cname) {
                            let i = from + off;
                            from = i + cname.len();
                            if text[..i].chars().next_back().is_some_and(isid) || text[from..].chars().next().is_some_and(isid) {
                                continue;
                            }
                            mentioned = true;
                            rep.count("value_reference_sites_checked", 1);
                            let pathed = text[..i].ends_with("super::ma::");
                            if !pathed && !imported {
                                rep.violations.push(Violation {
                                    sig: format!("c12|value-reference|constant-of-sibling-module-not-in-scope|qualified={qualified},position={pos}"),
                                    what: format!("module Mb mentions {cname} of module Ma in `{}` without importing it or spelling `super::ma::{cname}` [{origin}]", one_line(&it.text, 160)),
                                    replay: json!({"origin": origin, "sources": srcs}),
                                });
                            }
                        }
                    }
                    if position == 2 {
                        // the bound itself must be the referenced value
                        rep.count("value_reference_sites_checked", 1);
                        let want = if kind == 0 { "0..=5" } else { "0..=7" };
                        let got = mb.find("Tb").and_then(|t| t.attrs.range("value")).map(|r| r.0);
                        if got.as_deref() != Some(want) {
                            rep.violations.push(Violation {
                                sig: format!("c12|value-reference|bound-not-the-referenced-value|qualified={qualified}"),
                                what: format!("`INTEGER (0..{})` emitted as {got:?}, expected {want} [{origin}]", if qualified { "Ma.v" } else { "v" }),
                                replay: json!({"origin": origin, "sources": srcs}),
                            });
                        }
                    } else if !mentioned {
                        rep.count("qualified_value_cases[value inlined]", 1);
                    }
                }
            }
        }
    }
}

/// An IMPORTS clause with several `FROM` parts: each part becomes a use line of its own symbols; that one part has to be
/// rendered as a glob (it names a class) says nothing about the others. Exhaustive over the position of the class-like part
/// and the spelling styles of the plain parts.
fn multi_clause_imports(rep: &mut Report) {
    let parts: [(&str, &str, &[&str]); 3] = [
        ("Mk", "KIND, Pdu-Base", &[]),
        ("Mv", "Colour, Speed, max-speed", &["Colour", "Speed", "MAX_SPEED"]),
        ("Mw", "Wheel-Count, top-gear", &["WheelCount", "TOP_GEAR"]),
    ];
    let defs = [
        "Mk DEFINITIONS AUTOMATIC TAGS ::= BEGIN\nKIND ::= CLASS { &id INTEGER UNIQUE }\nPdu-Base ::= SEQUENCE { n INTEGER }\nEND\n",
        "Mv DEFINITIONS AUTOMATIC TAGS ::= BEGIN\nColour ::= ENUMERATED { red, green }\nSpeed ::= INTEGER (0..400)\nmax-speed Speed ::= 300\nEND\n",
        "Mw DEFINITIONS AUTOMATIC TAGS ::= BEGIN\nWheel-Count ::= INTEGER (2..18)\ntop-gear INTEGER ::= 6\nEND\n",
    ];
    for order in permute(&[0, 1, 2]) {
        let clause: Vec<String> = order.iter().map(|&k| format!("{} FROM {}", parts[k].1, parts[k].0)).collect();
        let user = format!("Mu DEFINITIONS AUTOMATIC TAGS ::= BEGIN\nIMPORTS {};\nCar ::= SEQUENCE {{ paint Colour, fast Speed DEFAULT max-speed, wheels Wheel-Count, gear INTEGER DEFAULT top-gear, base Pdu-Base }}\nEND\n", clause.join("\n"));
        let mut srcs = vec![user];
        srcs.extend(defs.iter().map(|d| d.to_string()));
        let run = comp::rasn(&srcs, &Cfg::default_cfg());
        rep.evaluations += 1;
        let comp::Outcome::Ok { generated, warnings } = &run.out else {
            rep.count("multi_clause_cases[not Ok]", 1);
            continue;
        };
        if !warnings.is_empty() {
            rep.count("multi_clause_cases[warnings]", 1);
            continue;
        }
        let Ok(mods) = crate::proj::project(generated) else { continue };
        let Some(mu) = mods.iter().find(|m| m.name == "mu") else { continue };
        rep.count("multi_clause_cases_judged", 1);
        rep.nontrivial.insert(hash_str(&srcs.join("|")));
        for (mname, _, want) in parts.iter().filter(|p| !p.2.is_empty()) {
            let prefix = format!("super::{}::", mname.to_lowercase());
            let lines: Vec<String> = mu.uses().into_iter().filter(|u| u.starts_with(&prefix)).collect();
            rep.count("use_symbol_sets_compared", 1);
            let got: BTreeSet<String> = lines.iter().flat_map(|u| u[prefix.len()..].trim_start_matches('{').trim_end_matches('}').split(',').map(|s| s.trim().to_string()).collect::<Vec<_>>()).filter(|s| !s.is_empty()).collect();
            let want: BTreeSet<String> = want.iter().map(|s| s.to_string()).collect();
            if got != want {
                let pos = order.iter().position(|&k| parts[k].0 == *mname).unwrap();
                let class_pos = order.iter().position(|&k| k == 0).unwrap();
                rep.violations.push(Violation {
                    sig: format!("c12|use-lines|{}|part-{}-the-class-part", if got.contains("*") { "wildcard-for-plain-symbols" } else { "symbol-set-differs" }, if pos > class_pos { "after" } else { "before" }),
                    what: format!("IMPORTS part `.. FROM {mname}` rendered as {lines:?}, expected exactly {want:?} (clause order {:?})", order.iter().map(|&k| parts[k].0).collect::<Vec<_>>()),
                    replay: json!({"origin": format!("multi-clause-imports(order={order:?})"), "sources": srcs}),
                });
            }
        }
    }
}

/// Type bodies the linker copies into another module (COMPONENTS OF, instantiation of a parameterized type) keep the
/// tagging default of the module they are written in: exhaustive over defining default x using default x copying form x
/// SEQUENCE/SET x source order. Judged by comparing the tag annotation of each copied member with the annotation of the
/// same member inside the defining module.
fn copied_body_sources(da: &str, db: &str, form: &str, kw: &str) -> (Vec<String>, &'static str) {
    let a = format!(
        "Ma DEFINITIONS {da} ::= BEGIN\nEXPORTS ALL;\nBase ::= {kw} {{ xa [0] INTEGER, ya [1] BOOLEAN OPTIONAL, za [2] {kw} {{ pa INTEGER, qa BOOLEAN OPTIONAL }} }}\nPar {{ Tp }} ::= {kw} {{ xa [0] Tp, ya [1] BOOLEAN OPTIONAL, za [2] {kw} {{ pa INTEGER, qa BOOLEAN OPTIONAL }} }}\nHome ::= Par {{ INTEGER }}\nEND\n"
    );
    let b = match form {
        "components-of" => format!("Mb DEFINITIONS {db} ::= BEGIN\nIMPORTS Base FROM Ma;\nCopy ::= {kw} {{ zb [7] NULL, COMPONENTS OF Base }}\nEND\n"),
        _ => format!("Mb DEFINITIONS {db} ::= BEGIN\nIMPORTS Par{{}} FROM Ma;\nCopy ::= Par {{ INTEGER }}\nEND\n"),
    };
    (vec![a, b], if form == "components-of" { "Base" } else { "Home" })
}

fn copied_bodies(rep: &mut Report) {
    let defaults = ["EXPLICIT TAGS", "IMPLICIT TAGS", "AUTOMATIC TAGS"];
    for da in defaults {
        for db in ["EXPLICIT TAGS", "IMPLICIT TAGS"] {
            for form in ["components-of", "parameterized"] {
                for kw in ["SEQUENCE", "SET"] {
                    for a_first in [true, false] {
                        let (ab, home) = copied_body_sources(da, db, form, kw);
                        let (a, b) = (ab[0].clone(), ab[1].clone());
                        let srcs = if a_first { vec![a.clone(), b.clone()] } else { vec![b.clone(), a.clone()] };
                        let run = comp::rasn(&srcs, &Cfg::default_cfg());
                        rep.evaluations += 1;
                        let comp::Outcome::Ok { generated, warnings } = &run.out else {
                            rep.count("copied_body_cases[not Ok]", 1);
                            continue;
                        };
                        if !warnings.is_empty() {
                            rep.count("copied_body_cases[warnings]", 1);
                            continue;
                        }
                        let Ok(mods) = crate::proj::project(generated) else { continue };
                        let (Some(ma), Some(mb)) = (mods.iter().find(|m| m.name == "ma"), mods.iter().find(|m| m.name == "mb")) else { continue };
                        let (Some(orig), Some(copy)) = (ma.find(home), mb.find("Copy")) else {
                            rep.count("copied_body_cases[item absent]", 1);
                            continue;
                        };
                        let (crate::proj::Kind::Struct { fields: fo, .. }, crate::proj::Kind::Struct { fields: fc, .. }) = (&orig.kind, &copy.kind) else { continue };
                        rep.count("copied_body_cases_judged", 1);
                        rep.nontrivial.insert(hash_str(&srcs.join("|")));
                        // the anonymous nested type travels with the body: its hoisted copy is tagged automatically iff the
                        // *defining* module says AUTOMATIC TAGS
                        let hoisted = |m: &Module, owner: &crate::proj::Item| -> Option<bool> {
                            let crate::proj::Kind::Struct { fields, .. } = &owner.kind else { return None };
                            let ty = fields.iter().find(|f| f.name == "za")?.ty.clone();
                            m.find(&ty).map(|i| i.attrs.has("automatic_tags"))
                        };
                        if let (Some(a_auto), Some(b_auto)) = (hoisted(ma, orig), hoisted(mb, copy)) {
                            rep.count("copied_member_tags_compared", 1);
                            if a_auto != b_auto {
                                rep.violations.push(Violation {
                                    sig: format!("c12|tagging-default-leaks-into-copied-body|{form}|nested-anonymous-type|defining={},using={}", da.split(' ').next().unwrap(), db.split(' ').next().unwrap()),
                                    what: format!("the anonymous type of member za is tagged automatically = {a_auto} inside Ma.{home}, = {b_auto} in its copy inside Mb.Copy ({form})"),
                                    replay: json!({"origin": format!("copied-body({da},{db},{form},{kw},a_first={a_first})"), "sources": srcs}),
                                });
                            }
                        }
                        for f in fo {
                            let Some(c) = fc.iter().find(|x| x.name == f.name) else { continue };
                            rep.count("copied_member_tags_compared", 1);
                            if f.attrs.tag() != c.attrs.tag() {
                                rep.violations.push(Violation {
                                    sig: format!("c12|tagging-default-leaks-into-copied-body|{form}|defining={},using={}", da.split(' ').next().unwrap(), db.split(' ').next().unwrap()),
                                    what: format!("member {} of Ma.{home} carries {:?}; its copy in Mb.Copy ({form}) carries {:?}", f.name, f.attrs.tag(), c.attrs.tag()),
                                    replay: json!({"origin": format!("copied-body({da},{db},{form},{kw},a_first={a_first})"), "sources": srcs}),
                                });
                            }
                        }
                    }
                }
            }
        }
    }
}

/// sources of the template workloads (also type-checked by C01): even = name styles, odd = cross-module cycles
pub fn template_sources(seed: u64, i: u64) -> Vec<String> {
    if i % 8 == 5 {
        // SEQUENCE OF / SET OF whose element is a constrained type reference (top level, component, alternative), and an
        // IMPORTS clause with several FROM parts of which the first names a class
        let k = i / 8;
        let (c1, c2) = [("(0..20)", "(SIZE (1..8))"), ("(5 | 7)", "(SIZE (2))"), ("(MIN..50)", "(SIZE (0..3, ...))")][(k % 3) as usize];
        return vec![
            format!("Ml DEFINITIONS AUTOMATIC TAGS ::= BEGIN\nIMPORTS KIND, Pdu-Base FROM Mk  Colour, Speed, max-speed FROM Mv;\nPercent ::= INTEGER (0..100)\nLabel ::= IA5String\nLq1 ::= SEQUENCE OF Percent {c1}\nLq2 ::= SET OF Label {c2}\nHolder ::= SEQUENCE {{ items SEQUENCE OF Percent {c1}, tags SET OF Label {c2} OPTIONAL, paint Colour, fast Speed DEFAULT max-speed, base Pdu-Base }}\nPick ::= CHOICE {{ many SEQUENCE OF Percent {c1}, one Percent }}\nEND\n"),
            "Mk DEFINITIONS AUTOMATIC TAGS ::= BEGIN\nKIND ::= CLASS { &id INTEGER UNIQUE }\nPdu-Base ::= SEQUENCE { n INTEGER }\nEND\n".to_string(),
            "Mv DEFINITIONS AUTOMATIC TAGS ::= BEGIN\nColour ::= ENUMERATED { red, green }\nSpeed ::= INTEGER (0..400)\nmax-speed Speed ::= 300\nEND\n".to_string(),
        ];
    }
    if i % 8 == 1 {
        // automatic tagging decided per type: a tagged component *inside* an anonymous nested type does not switch it off
        // for the enclosing type (whose untagged OPTIONAL neighbours of one type rely on it), and the other way round
        let k = i / 8;
        let kw = if k % 2 == 0 { "SEQUENCE" } else { "SET" };
        let (n1, n2) = [(3, 4), (0, 1), (7, 0)][(k / 2 % 3) as usize];
        return vec![format!(
            "Mn DEFINITIONS AUTOMATIC TAGS ::= BEGIN\nOuter ::= {kw} {{ inner {kw} {{ a [{n1}] INTEGER, b [{n2}] BOOLEAN }}, x INTEGER OPTIONAL, y INTEGER OPTIONAL }}\nOuterCh ::= CHOICE {{ inner CHOICE {{ a [{n1}] INTEGER, b [{n2}] INTEGER }}, x INTEGER, y INTEGER }}\nTaggedOuter ::= {kw} {{ inner [{n1}] {kw} {{ a INTEGER OPTIONAL, b INTEGER OPTIONAL }}, x [{n2}] BOOLEAN }}\nEND\n"
        )];
    }
    if i % 8 == 7 {
        // type bodies copied across modules with differing tagging defaults (COMPONENTS OF, imported parameterized type)
        let k = i / 8;
        let d = ["EXPLICIT TAGS", "IMPLICIT TAGS", "AUTOMATIC TAGS"];
        let (da, db, kw) = (d[((k / 2) % 3) as usize], d[((k / 6) % 2) as usize], if (k / 12) % 2 == 0 { "SEQUENCE" } else { "SET" });
        let (srcs, _) = copied_body_sources(da, db, if k % 2 == 1 { "components-of" } else { "parameterized" }, kw);
        return srcs;
    }
    match i % 3 {
        0 => {
            let (a, b, _, _, _) = name_style_case(seed, i / 3);
            vec![a, b]
        }
        1 => cycle_case(seed, i / 3).0,
        _ => {
            // an information object set used in a table constraint (other generator paths when open types are not opaque);
            // the type field's name carries a hyphen in half of the cases
            let f = if (i / 3) % 2 == 0 { "Type-Field" } else { "TypeField" };
            vec![format!(
                "Mo DEFINITIONS AUTOMATIC TAGS ::= BEGIN\nCLSX ::= CLASS {{ &id INTEGER UNIQUE, &{f} }} WITH SYNTAX {{ ID &id TYPE &{f} }}\noa CLSX ::= {{ ID 1 TYPE INTEGER }}\nob CLSX ::= {{ ID 2 TYPE BOOLEAN }}\nSetX CLSX ::= {{ oa | ob }}\nUq1 ::= SEQUENCE {{ id CLSX.&id ({{SetX}}), val CLSX.&{f} ({{SetX}}{{@id}}) }}\nEND\n"
            )]
        }
    }
}

/// A reference cycle through 2..3 modules whose references are written module-qualified or plain (imported), in every
/// position that can close a cycle (OPTIONAL component, CHOICE alternative, SEQUENCE OF element). Returns the sources and,
/// per module, (type name, referenced module, referenced type, written qualified).
fn cycle_case(seed: u64, i: u64) -> (Vec<String>, Vec<(String, String, String, String, bool)>) {
    let mut rng = Rng::for_case(seed, 1213, i);
    let n = 2 + rng.below(2);
    let names = ["Tree", "Branch", "Leaf-Set"];
    let mods = ["Mod-A", "Mod-B", "Mod-C"];
    let mut srcs = vec![];
    let mut facts = vec![];
    for k in 0..n {
        let next = (k + 1) % n;
        let qualified = rng.chance(2, 3);
        let r = if qualified { format!("{}.{}", mods[next], names[next]) } else { names[next].to_string() };
        // every component / alternative carries its own context tag: an untagged CHOICE reached through another untagged
        // CHOICE would make the alternatives' tags collide (illegal ASN.1), and a cycle of untagged CHOICEs has no tag at all
        let body = match rng.below(4) {
            0 => format!("SEQUENCE {{ next [0] {r} OPTIONAL, weight [1] INTEGER }}"),
            1 => format!("CHOICE {{ node [0] {r}, leaf [1] NULL }}"),
            2 => format!("SET {{ next [0] {r} OPTIONAL, flag [1] BOOLEAN }}"),
            _ => format!("SEQUENCE {{ children [0] SEQUENCE OF {r}, label [1] UTF8String }}"),
        };
        let tagging = *rng.pick(&["AUTOMATIC TAGS", "IMPLICIT TAGS", "EXPLICIT TAGS"]);
        // in a module without automatic tagging the two components need distinct tags: they have (context vs universal)
        srcs.push(format!("{} DEFINITIONS {tagging} ::= BEGIN IMPORTS {} FROM {};\n{} ::= {body}\nEND\n", mods[k], names[next], mods[next], names[k]));
        facts.push((mods[k].to_string(), names[k].to_string(), mods[next].to_string(), names[next].to_string(), qualified));
    }
    (srcs, facts)
}

fn cross_module_cycles(seed: u64, n: u64, rep: &mut Report) {
    let title = |s: &str| -> String {
        let mut out = String::new();
        let mut up = true;
        for c in s.chars() {
            if c == '-' {
                up = true;
            } else if up {
                out.push(c.to_ascii_uppercase());
                up = false;
            } else {
                out.push(c);
            }
        }
        out
    };
    for i in 0..n {
        let (srcs, facts) = cycle_case(seed, i);
        let run = comp::rasn(&srcs, &Cfg::default_cfg());
        rep.evaluations += 1;
        let comp::Outcome::Ok { generated, warnings } = &run.out else {
            rep.count("cycle_cases[not Ok]", 1);
            continue;
        };
        if !warnings.is_empty() {
            rep.count("cycle_cases[warnings]", 1);
            continue;
        }
        let Ok(mods) = crate::proj::project(generated) else { continue };
        rep.count("cycle_cases_judged", 1);
        rep.nontrivial.insert(hash_str(&srcs.join("|")));
        let origin = format!("cross-module-cycle(seed={seed},idx={i})");
        for (m, t, m2, t2, qualified) in &facts {
            let Some(rm) = mods.iter().find(|x| x.name == rust_mod_name(m)) else { continue };
            let Some(it) = rm.find(&title(t)) else {
                rep.violations.push(Violation { sig: "c12|cycle|type-item-missing".into(), what: format!("{m}.{t} has no item [{origin}]"), replay: json!({"origin": origin, "sources": srcs}) });
                continue;
            };
            // the (only) mention of the referenced type inside the item
            let want_path = format!("super::{}::{}", rust_mod_name(m2), title(t2));
            let text: String = it.text.chars().filter(|c| !c.is_whitespace()).collect();
            let mentions_path = text.contains(&want_path);
            let mentions_plain = text.replace(&want_path, "").contains(&title(t2));
            rep.count("qualified_reference_sites_checked", 1);
            if *qualified && !mentions_path {
                rep.violations.push(Violation { sig: format!("c12|cycle|qualified-reference-not-qualified|boxed={}", text.contains("Box<")), what: format!("{m}.{t} refers to {m2}.{t2} module-qualified, the item spells it without `{want_path}`: {} [{origin}]", one_line(&it.text, 200)), replay: json!({"origin": origin, "sources": srcs}) });
            }
            if !*qualified && !mentions_plain && !mentions_path {
                rep.violations.push(Violation { sig: "c12|cycle|reference-missing".into(), what: format!("{m}.{t} refers to {t2}, the item does not mention it: {} [{origin}]", one_line(&it.text, 200)), replay: json!({"origin": origin, "sources": srcs}) });
            }
        }
    }
}

fn name_style_case(seed: u64, i: u64) -> (String, String, Vec<String>, Vec<String>, Option<String>) {
    const MIXED: [&str; 5] = ["Ab", "Flag-1", "E2ap", "Key-Usage", "X509v3"];
    const CAPS_DIGITS: [&str; 6] = ["E2", "X509", "SHA256", "UE-ID-2", "T1", "IPV4"];
    const CAPS_ONLY: [&str; 4] = ["UUID", "IMSI", "PLMN-ID", "T"];
    const VALUES: [&str; 2] = ["limit-2", "maxChain"];
    let mut rng = Rng::for_case(seed, 1212, i);
    let mut pool: Vec<&str> = MIXED.iter().chain(CAPS_DIGITS.iter()).copied().collect();
    // class-like spellings in a third of the cases only (they switch the whole clause to a glob)
    if rng.chance(1, 3) {
        pool.extend(CAPS_ONLY.iter());
    }
    rng.shuffle(&mut pool);
    let k = 1 + rng.below(4);
    let types: Vec<String> = pool[..k].iter().map(|s| s.to_string()).collect();
    let value = if rng.chance(1, 2) { Some(rng.pick(&VALUES).to_string()) } else { None };
    let mut b = String::from("Nb DEFINITIONS AUTOMATIC TAGS ::= BEGIN\n");
    for t in MIXED.iter().chain(CAPS_DIGITS.iter()).chain(CAPS_ONLY.iter()) {
        b.push_str(&format!("{t} ::= INTEGER (0..{})\n", 10 + t.len()));
    }
    for v in VALUES {
        b.push_str(&format!("{v} INTEGER ::= 7\n"));
    }
    b.push_str("END\n");
    let mut syms: Vec<String> = types.clone();
    syms.extend(value.iter().cloned());
    let mut a = format!("Na DEFINITIONS AUTOMATIC TAGS ::= BEGIN IMPORTS {} FROM Nb;\nTq1 ::= SEQUENCE {{ ", syms.join(", "));
    for (j, t) in types.iter().enumerate() {
        a.push_str(&format!("fq{j} {t}, "));
    }
    a.push_str(&format!("fq9 INTEGER{} }}\nEND\n", value.as_ref().map_or(String::new(), |v| format!(" DEFAULT {v}"))));
    (a, b, types, syms, value)
}

/// Imported names of every spelling style. The generator's own names are all of one style (`Tq<n>`, `vq<n>`), but the
/// backend decides how to render an IMPORTS clause from the *spelling* of the symbols: a clause containing a name made
/// only of capitals and hyphens is taken for an information object class reference and (documented) rendered as a glob
/// import; every other clause must list exactly its symbols.
fn name_styles(seed: u64, n: u64, rep: &mut Report) {
    for i in 0..n {
        let (a, b, types, syms, _value) = name_style_case(seed, i);
        let run = comp::rasn(&[a.clone(), b.clone()], &Cfg::default_cfg());
        rep.evaluations += 1;
        let comp::Outcome::Ok { generated, warnings } = &run.out else {
            rep.count("name_style_cases[not Ok]", 1);
            continue;
        };
        if !warnings.is_empty() {
            rep.count("name_style_cases[warnings]", 1);
            continue;
        }
        let Ok(mods) = crate::proj::project(generated) else { continue };
        let Some(na) = mods.iter().find(|m| m.name == "na") else { continue };
        rep.count("name_style_cases_judged", 1);
        rep.nontrivial.insert(hash_str(&a));
        let uses: Vec<String> = na.uses().into_iter().filter(|u| u.starts_with("super::nb")).collect();
        let mut got: BTreeSet<String> = BTreeSet::new();
        for u in &uses {
            let rest = u.trim_start_matches("super::nb::");
            got.extend(rest.trim_start_matches('{').trim_end_matches('}').split(',').map(|s| s.trim().to_string()).filter(|s| !s.is_empty()));
        }
        let class_like = types.iter().any(|t| t.chars().all(|c| c.is_ascii_uppercase() || c == '-'));
        let origin = format!("name-styles(seed={seed},idx={i})");
        // compared through the normalisation relation of C16 (drop `_` and `-`, lower-case): the exact mangled spelling is
        // C16's subject, here only *which* symbols are imported matters
        let norm = |x: &str| x.chars().filter(|c| *c != '_' && *c != '-').collect::<String>().to_lowercase();
        let expect: BTreeSet<String> = syms.iter().map(|s| norm(s)).collect();
        let got: BTreeSet<String> = got.iter().map(|g| if g == "*" { g.clone() } else { norm(g) }).collect();
        let style = |t: &str| if t.chars().all(|c| c.is_ascii_uppercase() || c == '-') { "capitals" } else if !t.chars().any(|c| c.is_ascii_lowercase()) { "capitals+digits" } else if t.starts_with(|c: char| c.is_lowercase()) { "value" } else { "mixed-case" };
        if got.contains("*") {
            if !class_like {
                let st: BTreeSet<&str> = syms.iter().map(|s| style(s)).collect();
                rep.violations.push(Violation { sig: format!("c12|use-lines|wildcard-for-plain-symbols|styles={}", st.into_iter().collect::<Vec<_>>().join("+")), what: format!("IMPORTS {syms:?} FROM Nb rendered as {uses:?}: none of the symbols is spelled like a class reference [{origin}]"), replay: json!({"origin": origin, "sources": [a, b]}) });
            }
            continue;
        }
        let missing: Vec<&String> = expect.difference(&got).collect();
        let extra: Vec<&String> = got.difference(&expect).collect();
        if !missing.is_empty() || !extra.is_empty() {
            let st: BTreeSet<&str> = syms.iter().filter(|s| missing.iter().any(|m| **m == norm(s))).map(|s| style(s)).collect();
            rep.violations.push(Violation {
                sig: format!("c12|use-lines|{}|styles={}", if !missing.is_empty() { "imported-symbol-missing" } else { "symbol-not-in-imports" }, st.into_iter().collect::<Vec<_>>().join("+")),
                what: format!("IMPORTS {syms:?} FROM Nb rendered as {uses:?}: missing {missing:?}, extra {extra:?} [{origin}]"),
                replay: json!({"origin": origin, "sources": [a, b]}),
            });
        }
    }
}
