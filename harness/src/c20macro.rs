//! C20, `asn1!` part: the proc macro's expansion equals the library's compile_to_string() output for the (possibly
//! wrapped) literal, and the macro fails exactly when the library returns Err.
//! Observation: one crate under /verif/gen-ws/c20macro holds, per case k, `mod mac_k { asn1!(<literal>); }` and - when the
//! library compiles the literal - `mod lib_k { include!("lib_k.rs"); }` with the library's text; the crate is expanded by the
//! real rustc (`cargo +nightly rustc -- -Zunpretty=expanded`, proc macro built from /repo's working tree). Both modules go
//! through the same rasn derive expansion, so after expansion their items must be equal (token-normalised, `use`
//! declarations as a set: inside cargo the macro finds rustfmt, which may reorder imports). A "proc macro panicked"
//! diagnostic whose span lies on the line of mac_k is the observation "the macro failed".
use crate::comp;
use crate::core::*;
use crate::gen::{self, GenOpts};
use crate::proj;
use serde_json::{json, Value};
use std::collections::BTreeMap;
use std::process::{Command, Stdio};

/// the wrapping rule of the macro, as documented: a literal without a module header is put into a dummy AUTOMATIC TAGS
/// module. The reference wraps *correctly* - header, the literal on lines of its own, END - so that a literal which does not
/// end in a line break (`"Foo ::= Bar"`) or ends in a `--` comment is still followed by the END keyword.
fn wrapped(lit: &str) -> String {
    if lit.contains("BEGIN") {
        lit.to_string()
    } else {
        format!("asn1 {{ dummy(999) header(999) }}\n\nDEFINITIONS AUTOMATIC TAGS::= BEGIN\n{lit}\nEND")
    }
}

fn ws_dir() -> std::path::PathBuf {
    std::path::PathBuf::from(format!("{VERIF_DIR}/gen-ws/c20macro"))
}

fn prepare() -> Result<(), String> {
    let d = ws_dir();
    std::fs::create_dir_all(d.join("src")).map_err(|e| e.to_string())?;
    let _ = std::fs::copy(format!("{REPO_DIR}/Cargo.lock"), d.join("Cargo.lock"));
    std::fs::write(
        d.join("Cargo.toml"),
        format!("[package]\nname = \"macro-batch\"\nversion = \"0.0.0\"\nedition = \"2021\"\n\n[workspace]\n\n[lib]\npath = \"src/lib.rs\"\n\n[dependencies]\nrasn = \"0.27\"\nrasn-compiler-derive = {{ path = \"{REPO_DIR}/rasn-compiler-derive\" }}\n\n[profile.dev]\ndebug = 0\nincremental = false\n"),
    )
    .map_err(|e| e.to_string())
}

/// expands the crate; returns (expanded text, lines of src/lib.rs on which a proc macro panicked)
fn expand() -> Result<(String, Vec<usize>), String> {
    let d = ws_dir();
    let out = Command::new("cargo")
        .args(["+nightly", "rustc", "--offline", "--lib", "--message-format=json", "--", "-Zunpretty=expanded"])
        .current_dir(&d)
        .env("CARGO_NET_OFFLINE", "true")
        .env("CARGO_TARGET_DIR", d.join("target"))
        .stdin(Stdio::null())
        .stdout(Stdio::piped())
        .stderr(Stdio::piped())
        .output()
        .map_err(|e| format!("cannot run cargo: {e}"))?;
    let mut text = String::new();
    let mut panicked = vec![];
    let mut other_errors = vec![];
    for line in String::from_utf8_lossy(&out.stdout).lines() {
        if let Ok(v) = serde_json::from_str::<Value>(line) {
            if v.get("reason").is_some() {
                if v["reason"] == "compiler-message" && v["message"]["level"] == "error" {
                    let m = &v["message"];
                    let msg = m["message"].as_str().unwrap_or("");
                    if msg.contains("proc macro panicked") || msg.contains("proc-macro panicked") {
                        for s in m["spans"].as_array().into_iter().flatten() {
                            if s["file_name"].as_str().is_some_and(|f| f.ends_with("src/lib.rs")) {
                                panicked.push(s["line_start"].as_u64().unwrap_or(0) as usize);
                            }
                        }
                    } else if !msg.starts_with("aborting due to") {
                        other_errors.push(one_line(msg, 160));
                    }
                }
                continue;
            }
        }
        text.push_str(line);
        text.push('\n');
    }
    if text.trim().is_empty() {
        return Err(format!("no expansion printed: {} {}", other_errors.join("; "), one_line(&String::from_utf8_lossy(&out.stderr), 300)));
    }
    Ok((text, panicked))
}

/// `vcheck C20-macro-ref <dir>`: for every literal of <dir>/lits.json writes <dir>/src/lib_<k>.rs (library output) when the
/// compilation succeeds, and <dir>/ref.json with the statuses
pub fn reference_child(args: &[String]) -> ! {
    let dir = std::path::PathBuf::from(&args[0]);
    let lits: Vec<String> = serde_json::from_str(&std::fs::read_to_string(dir.join("lits.json")).expect("lits.json")).expect("json");
    let mut status = vec![];
    for (k, lit) in lits.iter().enumerate() {
        let run = comp::rasn1(&wrapped(lit));
        match &run.out {
            comp::Outcome::Ok { generated, .. } => {
                let _ = std::fs::write(dir.join(format!("src/lib_{k}.rs")), generated);
                status.push("Ok");
            }
            comp::Outcome::Err { .. } => status.push("Err"),
            comp::Outcome::Panic(_) => status.push("Panic"),
        }
    }
    let _ = std::fs::write(dir.join("ref.json"), serde_json::to_string(&status).unwrap());
    std::process::exit(0)
}

/// the nightly toolchain's cargo (what `CARGO` is for a proc macro expanded under `cargo +nightly`)
fn nightly_cargo() -> Option<String> {
    let o = Command::new("rustup").args(["which", "cargo", "--toolchain", "nightly"]).output().ok()?;
    let p = String::from_utf8_lossy(&o.stdout).trim().to_string();
    (o.status.success() && !p.is_empty()).then_some(p)
}

pub fn warm() -> Result<(), String> {
    prepare()?;
    std::fs::write(ws_dir().join("src/lib.rs"), "#![allow(warnings)]\npub mod mac_0 { rasn_compiler_derive::asn1!(\"Tw ::= BOOLEAN\"); }\n").map_err(|e| e.to_string())?;
    expand().map(|_| ())
}

/// items of `pub mod <name> { .. }` at the top level of the expanded crate: (use declarations as a sorted set, other items sorted)
/// token-normalised text with the one thing rustfmt may change inside token trees removed: a comma directly before a closing
/// delimiter (inside cargo the macro's compile_to_string finds rustfmt; the library reference is taken without it)
fn nt<T: quote::ToTokens>(t: &T) -> String {
    let s = proj::norm(t);
    let mut out = String::with_capacity(s.len());
    let cs: Vec<char> = s.chars().collect();
    let mut i = 0;
    while i < cs.len() {
        if cs[i] == ',' {
            let mut j = i + 1;
            while j < cs.len() && cs[j].is_whitespace() {
                j += 1;
            }
            if j < cs.len() && matches!(cs[j], ')' | ']' | '}') {
                i += 1;
                continue;
            }
        }
        // the rasn derive names a lifetime of its inner struct after a random number (`'inner3189375...`), anew on every expansion
        if cs[i].is_ascii_digit() && out.ends_with("'inner") {
            while i < cs.len() && cs[i].is_ascii_digit() {
                i += 1;
            }
            out.push('N');
            continue;
        }
        out.push(cs[i]);
        i += 1;
    }
    out
}

fn module_items(file: &syn::File, name: &str) -> Option<(Vec<String>, Vec<String>)> {
    fn flatten(items: &[syn::Item], uses: &mut Vec<String>, others: &mut Vec<String>, path: &str) {
        for it in items {
            match it {
                syn::Item::Mod(m) => {
                    let p = format!("{path}::{}", m.ident);
                    others.push(format!("mod {p} [{}]", m.attrs.iter().map(nt).collect::<Vec<_>>().join("")));
                    if let Some((_, inner)) = &m.content {
                        flatten(inner, uses, others, &p);
                    }
                }
                syn::Item::Use(u) => uses.push(format!("{path}: {}", nt(u))),
                other => others.push(format!("{path}: {}", nt(other))),
            }
        }
    }
    for it in &file.items {
        if let syn::Item::Mod(m) = it {
            if m.ident == name {
                let (mut uses, mut others) = (vec![], vec![]);
                flatten(m.content.as_ref().map(|c| c.1.as_slice()).unwrap_or(&[]), &mut uses, &mut others, "");
                uses.sort();
                others.sort();
                return Some((uses, others));
            }
        }
    }
    None
}

fn opts() -> GenOpts {
    GenOpts { modules: (1, 1), assigns: (1, 6), max_depth: 2, max_comps: 4, structured_values: false, ..GenOpts::default() }
}

/// literal k of a batch: (text, what it is)
fn literal(seed: u64, k: u64) -> (String, &'static str) {
    let mut rng = Rng::for_case(seed, 2020, k);
    let set = gen::random_set(seed, 2021, k, &opts());
    let full = set.render().text;
    match k % 6 {
        // a whole module, as it is
        0 | 1 => (full, "module"),
        // assignments only (no header): the macro wraps them
        2 | 3 => {
            let body = full.split_once("BEGIN").map(|x| x.1).unwrap_or("").rsplit_once("END").map(|x| x.0).unwrap_or("").to_string();
            // an IMPORTS / EXPORTS clause cannot stand without its header
            if body.contains("IMPORTS") || body.contains("EXPORTS") {
                (full, "module")
            } else {
                (body, "assignments-only")
            }
        }
        // malformed: cut somewhere
        4 => {
            let mut cut = rng.below(full.len().max(1));
            while !full.is_char_boundary(cut) {
                cut -= 1;
            }
            (full[..cut].to_string(), "truncated")
        }
        // header-less literals that do not end in a line break: the last token, or a trailing line comment, must not run into
        // whatever the macro appends
        5 if k % 12 == 5 => (if rng.chance(1, 2) { "Foo ::= BOOLEAN  Bar ::= Foo".to_string() } else { "Foo ::= INTEGER (0..7) -- the last line is a comment".to_string() }, "no-final-line-break"),
        // characters that need escaping in a Rust string literal, inside comments and a string value
        _ => (format!("Tx ::= SEQUENCE {{ a INTEGER, -- \"quoted\" \\ back\\slash 中\n b UTF8String }}\nvx UTF8String ::= \"say \"\"hi\"\" \\ ü\"\n"), "escapes"),
    }
}

pub fn run(ctx: &Ctx, rep: &mut Report) {
    let batches = ctx.pick(1u64, 6);
    let per_batch = ctx.pick(18u64, 48);
    if let Err(e) = prepare() {
        rep.inconclusive.push(format!("asn1! workspace: {e}"));
        return;
    }
    for b in 0..batches {
        let lits: Vec<(String, &'static str)> = (0..per_batch).map(|k| literal(ctx.seed, b * 1000 + k)).collect();
        let mut lib_rs = String::from("#![allow(warnings)]\nextern crate alloc;\n");
        let mut mac_line: BTreeMap<usize, usize> = BTreeMap::new();
        let mut lib_ok: BTreeMap<usize, bool> = BTreeMap::new();
        // the library's text, taken in a child process in which the compiler finds the rustfmt the macro will find
        let _ = std::fs::write(ws_dir().join("lits.json"), serde_json::to_string(&lits.iter().map(|l| l.0.clone()).collect::<Vec<_>>()).unwrap());
        let _ = std::fs::remove_file(ws_dir().join("ref.json"));
        let Some(cargo) = nightly_cargo() else {
            rep.inconclusive.push("asn1!: no nightly toolchain (rustup which cargo --toolchain nightly)".into());
            return;
        };
        let exe = std::env::current_exe().expect("current_exe");
        let _ = Command::new(exe).args(["C20-macro-ref", ws_dir().to_str().unwrap()]).env("VCHECK_CARGO", &cargo).stdin(Stdio::null()).stdout(Stdio::null()).stderr(Stdio::null()).status();
        let statuses: Vec<String> = std::fs::read_to_string(ws_dir().join("ref.json")).ok().and_then(|s| serde_json::from_str(&s).ok()).unwrap_or_default();
        if statuses.len() != lits.len() {
            rep.inconclusive.push("asn1!: reference child did not finish".into());
            return;
        }
        for (k, (lit, _)) in lits.iter().enumerate() {
            rep.evaluations += 1;
            let ok = statuses[k] == "Ok";
            lib_ok.insert(k, ok);
            // one line per module, so that a diagnostic's line names the case ({:?} of a str is a valid Rust string literal)
            lib_rs.push_str(&format!("pub mod mac_{k} {{ rasn_compiler_derive::asn1!({:?}); }}\n", lit));
            mac_line.insert(lib_rs.lines().count(), k);
            if ok {
                lib_rs.push_str(&format!("pub mod lib_{k} {{ include!(\"lib_{k}.rs\"); }}\n"));
            }
        }
        if std::fs::write(ws_dir().join("src/lib.rs"), &lib_rs).is_err() {
            rep.inconclusive.push("asn1! workspace: cannot write lib.rs".into());
            return;
        }
        let (text, panicked) = match expand() {
            Ok(x) => x,
            Err(e) => {
                rep.inconclusive.push(format!("asn1! expansion inconclusive: {}", one_line(&e, 300)));
                return;
            }
        };
        let file = match syn::parse_file(&text) {
            Ok(f) => f,
            Err(e) => {
                rep.inconclusive.push(format!("asn1! expansion does not parse: {e}"));
                return;
            }
        };
        let failed: Vec<usize> = panicked.iter().filter_map(|l| mac_line.get(l).copied()).collect();
        for (k, (lit, what)) in lits.iter().enumerate() {
            rep.count("macro_expansions_observed", 1);
            rep.count(&format!("macro_expansions_observed[{what}]"), 1);
            rep.nontrivial.insert(hash_str(&format!("asn1!|{lit}")));
            let mac_failed = failed.contains(&k);
            let ok = lib_ok[&k];
            let replay = json!({"literal": lit, "kind": what, "library": if ok { "Ok" } else { "Err" }, "macro": if mac_failed { "failed" } else { "expanded" }});
            if mac_failed == ok {
                rep.violations.push(Violation {
                    sig: format!("c20|asn1-macro|{}|{what}", if ok { "macro-fails-although-library-ok" } else { "macro-expands-although-library-err" }),
                    what: format!("asn1!({}) {} while compile_to_string of the {}literal is {}", one_line(&format!("{lit:?}"), 120), if mac_failed { "fails" } else { "expands" }, if lit.contains("BEGIN") { "" } else { "wrapped " }, if ok { "Ok" } else { "Err" }),
                    replay,
                });
                continue;
            }
            if !ok {
                rep.count("macro_failures_matching_library_err", 1);
                continue;
            }
            let (Some(m), Some(l)) = (module_items(&file, &format!("mac_{k}")), module_items(&file, &format!("lib_{k}"))) else {
                rep.inconclusive.push(format!("asn1! case {k}: module missing in the expansion"));
                continue;
            };
            rep.count("macro_expansions_compared", 1);
            if m != l {
                let first = m.1.iter().zip(l.1.iter()).find(|(a, b)| a != b).map(|(a, b)| {
                    // a window around the first differing character
                    let i = a.chars().zip(b.chars()).position(|(x, y)| x != y).unwrap_or(a.chars().count().min(b.chars().count()));
                    let w = |t: &str| t.chars().skip(i.saturating_sub(60)).take(140).collect::<String>();
                    format!("`{}` ... `{}` vs `{}`", one_line(a, 60), w(a), w(b))
                }).unwrap_or_else(|| format!("{} vs {} items, use sets {:?} vs {:?}", m.1.len(), l.1.len(), m.0, l.0));
                rep.violations.push(Violation { sig: format!("c20|asn1-macro|expansion-differs-from-library-output|{what}"), what: format!("asn1!({}): {first}", one_line(&format!("{lit:?}"), 100)), replay });
            }
        }
    }
}
