//! Generator G: spec-side model of module sets (DESIGN.md §3), random construction, token rendering.
use crate::core::{hash_str, Rng};
use std::collections::BTreeMap;

#[derive(Clone, Copy, Debug, PartialEq, Eq, Hash, PartialOrd, Ord)]
pub enum Tagging {
    Explicit,
    Implicit,
    Automatic,
    None,
}
impl Tagging {
    pub fn all() -> [Tagging; 4] {
        [Tagging::Explicit, Tagging::Implicit, Tagging::Automatic, Tagging::None]
    }
    pub fn clause(&self) -> &'static str {
        match self {
            Tagging::Explicit => "EXPLICIT TAGS",
            Tagging::Implicit => "IMPLICIT TAGS",
            Tagging::Automatic => "AUTOMATIC TAGS",
            Tagging::None => "",
        }
    }
    pub fn is_automatic(&self) -> bool {
        *self == Tagging::Automatic
    }
}

#[derive(Clone, Copy, Debug, PartialEq, Eq, Hash, PartialOrd, Ord)]
pub enum TagClass {
    Context,
    Application,
    Private,
    Universal,
}
impl TagClass {
    pub fn kw(&self) -> &'static str {
        match self {
            TagClass::Context => "",
            TagClass::Application => "APPLICATION",
            TagClass::Private => "PRIVATE",
            TagClass::Universal => "UNIVERSAL",
        }
    }
    pub fn rust(&self) -> &'static str {
        match self {
            TagClass::Context => "context",
            TagClass::Application => "application",
            TagClass::Private => "private",
            TagClass::Universal => "universal",
        }
    }
}

#[derive(Clone, Copy, Debug, PartialEq, Eq, Hash)]
pub enum TagMode {
    NoKeyword,
    Implicit,
    Explicit,
}

#[derive(Clone, Debug, PartialEq, Eq, Hash)]
pub struct Tag {
    pub class: TagClass,
    pub num: u32,
    pub mode: TagMode,
}

#[derive(Clone, Copy, Debug, PartialEq, Eq, Hash, PartialOrd, Ord)]
pub enum StrKind {
    Numeric,
    Printable,
    Visible,
    Ia5,
    Bmp,
    Universal,
    Utf8,
    General,
    Graphic,
    Teletex,
}
impl StrKind {
    pub const KNOWN_MULT: [StrKind; 6] = [StrKind::Numeric, StrKind::Printable, StrKind::Visible, StrKind::Ia5, StrKind::Bmp, StrKind::Universal];
    pub const OTHER: [StrKind; 4] = [StrKind::Utf8, StrKind::General, StrKind::Graphic, StrKind::Teletex];
    pub fn asn(&self) -> &'static str {
        match self {
            StrKind::Numeric => "NumericString",
            StrKind::Printable => "PrintableString",
            StrKind::Visible => "VisibleString",
            StrKind::Ia5 => "IA5String",
            StrKind::Bmp => "BMPString",
            StrKind::Universal => "UniversalString",
            StrKind::Utf8 => "UTF8String",
            StrKind::General => "GeneralString",
            StrKind::Graphic => "GraphicString",
            StrKind::Teletex => "TeletexString",
        }
    }
    pub fn rust(&self) -> &'static str {
        match self {
            StrKind::Numeric => "NumericString",
            StrKind::Printable => "PrintableString",
            StrKind::Visible => "VisibleString",
            StrKind::Ia5 => "Ia5String",
            StrKind::Bmp => "BmpString",
            StrKind::Universal => "UniversalString",
            StrKind::Utf8 => "Utf8String",
            StrKind::General => "GeneralString",
            StrKind::Graphic => "GraphicString",
            StrKind::Teletex => "TeletexString",
        }
    }
    pub fn known_multiplier(&self) -> bool {
        Self::KNOWN_MULT.contains(self)
    }
    /// a few characters that are certainly inside the type's alphabet
    pub fn sample_chars(&self) -> &'static str {
        match self {
            StrKind::Numeric => "0123456789 ",
            StrKind::Printable => "ABCxyz019 '()+,-./:=?",
            _ => "ABCxyz019 !#$%&*;<>@[]^_{}~\"\\",
        }
    }
}

#[derive(Clone, Debug, PartialEq, Eq, Hash)]
pub enum Constraint {
    /// (lo..hi) value range on INTEGER; None = MIN/MAX
    Range { lo: Option<i128>, hi: Option<i128>, ext: bool },
    Single { v: i128, ext: bool },
    Size { lo: u32, hi: Option<u32>, ext: bool },
    /// inner type constraint directly on a SEQUENCE / SET definition: `(WITH COMPONENTS { ..., name PRESENT|ABSENT })`
    Inner { comps: Vec<(String, bool)> },
}
impl Constraint {
    pub fn tokens(&self, out: &mut Vec<String>) {
        let b = |v: &Option<i128>, lower: bool| v.map_or(if lower { "MIN".to_string() } else { "MAX".to_string() }, |x| x.to_string());
        out.push("(".into());
        match self {
            Constraint::Range { lo, hi, ext } => {
                out.push(b(lo, true));
                out.push("..".into());
                out.push(b(hi, false));
                if *ext {
                    out.push(",".into());
                    out.push("...".into());
                }
            }
            Constraint::Single { v, ext } => {
                out.push(v.to_string());
                if *ext {
                    out.push(",".into());
                    out.push("...".into());
                }
            }
            Constraint::Inner { comps } => {
                for w in ["WITH", "COMPONENTS", "{", "..."] {
                    out.push(w.into());
                }
                for (n, present) in comps {
                    out.push(",".into());
                    out.push(n.clone());
                    out.push(if *present { "PRESENT" } else { "ABSENT" }.into());
                }
                out.push("}".into());
            }
            Constraint::Size { lo, hi, ext } => {
                out.push("SIZE".into());
                out.push("(".into());
                match hi {
                    Some(h) if h == lo => out.push(lo.to_string()),
                    Some(h) => {
                        out.push(lo.to_string());
                        out.push("..".into());
                        out.push(h.to_string());
                    }
                    None => {
                        out.push(lo.to_string());
                        out.push("..".into());
                        out.push("MAX".into());
                    }
                }
                if *ext {
                    out.push(",".into());
                    out.push("...".into());
                }
                out.push(")".into());
            }
        }
        out.push(")".into());
    }
}

#[derive(Clone, Debug, PartialEq, Eq, Hash)]
pub enum Optionality {
    Required,
    Optional,
    Default(Val),
}

#[derive(Clone, Debug, PartialEq, Eq, Hash)]
pub struct Comp {
    pub name: String,
    pub ty: Ty,
    pub opt: Optionality,
}

#[derive(Clone, Debug, PartialEq, Eq, Hash)]
pub enum Addition {
    Comp(Comp),
    Group { version: Option<u32>, comps: Vec<Comp> },
}

#[derive(Clone, Debug, PartialEq, Eq, Hash)]
pub struct Struct {
    pub root: Vec<Comp>,
    /// None = no marker
    pub ext: Option<Vec<Addition>>,
    /// second `...` after the additions followed by more root components
    pub root2: Vec<Comp>,
}

#[derive(Clone, Debug, PartialEq, Eq, Hash)]
pub struct EnumT {
    pub root: Vec<(String, Option<i64>)>,
    pub ext: Option<Vec<(String, Option<i64>)>>,
}

#[derive(Clone, Debug, PartialEq, Eq, Hash)]
pub enum TyKind {
    Null,
    Boolean,
    Integer { named: Vec<(String, i64)> },
    Enumerated(EnumT),
    BitString { named: Vec<(String, u32)> },
    OctetString,
    Oid,
    RelOid,
    UtcTime,
    GenTime,
    Str(StrKind),
    Sequence(Struct),
    Set(Struct),
    Choice(Struct), // root = alternatives (all Required), ext additions likewise
    SeqOf(Box<Ty>),
    SetOf(Box<Ty>),
    /// reference to a type assignment; module = Some for module-qualified spelling
    Ref { module: Option<String>, name: String },
    Any,
    /// `CLASS.&field` naming a fixed-type value field of an information object class defined by an Assign::Raw
    ClassField { class: String, field: String },
}

#[derive(Clone, Debug, PartialEq, Eq, Hash)]
pub struct Ty {
    pub kind: TyKind,
    pub tag: Option<Tag>,
    pub constraint: Option<Constraint>,
    /// permitted alphabet as inclusive character ranges: rendered as a further serial constraint `(FROM ("a".."f" | "x"))`
    pub alphabet: Option<Vec<(char, char)>>,
}
impl Ty {
    pub fn plain(kind: TyKind) -> Ty {
        Ty { kind, tag: None, constraint: None, alphabet: None }
    }
}

#[derive(Clone, Debug, PartialEq, Eq, Hash)]
pub enum OidArc {
    Num(u32),
    Name(String),
    NameNum(String, u32),
}

#[derive(Clone, Debug, PartialEq, Eq, Hash)]
pub enum Val {
    Int(i128),
    Bool(bool),
    Null,
    Str(String),
    BitsB(Vec<bool>),
    BitsH(Vec<u8>), // nibbles
    OctetsH(Vec<u8>), // nibbles (even count)
    NamedBits(Vec<String>),
    Ident(String), // enumeral, named number, or value reference
    Oid(Vec<OidArc>),
    Choice(String, Box<Val>),
    Seq(Vec<(String, Val)>),
    List(Vec<Val>),
}
impl Val {
    pub fn tokens(&self, out: &mut Vec<String>) {
        match self {
            Val::Int(i) => out.push(i.to_string()),
            Val::Bool(b) => out.push(if *b { "TRUE" } else { "FALSE" }.into()),
            Val::Null => out.push("NULL".into()),
            Val::Str(s) => out.push(format!("\"{}\"", s.replace('"', "\"\""))),
            Val::BitsB(b) => out.push(format!("'{}'B", b.iter().map(|x| if *x { '1' } else { '0' }).collect::<String>())),
            Val::BitsH(n) | Val::OctetsH(n) => out.push(format!("'{}'H", n.iter().map(|x| char::from_digit(*x as u32, 16).unwrap().to_ascii_uppercase()).collect::<String>())),
            Val::NamedBits(v) => {
                out.push("{".into());
                for (i, n) in v.iter().enumerate() {
                    if i > 0 {
                        out.push(",".into());
                    }
                    out.push(n.clone());
                }
                out.push("}".into());
            }
            Val::Ident(s) => out.push(s.clone()),
            Val::Oid(arcs) => {
                out.push("{".into());
                for a in arcs {
                    match a {
                        OidArc::Num(n) => out.push(n.to_string()),
                        OidArc::Name(s) => out.push(s.clone()),
                        OidArc::NameNum(s, n) => {
                            out.push(s.clone());
                            out.push("(".into());
                            out.push(n.to_string());
                            out.push(")".into());
                        }
                    }
                }
                out.push("}".into());
            }
            Val::Choice(alt, v) => {
                // NB: rendered as `alt:` + value; whitespace before ':' is C13's subject
                out.push(format!("{alt}:"));
                v.tokens(out);
            }
            Val::Seq(fs) => {
                out.push("{".into());
                for (i, (n, v)) in fs.iter().enumerate() {
                    if i > 0 {
                        out.push(",".into());
                    }
                    out.push(n.clone());
                    v.tokens(out);
                }
                out.push("}".into());
            }
            Val::List(vs) => {
                out.push("{".into());
                for (i, v) in vs.iter().enumerate() {
                    if i > 0 {
                        out.push(",".into());
                    }
                    v.tokens(out);
                }
                out.push("}".into());
            }
        }
    }
}

#[derive(Clone, Debug, PartialEq, Eq, Hash)]
pub enum Assign {
    Type { name: String, ty: Ty },
    Value { name: String, ty: Ty, val: Val },
    /// an assignment given as tokens (information object classes, objects, ...): no model beyond its name
    Raw { name: String, tokens: Vec<String> },
}
impl Assign {
    pub fn name(&self) -> &str {
        match self {
            Assign::Type { name, .. } | Assign::Value { name, .. } | Assign::Raw { name, .. } => name,
        }
    }
}

#[derive(Clone, Debug, PartialEq, Eq, Hash)]
pub struct MModule {
    pub name: String,
    pub tagging: Tagging,
    pub ext_implied: bool,
    pub imports: Vec<(String, Vec<String>)>,
    pub assigns: Vec<Assign>,
    pub oid: Option<u32>,
}

#[derive(Clone, Debug, PartialEq, Eq, Hash)]
pub struct ModuleSet {
    pub modules: Vec<MModule>,
}

// ---------------------------------------------------------------------------------- rendering
fn tag_tokens(t: &Tag, out: &mut Vec<String>) {
    out.push("[".into());
    if !t.class.kw().is_empty() {
        out.push(t.class.kw().into());
    }
    out.push(t.num.to_string());
    out.push("]".into());
    match t.mode {
        TagMode::NoKeyword => {}
        TagMode::Implicit => out.push("IMPLICIT".into()),
        TagMode::Explicit => out.push("EXPLICIT".into()),
    }
}

fn comp_tokens(c: &Comp, out: &mut Vec<String>, choice: bool) {
    out.push(c.name.clone());
    ty_tokens(&c.ty, out);
    if !choice {
        match &c.opt {
            Optionality::Required => {}
            Optionality::Optional => out.push("OPTIONAL".into()),
            Optionality::Default(v) => {
                out.push("DEFAULT".into());
                v.tokens(out);
            }
        }
    }
}

fn struct_tokens(s: &Struct, out: &mut Vec<String>, choice: bool) {
    out.push("{".into());
    let mut first = true;
    let mut sep = |out: &mut Vec<String>, first: &mut bool| {
        if !*first {
            out.push(",".into());
        }
        *first = false;
    };
    for c in &s.root {
        sep(out, &mut first);
        comp_tokens(c, out, choice);
    }
    if let Some(adds) = &s.ext {
        sep(out, &mut first);
        out.push("...".into());
        for a in adds {
            sep(out, &mut first);
            match a {
                Addition::Comp(c) => comp_tokens(c, out, choice),
                Addition::Group { version, comps } => {
                    out.push("[[".into());
                    if let Some(v) = version {
                        out.push(format!("{v}:"));
                    }
                    for (i, c) in comps.iter().enumerate() {
                        if i > 0 {
                            out.push(",".into());
                        }
                        comp_tokens(c, out, choice);
                    }
                    out.push("]]".into());
                }
            }
        }
        if !s.root2.is_empty() {
            sep(out, &mut first);
            out.push("...".into());
            for c in &s.root2 {
                sep(out, &mut first);
                comp_tokens(c, out, choice);
            }
        }
    }
    out.push("}".into());
}

pub fn ty_tokens(t: &Ty, out: &mut Vec<String>) {
    if let Some(tag) = &t.tag {
        tag_tokens(tag, out);
    }
    let mut constraint_done = false;
    match &t.kind {
        TyKind::Null => out.push("NULL".into()),
        TyKind::Boolean => out.push("BOOLEAN".into()),
        TyKind::Integer { named } => {
            out.push("INTEGER".into());
            if !named.is_empty() {
                out.push("{".into());
                for (i, (n, v)) in named.iter().enumerate() {
                    if i > 0 {
                        out.push(",".into());
                    }
                    out.push(n.clone());
                    out.push("(".into());
                    out.push(v.to_string());
                    out.push(")".into());
                }
                out.push("}".into());
            }
        }
        TyKind::Enumerated(e) => {
            out.push("ENUMERATED".into());
            out.push("{".into());
            let item = |(n, v): &(String, Option<i64>), out: &mut Vec<String>| {
                out.push(n.clone());
                if let Some(v) = v {
                    out.push("(".into());
                    out.push(v.to_string());
                    out.push(")".into());
                }
            };
            for (i, it) in e.root.iter().enumerate() {
                if i > 0 {
                    out.push(",".into());
                }
                item(it, out);
            }
            if let Some(x) = &e.ext {
                out.push(",".into());
                out.push("...".into());
                for it in x {
                    out.push(",".into());
                    item(it, out);
                }
            }
            out.push("}".into());
        }
        TyKind::BitString { named } => {
            out.push("BIT".into());
            out.push("STRING".into());
            if !named.is_empty() {
                out.push("{".into());
                for (i, (n, v)) in named.iter().enumerate() {
                    if i > 0 {
                        out.push(",".into());
                    }
                    out.push(n.clone());
                    out.push("(".into());
                    out.push(v.to_string());
                    out.push(")".into());
                }
                out.push("}".into());
            }
        }
        TyKind::OctetString => {
            out.push("OCTET".into());
            out.push("STRING".into());
        }
        TyKind::Oid => {
            out.push("OBJECT".into());
            out.push("IDENTIFIER".into());
        }
        TyKind::RelOid => out.push("RELATIVE-OID".into()),
        TyKind::UtcTime => out.push("UTCTime".into()),
        TyKind::GenTime => out.push("GeneralizedTime".into()),
        TyKind::Str(k) => out.push(k.asn().into()),
        TyKind::Sequence(s) => {
            out.push("SEQUENCE".into());
            struct_tokens(s, out, false);
        }
        TyKind::Set(s) => {
            out.push("SET".into());
            struct_tokens(s, out, false);
        }
        TyKind::Choice(s) => {
            out.push("CHOICE".into());
            struct_tokens(s, out, true);
        }
        TyKind::SeqOf(e) | TyKind::SetOf(e) => {
            out.push(if matches!(t.kind, TyKind::SeqOf(_)) { "SEQUENCE" } else { "SET" }.into());
            if let Some(c) = &t.constraint {
                c.tokens(out);
                constraint_done = true;
            }
            out.push("OF".into());
            ty_tokens(e, out);
        }
        TyKind::Ref { module, name } => match module {
            Some(m) => out.push(format!("{m}.{name}")),
            None => out.push(name.clone()),
        },
        TyKind::Any => out.push("ANY".into()),
        TyKind::ClassField { class, field } => out.push(format!("{class}.&{field}")),
    }
    if !constraint_done {
        if let Some(c) = &t.constraint {
            c.tokens(out);
        }
    }
    if let Some(a) = &t.alphabet {
        out.push("(".into());
        out.push("FROM".into());
        out.push("(".into());
        for (i, (lo, hi)) in a.iter().enumerate() {
            if i > 0 {
                out.push("|".into());
            }
            if lo == hi {
                out.push(format!("\"{lo}\""));
            } else {
                out.push(format!("\"{lo}\""));
                out.push("..".into());
                out.push(format!("\"{hi}\""));
            }
        }
        out.push(")".into());
        out.push(")".into());
    }
}

/// One rendered source text with bookkeeping on where things are.
#[derive(Clone, Debug)]
pub struct Rendered {
    pub text: String,
    /// all tokens in order
    pub tokens: Vec<String>,
    /// (module index, assign index or usize::MAX for header/END, first token idx, last token idx inclusive)
    pub extents: Vec<(usize, usize, usize, usize)>,
}

pub fn module_tokens(m: &MModule, mi: usize, tokens: &mut Vec<String>, extents: &mut Vec<(usize, usize, usize, usize)>, line_ends: &mut Vec<usize>) {
    let start = tokens.len();
    tokens.push(m.name.clone());
    if let Some(o) = m.oid {
        for t in ["{", "iso", "standard", "8571"] {
            tokens.push(t.into());
        }
        tokens.push(o.to_string());
        tokens.push("}".into());
    }
    tokens.push("DEFINITIONS".into());
    for w in m.tagging.clause().split_whitespace() {
        tokens.push(w.into());
    }
    if m.ext_implied {
        tokens.push("EXTENSIBILITY".into());
        tokens.push("IMPLIED".into());
    }
    tokens.push("::=".into());
    tokens.push("BEGIN".into());
    if !m.imports.is_empty() {
        tokens.push("IMPORTS".into());
        for (from, syms) in &m.imports {
            for (i, s) in syms.iter().enumerate() {
                if i > 0 {
                    tokens.push(",".into());
                }
                tokens.push(s.clone());
            }
            tokens.push("FROM".into());
            tokens.push(from.clone());
        }
        tokens.push(";".into());
    }
    extents.push((mi, usize::MAX, start, tokens.len() - 1));
    line_ends.push(tokens.len());
    for (ai, a) in m.assigns.iter().enumerate() {
        let s = tokens.len();
        match a {
            Assign::Type { name, ty } => {
                tokens.push(name.clone());
                tokens.push("::=".into());
                ty_tokens(ty, tokens);
            }
            Assign::Value { name, ty, val } => {
                tokens.push(name.clone());
                ty_tokens(ty, tokens);
                tokens.push("::=".into());
                val.tokens(tokens);
            }
            Assign::Raw { tokens: t, .. } => tokens.extend(t.iter().cloned()),
        }
        extents.push((mi, ai, s, tokens.len() - 1));
        line_ends.push(tokens.len());
    }
    let s = tokens.len();
    tokens.push("END".into());
    extents.push((mi, usize::MAX - 1, s, s));
    line_ends.push(tokens.len());
}

impl ModuleSet {
    /// default layout: one space between tokens, one assignment per line, LF; all modules in one text
    pub fn render(&self) -> Rendered {
        self.render_modules(&(0..self.modules.len()).collect::<Vec<_>>())
    }
    pub fn render_modules(&self, which: &[usize]) -> Rendered {
        let mut tokens = vec![];
        let mut extents = vec![];
        let mut line_ends = vec![];
        for &mi in which {
            module_tokens(&self.modules[mi], mi, &mut tokens, &mut extents, &mut line_ends);
        }
        let mut text = String::new();
        for (i, t) in tokens.iter().enumerate() {
            text.push_str(t);
            if line_ends.contains(&(i + 1)) {
                text.push('\n');
            } else if tokens.get(i + 1).is_some_and(|n| n == "," || n == ";") {
                // default layout writes `x,` (whitespace before a comma is C13's subject)
            } else {
                text.push(' ');
            }
        }
        Rendered { text, tokens, extents }
    }
    pub fn render_each(&self) -> Vec<String> {
        (0..self.modules.len()).map(|i| self.render_modules(&[i]).text).collect()
    }
    pub fn type_env(&self) -> BTreeMap<String, (usize, Ty)> {
        let mut m = BTreeMap::new();
        for (mi, md) in self.modules.iter().enumerate() {
            for a in &md.assigns {
                if let Assign::Type { name, ty } = a {
                    m.insert(name.clone(), (mi, ty.clone()));
                }
            }
        }
        m
    }
}

/// follow references to the defining type (for kind queries); returns None on dangling refs
pub fn resolve<'a>(env: &'a BTreeMap<String, (usize, Ty)>, t: &'a Ty) -> Option<&'a Ty> {
    let mut cur = t;
    for _ in 0..32 {
        match &cur.kind {
            TyKind::Ref { name, .. } => cur = &env.get(name)?.1,
            _ => return Some(cur),
        }
    }
    None
}

// ---------------------------------------------------------------------------------- random construction
#[derive(Clone, Debug)]
pub struct GenOpts {
    pub modules: (usize, usize),
    pub assigns: (usize, usize),
    pub max_depth: usize,
    pub max_comps: usize,
    pub values: bool,
    pub defaults: bool,
    pub constraints: bool,
    pub tags: bool,
    pub ext: bool,
    pub groups: bool,
    pub root2: bool,
    pub recursion: bool,
    pub imports: bool,
    pub qualified_refs: bool,
    pub nested: bool,
    pub sets: bool,
    pub any: bool,
    pub ext_implied: bool,
    pub taggings: Vec<Tagging>,
    pub constrained_refs: bool,
    pub tagged_assignments: bool,
    pub ext_constraints: bool,
    pub structured_values: bool,
    pub alphabets: bool,
    pub value_refs: bool,
    pub class_fields: bool,
}
impl Default for GenOpts {
    fn default() -> Self {
        GenOpts {
            modules: (1, 3),
            assigns: (1, 14),
            max_depth: 3,
            max_comps: 6,
            values: true,
            defaults: true,
            constraints: true,
            tags: true,
            ext: true,
            groups: true,
            root2: false,
            recursion: true,
            imports: true,
            qualified_refs: false,
            nested: true,
            sets: true,
            any: false,
            ext_implied: true,
            taggings: Tagging::all().to_vec(),
            constrained_refs: true,
            tagged_assignments: true,
            ext_constraints: true,
            structured_values: false,
            alphabets: true,
            value_refs: true,
            class_fields: false,
        }
    }
}

pub struct Gen<'a> {
    pub rng: &'a mut Rng,
    pub o: GenOpts,
    serial: u32,
    /// types defined so far: name -> (module idx, Ty)
    pub env: BTreeMap<String, (usize, Ty)>,
    /// names of type assignments planned per module (for forward references): (module, name)
    planned: Vec<(usize, String)>,
    /// index into `planned` of the assignment being generated
    cur: usize,
    cur_module: usize,
    tagging: Tagging,
    /// referenced (module idx, symbol) pairs of the current module that live elsewhere
    foreign: Vec<(usize, String)>,
    /// value assignments available: name -> (module, Ty, Val)
    pub values: BTreeMap<String, (usize, Ty, Val)>,
}

impl<'a> Gen<'a> {
    pub fn new(rng: &'a mut Rng, o: GenOpts) -> Self {
        Gen { rng, o, serial: 0, env: BTreeMap::new(), planned: vec![], cur: 0, cur_module: 0, tagging: Tagging::Automatic, foreign: vec![], values: BTreeMap::new() }
    }
    fn id(&mut self, prefix: &str) -> String {
        self.serial += 1;
        format!("{prefix}q{}", self.serial)
    }

    fn int_constraint(&mut self) -> Constraint {
        let pts: [i128; 14] = [-70000, -129, -128, -1, 0, 1, 5, 127, 128, 255, 256, 65535, 65536, 4294967296];
        let a = *self.rng.pick(&pts);
        let b = *self.rng.pick(&pts);
        let (lo, hi) = if a <= b { (a, b) } else { (b, a) };
        let ext = self.o.ext_constraints && self.rng.chance(1, 6);
        match self.rng.below(8) {
            0 => Constraint::Range { lo: None, hi: Some(hi), ext },
            1 => Constraint::Range { lo: Some(lo), hi: None, ext },
            2 => Constraint::Single { v: lo, ext },
            _ => Constraint::Range { lo: Some(lo), hi: Some(hi), ext },
        }
    }
    fn size_constraint(&mut self) -> Constraint {
        let lo = self.rng.below(4) as u32;
        let ext = self.o.ext_constraints && self.rng.chance(1, 6);
        match self.rng.below(4) {
            0 => Constraint::Size { lo, hi: Some(lo), ext },
            1 => Constraint::Size { lo, hi: None, ext },
            _ => Constraint::Size { lo, hi: Some(lo + 1 + self.rng.below(40) as u32), ext },
        }
    }

    fn enum_t(&mut self) -> EnumT {
        let n = 1 + self.rng.below(5);
        let explicit = self.rng.chance(1, 3);
        let mut root = vec![];
        for i in 0..n {
            let name = self.id("e");
            root.push((name, if explicit { Some(i as i64 * 2 + 1) } else { None }));
        }
        let ext = if self.o.ext && self.rng.chance(1, 3) {
            let k = self.rng.below(3);
            let mut v = vec![];
            for i in 0..k {
                let name = self.id("e");
                v.push((name, if explicit { Some(100 + i as i64) } else { None }));
            }
            Some(v)
        } else {
            None
        };
        EnumT { root, ext }
    }

    /// `safe` = position where a recursive/forward reference cannot make the type infinite
    fn reference(&mut self, safe: bool) -> Option<TyKind> {
        // earlier types anywhere; self/later types only in safe positions
        let mut cands: Vec<(usize, String)> = vec![];
        for (i, (m, n)) in self.planned.iter().enumerate() {
            let earlier = i < self.cur;
            if !earlier && !(safe && self.o.recursion) {
                continue;
            }
            if *m != self.cur_module && !self.o.imports {
                continue;
            }
            cands.push((*m, n.clone()));
        }
        if cands.is_empty() {
            return None;
        }
        let (m, n) = self.rng.pick(&cands).clone();
        let mut module = None;
        if m != self.cur_module {
            if !self.foreign.contains(&(m, n.clone())) {
                self.foreign.push((m, n.clone()));
            }
            if self.o.qualified_refs && self.rng.chance(1, 3) {
                module = Some(format!("Mq{}", m + 1));
            }
        }
        Some(TyKind::Ref { module, name: n })
    }

    fn leaf(&mut self) -> Ty {
        if self.o.class_fields && self.rng.chance(1, 6) {
            let class = format!("CLSQ{}", self.cur_module + 1);
            return Ty::plain(TyKind::ClassField { class, field: if self.rng.chance(1, 2) { "id".into() } else { "flag".into() } });
        }
        let kind = match self.rng.below(16) {
            0 => TyKind::Null,
            1 => TyKind::Boolean,
            2 | 3 => TyKind::Integer { named: vec![] },
            4 => {
                let n = 1 + self.rng.below(3);
                let named = (0..n).map(|i| (self.id("n"), i as i64 * 3)).collect();
                TyKind::Integer { named }
            }
            5 => TyKind::Enumerated(self.enum_t()),
            6 => {
                let named = if self.rng.chance(1, 2) { (0..1 + self.rng.below(4)).map(|i| (self.id("b"), i as u32 * 2)).collect() } else { vec![] };
                TyKind::BitString { named }
            }
            7 => TyKind::OctetString,
            8 => TyKind::Oid,
            9 => self.rng.pick(&[TyKind::UtcTime, TyKind::GenTime, TyKind::RelOid]).clone(),
            10 | 11 => TyKind::Str(*self.rng.pick(&StrKind::KNOWN_MULT)),
            12 => TyKind::Str(*self.rng.pick(&StrKind::OTHER)),
            13 if self.o.any => TyKind::Any,
            _ => TyKind::Integer { named: vec![] },
        };
        let mut t = Ty::plain(kind);
        if self.o.alphabets && self.o.constraints {
            if let TyKind::Str(k) = &t.kind {
                if k.known_multiplier() && self.rng.chance(1, 4) {
                    let a = match k {
                        StrKind::Numeric => vec![('0', '5')],
                        _ => match self.rng.below(3) {
                            0 => vec![('A', 'F')],
                            1 => vec![('a', 'f'), ('x', 'x')],
                            _ => vec![('0', '9'), ('A', 'C')],
                        },
                    };
                    t.alphabet = Some(a);
                }
            }
        }
        if self.o.constraints && self.rng.chance(1, 2) {
            t.constraint = match &t.kind {
                TyKind::Integer { .. } => Some(self.int_constraint()),
                TyKind::BitString { named } if named.is_empty() => Some(self.size_constraint()),
                TyKind::OctetString | TyKind::Str(_) => Some(self.size_constraint()),
                _ => None,
            };
        }
        t
    }

    pub fn ty(&mut self, depth: usize, safe: bool) -> Ty {
        let structured = depth < self.o.max_depth && (depth == 0 || self.o.nested) && self.rng.chance(if depth == 0 { 3 } else { 1 }, 4);
        if !structured {
            if self.rng.chance(1, 4) {
                if let Some(r) = self.reference(safe) {
                    let mut t = Ty::plain(r);
                    if self.o.constrained_refs && self.rng.chance(1, 5) {
                        // constrain a reference only when the referenced type is an unconstrained INTEGER (legal for sure)
                        if let TyKind::Ref { name, .. } = &t.kind {
                            if let Some((_, rt)) = self.env.get(name) {
                                if matches!(rt.kind, TyKind::Integer { .. }) && rt.constraint.is_none() {
                                    t.constraint = Some(self.int_constraint());
                                }
                            }
                        }
                    }
                    return t;
                }
            }
            return self.leaf();
        }
        match self.rng.below(10) {
            0..=3 => {
                let s = self.structure(depth, false);
                Ty::plain(if self.o.sets && self.rng.chance(1, 4) { TyKind::Set(s) } else { TyKind::Sequence(s) })
            }
            4..=6 => Ty::plain(TyKind::Choice(self.structure(depth, true))),
            _ => {
                let mut e = self.ty(depth + 1, true);
                if self.o.tags && !self.tagging.is_automatic() && self.rng.chance(1, 8) {
                    e.tag = Some(self.tag_for(&e, 7));
                }
                let mut t = Ty::plain(if self.o.sets && self.rng.chance(1, 4) { TyKind::SetOf(Box::new(e)) } else { TyKind::SeqOf(Box::new(e)) });
                if self.o.constraints && self.rng.chance(1, 3) {
                    t.constraint = Some(self.size_constraint());
                }
                t
            }
        }
    }

    fn is_choice_like(&self, t: &Ty) -> bool {
        // untagged CHOICE / open type (directly or through references to already known types); unknown => assume yes (conservative)
        if t.tag.is_some() {
            return false;
        }
        match &t.kind {
            TyKind::Choice(_) | TyKind::Any => true,
            TyKind::Ref { name, .. } => match self.env.get(name) {
                Some((_, rt)) => self.is_choice_like(rt),
                None => true,
            },
            _ => false,
        }
    }

    fn tag_for(&mut self, t: &Ty, num: u32) -> Tag {
        let class = match self.rng.below(10) {
            0 => TagClass::Application,
            1 => TagClass::Private,
            _ => TagClass::Context,
        };
        let mut mode = *self.rng.pick(&[TagMode::NoKeyword, TagMode::NoKeyword, TagMode::Implicit, TagMode::Explicit]);
        if mode == TagMode::Implicit && self.is_choice_like(t) {
            mode = TagMode::Explicit;
        }
        Tag { class, num, mode }
    }

    fn comp(&mut self, depth: usize, choice: bool, prefix: &str) -> Comp {
        let name = self.id(prefix);
        let opt_kind = if choice { 0 } else { self.rng.below(6) };
        // only OPTIONAL components and CHOICE alternatives are safe positions for recursion
        let safe = choice || opt_kind == 1 || opt_kind == 2;
        let ty = self.ty(depth + 1, safe);
        let opt = match opt_kind {
            1 | 2 => Optionality::Optional,
            3 if self.o.defaults => match self.default_for(&ty) {
                Some(v) => Optionality::Default(v),
                None => Optionality::Required,
            },
            _ => Optionality::Required,
        };
        Comp { name, ty, opt }
    }

    pub fn structure(&mut self, depth: usize, choice: bool) -> Struct {
        let prefix = if choice { "c" } else { "f" };
        let nroot = if choice { 1 + self.rng.below(self.o.max_comps) } else { self.rng.below(self.o.max_comps + 1) };
        let mut root: Vec<Comp> = (0..nroot).map(|_| self.comp(depth, choice, prefix)).collect();
        if choice {
            // guarantee a non-recursive alternative first so that the type is finite
            root[0].ty = self.leaf();
        }
        let mut ext = None;
        let mut root2 = vec![];
        if self.o.ext && self.rng.chance(1, 3) {
            let n = self.rng.below(4);
            let mut adds = vec![];
            for _ in 0..n {
                if self.o.groups && !choice && self.rng.chance(1, 3) {
                    let k = 1 + self.rng.below(3);
                    let comps = (0..k).map(|_| self.comp(depth, choice, prefix)).collect();
                    let version = if self.rng.chance(1, 2) { Some(2 + adds.len() as u32) } else { None };
                    adds.push(Addition::Group { version, comps });
                } else {
                    adds.push(Addition::Comp(self.comp(depth, choice, prefix)));
                }
            }
            ext = Some(adds);
            if self.o.root2 && !choice && self.rng.chance(1, 4) {
                root2 = (0..1 + self.rng.below(2)).map(|_| self.comp(depth, choice, prefix)).collect();
            }
        }
        let mut s = Struct { root, ext, root2 };
        self.assign_tags(&mut s, choice);
        self.vary_tags(&mut s);
        s
    }

    /// Keep the type legal: outside AUTOMATIC TAGS every component gets a distinct context tag
    /// (so OPTIONAL runs, SET and CHOICE are unambiguous); inside AUTOMATIC TAGS either none or all are tagged.
    fn assign_tags(&mut self, s: &mut Struct, _choice: bool) {
        let tag_all = if self.tagging.is_automatic() { self.o.tags && self.rng.chance(1, 5) } else { true };
        if !tag_all {
            return;
        }
        let mut n = 0u32;
        let mut each = |g: &mut Gen, c: &mut Comp, n: &mut u32| {
            if g.o.tags || !g.tagging.is_automatic() {
                let mut t = g.tag_for(&c.ty, *n);
                t.class = TagClass::Context;
                if !g.o.tags {
                    t.mode = if g.is_choice_like(&c.ty) { TagMode::Explicit } else { TagMode::NoKeyword };
                }
                // tagging an already tagged inline type: keep it simple, replace
                c.ty.tag = Some(t);
                *n += 1 + g.rng.below(2) as u32;
            }
        };
        for c in s.root.iter_mut() {
            each(self, c, &mut n);
        }
        if let Some(adds) = s.ext.as_mut() {
            for a in adds.iter_mut() {
                match a {
                    Addition::Comp(c) => each(self, c, &mut n),
                    Addition::Group { comps, .. } => {
                        for c in comps.iter_mut() {
                            each(self, c, &mut n);
                        }
                    }
                }
            }
        }
        for c in s.root2.iter_mut() {
            each(self, c, &mut n);
        }
    }

    /// Tag layouts the plain numbering never produces, drawn from a generator of their own so that the main random stream
    /// (and with it every previously explored input) stays the same:
    /// * all components tagged: the tag numbers of the root components are permuted (source order != tag order);
    /// * AUTOMATIC TAGS module, nothing tagged: exactly one component (possibly an extension addition) gets a context tag,
    ///   which switches automatic tagging off for the whole type (X.680 25.7) — only when the components that stay
    ///   untagged are built-in non-CHOICE types with pairwise distinct universal tags, so the type stays legal.
    fn vary_tags(&mut self, s: &mut Struct) {
        let mut toks = vec![];
        for c in s.root.iter().chain(s.root2.iter()) {
            toks.push(c.name.clone());
        }
        let mut r = Rng::for_case(hash_str(&toks.join(",")), 77, s.root.len() as u64);
        let all_tagged = !s.root.is_empty() && struct_comps(s).iter().all(|c| c.ty.tag.as_ref().is_some_and(|t| t.class == TagClass::Context));
        if all_tagged && s.root.len() >= 2 && r.chance(1, 3) {
            let mut nums: Vec<u32> = s.root.iter().map(|c| c.ty.tag.as_ref().unwrap().num).collect();
            r.shuffle(&mut nums);
            for (c, n) in s.root.iter_mut().zip(nums) {
                c.ty.tag.as_mut().unwrap().num = n;
            }
            return;
        }
        let none_tagged = struct_comps(s).iter().all(|c| c.ty.tag.is_none());
        if self.tagging.is_automatic() && self.o.tags && none_tagged && r.chance(1, 5) {
            fn utag(t: &Ty) -> Option<u32> {
                Some(match &t.kind {
                    TyKind::Boolean => 1,
                    TyKind::Integer { .. } => 2,
                    TyKind::BitString { .. } => 3,
                    TyKind::OctetString => 4,
                    TyKind::Null => 5,
                    TyKind::Oid => 6,
                    TyKind::Enumerated(_) => 10,
                    TyKind::Sequence(_) | TyKind::SeqOf(_) => 16,
                    TyKind::Set(_) | TyKind::SetOf(_) => 17,
                    TyKind::UtcTime => 23,
                    TyKind::GenTime => 24,
                    _ => return None,
                })
            }
            let n = struct_comps(s).len();
            if n < 2 {
                return;
            }
            let pick = r.below(n);
            let mut seen = std::collections::BTreeSet::new();
            for (i, c) in struct_comps(s).iter().enumerate() {
                if i == pick {
                    continue;
                }
                match utag(&c.ty) {
                    Some(u) if seen.insert(u) => {}
                    _ => return,
                }
            }
            // groups are left alone (a tagged group member is a case of its own)
            let mut i = 0;
            let mut hit = |c: &mut Comp, i: &mut usize| {
                if *i == pick {
                    c.ty.tag = Some(Tag { class: TagClass::Context, num: 40 + (pick as u32), mode: if matches!(c.ty.kind, TyKind::Choice(_) | TyKind::Any | TyKind::Ref { .. } | TyKind::ClassField { .. }) { TagMode::Explicit } else { TagMode::NoKeyword } });
                }
                *i += 1;
            };
            for c in s.root.iter_mut() {
                hit(c, &mut i);
            }
            for a in s.ext.iter_mut().flatten() {
                match a {
                    Addition::Comp(c) => hit(c, &mut i),
                    Addition::Group { comps, .. } => {
                        for c in comps.iter_mut() {
                            hit(c, &mut i);
                        }
                    }
                }
            }
            for c in s.root2.iter_mut() {
                hit(c, &mut i);
            }
        }
    }

    /// A value of the type that satisfies its constraint (None when we decline to build one)
    pub fn default_for(&mut self, t: &Ty) -> Option<Val> {
        let base = match &t.kind {
            TyKind::Ref { name, .. } => {
                let (_, rt) = self.env.get(name)?.clone();
                // only through references to simple types
                if t.constraint.is_some() {
                    return None;
                }
                return match rt.kind {
                    TyKind::Integer { .. } | TyKind::Boolean | TyKind::Enumerated(_) => self.default_for(&rt),
                    _ => None,
                };
            }
            _ => t,
        };
        match &base.kind {
            TyKind::Boolean => Some(Val::Bool(self.rng.chance(1, 2))),
            TyKind::Null => None,
            TyKind::Integer { named } => {
                let (lo, hi) = match &base.constraint {
                    Some(Constraint::Range { lo, hi, .. }) => (*lo, *hi),
                    Some(Constraint::Single { v, .. }) => (Some(*v), Some(*v)),
                    _ => (None, None),
                };
                if !named.is_empty() && base.constraint.is_none() && self.rng.chance(1, 2) {
                    return Some(Val::Ident(self.rng.pick(named).0.clone()));
                }
                if self.o.value_refs && base.constraint.is_none() && named.is_empty() && self.rng.chance(1, 3) {
                    // reference to an INTEGER value assignment generated earlier (possibly in another module => imported)
                    let cands: Vec<(String, usize)> = self
                        .values
                        .iter()
                        .filter(|(_, (m, ty, v))| {
                            matches!(v, Val::Int(_))
                                && (*m == self.cur_module || self.o.imports)
                                && match &ty.kind {
                                    TyKind::Integer { .. } => true,
                                    TyKind::Ref { name, .. } => self.env.get(name).is_some_and(|(_, rt)| matches!(rt.kind, TyKind::Integer { .. })),
                                    _ => false,
                                }
                        })
                        .map(|(n, (m, _, _))| (n.clone(), *m))
                        .collect();
                    if !cands.is_empty() {
                        let (n, m) = self.rng.pick(&cands).clone();
                        if m != self.cur_module && !self.foreign.contains(&(m, n.clone())) {
                            self.foreign.push((m, n.clone()));
                        }
                        return Some(Val::Ident(n));
                    }
                }
                let v = match (lo, hi) {
                    (Some(l), Some(h)) => *self.rng.pick(&[l, h, l + (h - l) / 2]),
                    (Some(l), None) => l + self.rng.below(1000) as i128,
                    (None, Some(h)) => h - self.rng.below(1000) as i128,
                    (None, None) => *self.rng.pick(&[0i128, 1, -1, 127, 128, -129, 65536, 4294967296, -9223372036854775809]),
                };
                Some(Val::Int(v))
            }
            TyKind::Enumerated(e) => Some(Val::Ident(self.rng.pick(&e.root).0.clone())),
            TyKind::Str(_) if base.alphabet.is_some() => None,
            TyKind::Str(k) => {
                let (lo, hi) = match &base.constraint {
                    Some(Constraint::Size { lo, hi, .. }) => (*lo as usize, hi.map(|h| h as usize).unwrap_or(*lo as usize + 3)),
                    _ => (0, 5),
                };
                let len = lo + self.rng.below(hi.min(lo + 6) - lo + 1);
                let chars: Vec<char> = k.sample_chars().chars().collect();
                Some(Val::Str((0..len).map(|_| *self.rng.pick(&chars)).collect()))
            }
            TyKind::OctetString => {
                let (lo, hi) = match &base.constraint {
                    Some(Constraint::Size { lo, hi, .. }) => (*lo as usize, hi.map(|h| h as usize).unwrap_or(*lo as usize + 3)),
                    _ => (0, 4),
                };
                let len = lo + self.rng.below(hi.min(lo + 4) - lo + 1);
                Some(Val::OctetsH((0..2 * len).map(|_| self.rng.below(16) as u8).collect()))
            }
            TyKind::BitString { named } => {
                if !named.is_empty() {
                    let k = self.rng.below(named.len() + 1);
                    let mut v: Vec<String> = named.iter().map(|x| x.0.clone()).collect();
                    self.rng.shuffle(&mut v);
                    v.truncate(k.max(1));
                    Some(Val::NamedBits(v))
                } else {
                    let (lo, hi) = match &base.constraint {
                        Some(Constraint::Size { lo, hi, .. }) => (*lo as usize, hi.map(|h| h as usize).unwrap_or(*lo as usize + 3)),
                        _ => (0, 9),
                    };
                    let len = lo + self.rng.below(hi.min(lo + 9) - lo + 1);
                    Some(Val::BitsB((0..len).map(|_| self.rng.chance(1, 2)).collect()))
                }
            }
            _ => None,
        }
    }

    /// value of any type of the grammar (structured values included), None when we decline
    pub fn value_for(&mut self, t: &Ty, depth: usize) -> Option<Val> {
        if depth > 3 {
            return None;
        }
        match &t.kind {
            TyKind::Ref { name, .. } => {
                if t.constraint.is_some() {
                    return None;
                }
                let (_, rt) = self.env.get(name)?.clone();
                self.value_for(&rt, depth + 1)
            }
            TyKind::Sequence(s) | TyKind::Set(s) => {
                let mut fields = vec![];
                for c in &s.root {
                    let include = match c.opt {
                        Optionality::Required => true,
                        _ => self.rng.chance(1, 2),
                    };
                    if include {
                        fields.push((c.name.clone(), self.value_for(&c.ty, depth + 1)?));
                    }
                }
                Some(Val::Seq(fields))
            }
            TyKind::Choice(s) => {
                let c = s.root.first()?;
                Some(Val::Choice(c.name.clone(), Box::new(self.value_for(&c.ty, depth + 1)?)))
            }
            TyKind::SeqOf(e) | TyKind::SetOf(e) => {
                let (lo, hi) = match &t.constraint {
                    Some(Constraint::Size { lo, hi, .. }) => (*lo as usize, hi.map(|h| h as usize).unwrap_or(*lo as usize + 2)),
                    _ => (0, 3),
                };
                let n = lo + self.rng.below(hi.min(lo + 3) - lo + 1);
                let mut v = vec![];
                for _ in 0..n {
                    v.push(self.value_for(e, depth + 1)?);
                }
                Some(Val::List(v))
            }
            TyKind::Null => Some(Val::Null),
            TyKind::Oid => Some(self.oid_value()),
            _ => self.default_for(t),
        }
    }

    fn value_assignment(&mut self) -> Option<Assign> {
        if self.o.structured_values && self.rng.chance(1, 3) {
            let cands: Vec<String> = self
                .planned
                .iter()
                .enumerate()
                .filter(|(i, (m, n))| *i < self.cur && *m == self.cur_module && self.env.get(n).is_some_and(|(_, t)| matches!(t.kind, TyKind::Sequence(_) | TyKind::Set(_) | TyKind::Choice(_) | TyKind::SeqOf(_) | TyKind::SetOf(_))))
                .map(|(_, (_, n))| n.clone())
                .collect();
            if !cands.is_empty() {
                let ty = Ty::plain(TyKind::Ref { module: None, name: self.rng.pick(&cands).clone() });
                if let Some(val) = self.value_for(&ty, 0) {
                    let name = self.id("v");
                    self.values.insert(name.clone(), (self.cur_module, ty.clone(), val.clone()));
                    return Some(Assign::Value { name, ty, val });
                }
            }
        }
        // a value of a built-in type or of an already defined simple type
        let ty = if self.rng.chance(1, 3) {
            let cands: Vec<String> = self
                .planned
                .iter()
                .enumerate()
                .filter(|(i, (m, n))| *i < self.cur && *m == self.cur_module && self.env.get(n).is_some_and(|(_, t)| matches!(t.kind, TyKind::Integer { .. } | TyKind::Boolean | TyKind::Enumerated(_))))
                .map(|(_, (_, n))| n.clone())
                .collect();
            if cands.is_empty() {
                self.leaf()
            } else {
                Ty::plain(TyKind::Ref { module: None, name: self.rng.pick(&cands).clone() })
            }
        } else {
            let mut t = self.leaf();
            // enumerated / named inline types make little sense for a value assignment
            if matches!(t.kind, TyKind::Enumerated(_)) {
                t = Ty::plain(TyKind::Boolean);
            }
            if let TyKind::Integer { named } = &mut t.kind {
                named.clear();
            }
            if let TyKind::BitString { named } = &mut t.kind {
                named.clear();
            }
            t
        };
        let val = match &ty.kind {
            TyKind::Oid => Some(self.oid_value()),
            TyKind::Null => Some(Val::Null),
            _ => self.default_for(&ty),
        }?;
        let name = self.id("v");
        self.values.insert(name.clone(), (self.cur_module, ty.clone(), val.clone()));
        Some(Assign::Value { name, ty, val })
    }

    pub fn oid_value(&mut self) -> Val {
        let roots: [(&str, u32, &[(&str, u32)]); 3] = [
            ("itu-t", 0, &[("recommendation", 0), ("question", 1), ("administration", 2), ("network-operator", 3), ("identified-organization", 4)]),
            ("iso", 1, &[("standard", 0), ("registration-authority", 1), ("member-body", 2), ("identified-organization", 3)]),
            ("joint-iso-itu-t", 2, &[]),
        ];
        let (rn, rv, seconds) = *self.rng.pick(&roots);
        let mut arcs = vec![];
        arcs.push(match self.rng.below(3) {
            0 => OidArc::Num(rv),
            1 => OidArc::Name(rn.into()),
            _ => OidArc::NameNum(rn.into(), rv),
        });
        if !seconds.is_empty() && self.rng.chance(2, 3) {
            let (sn, sv) = *self.rng.pick(seconds);
            arcs.push(match self.rng.below(3) {
                0 => OidArc::Num(sv),
                1 => OidArc::Name(sn.into()),
                _ => OidArc::NameNum(sn.into(), sv),
            });
        } else {
            arcs.push(OidArc::Num(self.rng.below(40) as u32));
        }
        for _ in 0..self.rng.below(8) {
            let n = *self.rng.pick(&[0u32, 1, 5, 127, 128, 840, 16383, 16384, 113549, 4294967295]);
            arcs.push(if self.rng.chance(1, 4) { OidArc::NameNum(self.id("a"), n) } else { OidArc::Num(n) });
        }
        Val::Oid(arcs)
    }

    pub fn module_set(&mut self) -> ModuleSet {
        let nm = self.o.modules.0 + self.rng.below(self.o.modules.1 - self.o.modules.0 + 1);
        // plan type names per module first (forward references and imports need them)
        let mut plan: Vec<Vec<bool>> = vec![]; // per module: is_type flags
        for mi in 0..nm {
            let na = self.o.assigns.0 + self.rng.below(self.o.assigns.1 - self.o.assigns.0 + 1);
            let mut flags = vec![];
            for _ in 0..na {
                let is_type = !self.o.values || self.rng.chance(3, 4);
                flags.push(is_type);
                if is_type {
                    let n = self.id("T");
                    self.planned.push((mi, n));
                }
            }
            plan.push(flags);
        }
        let mut modules = vec![];
        let mut pi = 0usize;
        for (mi, flags) in plan.iter().enumerate() {
            self.cur_module = mi;
            self.tagging = *self.rng.pick(&self.o.taggings.clone());
            self.foreign.clear();
            let mut assigns = vec![];
            for is_type in flags {
                if *is_type {
                    self.cur = pi;
                    let name = self.planned[pi].1.clone();
                    let mut ty = self.ty(0, false);
                    // a top-level alias of a forward reference could build an alias cycle: only allow refs to earlier types here
                    if let TyKind::Ref { name: rn, .. } = &ty.kind {
                        if !self.env.contains_key(rn) {
                            ty = self.leaf();
                        }
                    }
                    if self.o.tagged_assignments && self.o.tags && self.rng.chance(1, 8) {
                        let tn = self.rng.below(30) as u32;
                        let mut t = self.tag_for(&ty, tn);
                        if self.rng.chance(1, 2) {
                            t.class = TagClass::Application;
                        }
                        ty.tag = Some(t);
                    }
                    self.env.insert(name.clone(), (mi, ty.clone()));
                    assigns.push(Assign::Type { name, ty });
                    pi += 1;
                } else {
                    self.cur = pi;
                    if let Some(a) = self.value_assignment() {
                        assigns.push(a);
                    }
                }
            }
            if self.o.class_fields {
                let cn = format!("CLSQ{}", mi + 1);
                let toks: Vec<String> = format!("{cn} ::= CLASS {{ &id INTEGER UNIQUE , &flag BOOLEAN OPTIONAL , &Type OPTIONAL }} WITH SYNTAX {{ ID &id [ FLAG &flag ] [ TYPE &Type ] }}").split(' ').map(|x| x.to_string()).collect();
                assigns.push(Assign::Raw { name: cn, tokens: toks });
            }
            self.rng.shuffle(&mut assigns);
            let mut imports: BTreeMap<usize, Vec<String>> = BTreeMap::new();
            for (m, s) in &self.foreign {
                imports.entry(*m).or_default().push(s.clone());
            }
            let imports = imports.into_iter().map(|(m, syms)| (format!("Mq{}", m + 1), syms)).collect();
            modules.push(MModule {
                name: format!("Mq{}", mi + 1),
                tagging: self.tagging,
                ext_implied: self.o.ext_implied && self.rng.chance(1, 5),
                imports,
                assigns,
                oid: if self.rng.chance(1, 3) { Some(mi as u32 + 1) } else { None },
            });
        }
        ModuleSet { modules }
    }
}

pub fn random_set(seed: u64, salt: u64, idx: u64, o: &GenOpts) -> ModuleSet {
    // The compiler's recursion detection enumerates the simple paths of the type reference graph (`ASN1Type::recurses`), so a
    // dense graph of ~20 mutually referencing types compiles for minutes (observed: 440 s). That is a cost, not one of the
    // properties: sets whose reference graph has too many paths are re-drawn (with fewer definitions each time).
    let mut o2 = o.clone();
    for attempt in 0..6u64 {
        let mut rng = Rng::for_case(seed, salt.wrapping_add(attempt.wrapping_mul(7_919_000)), idx);
        let set = Gen::new(&mut rng, o2.clone()).module_set();
        if reference_paths(&set, 200_000) < 200_000 {
            return set;
        }
        o2.assigns = (o2.assigns.0.min(2), (o2.assigns.1 / 2).max(2));
    }
    let mut rng = Rng::for_case(seed, salt, idx);
    let mut o3 = o.clone();
    o3.recursion = false;
    o3.assigns = (1, 2);
    Gen::new(&mut rng, o3).module_set()
}

/// number of simple paths in the type reference graph, summed over all start nodes, capped at `cap`
pub fn reference_paths(set: &ModuleSet, cap: u64) -> u64 {
    fn refs(t: &Ty, out: &mut Vec<String>) {
        match &t.kind {
            TyKind::Ref { name, .. } => out.push(name.clone()),
            TyKind::Sequence(s) | TyKind::Set(s) | TyKind::Choice(s) => struct_comps(s).iter().for_each(|c| refs(&c.ty, out)),
            TyKind::SeqOf(e) | TyKind::SetOf(e) => refs(e, out),
            _ => {}
        }
    }
    let mut names: Vec<String> = vec![];
    let mut edges: Vec<Vec<String>> = vec![];
    for m in &set.modules {
        for a in &m.assigns {
            if let Assign::Type { name, ty } = a {
                let mut r = vec![];
                refs(ty, &mut r);
                r.sort();
                r.dedup();
                names.push(name.clone());
                edges.push(r);
            }
        }
    }
    let idx: BTreeMap<&str, usize> = names.iter().enumerate().map(|(i, n)| (n.as_str(), i)).collect();
    let adj: Vec<Vec<usize>> = edges.iter().map(|r| r.iter().filter_map(|n| idx.get(n.as_str()).copied()).collect()).collect();
    fn walk(v: usize, adj: &[Vec<usize>], on: &mut Vec<bool>, count: &mut u64, cap: u64) {
        *count += 1;
        if *count >= cap {
            return;
        }
        on[v] = true;
        for &w in &adj[v] {
            if !on[w] {
                walk(w, adj, on, count, cap);
                if *count >= cap {
                    break;
                }
            }
        }
        on[v] = false;
    }
    let mut total = 0u64;
    for v in 0..adj.len() {
        let mut on = vec![false; adj.len()];
        walk(v, &adj, &mut on, &mut total, cap);
        if total >= cap {
            return cap;
        }
    }
    total
}

// ---------------------------------------------------------------------------------- shrinking
fn simpler_struct(s: &Struct) -> Vec<Struct> {
    let mut out = vec![];
    for i in 0..s.root.len() {
        let mut t = s.clone();
        t.root.remove(i);
        out.push(t);
    }
    for i in 0..s.root2.len() {
        let mut t = s.clone();
        t.root2.remove(i);
        out.push(t);
    }
    if let Some(adds) = &s.ext {
        if s.root2.is_empty() {
            let mut t = s.clone();
            t.ext = None;
            out.push(t);
        }
        for i in 0..adds.len() {
            let mut t = s.clone();
            t.ext.as_mut().unwrap().remove(i);
            out.push(t);
            if let Addition::Group { version, comps } = &adds[i] {
                if version.is_some() {
                    let mut t = s.clone();
                    t.ext.as_mut().unwrap()[i] = Addition::Group { version: None, comps: comps.clone() };
                    out.push(t);
                }
                for j in 0..comps.len() {
                    if comps.len() > 1 {
                        let mut c2 = comps.clone();
                        c2.remove(j);
                        let mut t = s.clone();
                        t.ext.as_mut().unwrap()[i] = Addition::Group { version: *version, comps: c2 };
                        out.push(t);
                    }
                    for v in simpler_comp(&comps[j]) {
                        let mut c2 = comps.clone();
                        c2[j] = v;
                        let mut t = s.clone();
                        t.ext.as_mut().unwrap()[i] = Addition::Group { version: *version, comps: c2 };
                        out.push(t);
                    }
                }
            }
            if let Addition::Comp(c) = &adds[i] {
                for v in simpler_comp(c) {
                    let mut t = s.clone();
                    t.ext.as_mut().unwrap()[i] = Addition::Comp(v);
                    out.push(t);
                }
            }
        }
    }
    for i in 0..s.root.len() {
        for v in simpler_comp(&s.root[i]) {
            let mut t = s.clone();
            t.root[i] = v;
            out.push(t);
        }
    }
    for i in 0..s.root2.len() {
        for v in simpler_comp(&s.root2[i]) {
            let mut t = s.clone();
            t.root2[i] = v;
            out.push(t);
        }
    }
    out
}

fn simpler_comp(c: &Comp) -> Vec<Comp> {
    let mut out = vec![];
    if c.opt != Optionality::Required {
        out.push(Comp { opt: Optionality::Required, ..c.clone() });
    }
    for t in simpler_ty(&c.ty) {
        // a DEFAULT value may not fit the simplified type: drop it together
        out.push(Comp { name: c.name.clone(), ty: t, opt: if matches!(c.opt, Optionality::Default(_)) { Optionality::Required } else { c.opt.clone() } });
    }
    out
}

pub fn simpler_ty(t: &Ty) -> Vec<Ty> {
    let mut out = vec![];
    if !matches!(t.kind, TyKind::Null) || t.tag.is_some() || t.constraint.is_some() {
        out.push(Ty::plain(TyKind::Null));
    }
    if t.tag.is_some() {
        out.push(Ty { tag: None, ..t.clone() });
    }
    if t.constraint.is_some() {
        out.push(Ty { constraint: None, ..t.clone() });
    }
    if t.alphabet.is_some() {
        out.push(Ty { alphabet: None, ..t.clone() });
    }
    match &t.kind {
        TyKind::Sequence(s) | TyKind::Set(s) | TyKind::Choice(s) => {
            for v in simpler_struct(s) {
                if matches!(t.kind, TyKind::Choice(_)) && v.root.is_empty() {
                    continue;
                }
                let kind = match &t.kind {
                    TyKind::Sequence(_) => TyKind::Sequence(v),
                    TyKind::Set(_) => TyKind::Set(v),
                    _ => TyKind::Choice(v),
                };
                out.push(Ty { kind, ..t.clone() });
            }
            if let TyKind::Set(s) = &t.kind {
                out.push(Ty { kind: TyKind::Sequence(s.clone()), ..t.clone() });
            }
        }
        TyKind::SeqOf(e) | TyKind::SetOf(e) => {
            out.push((**e).clone());
            for v in simpler_ty(e) {
                let kind = if matches!(t.kind, TyKind::SeqOf(_)) { TyKind::SeqOf(Box::new(v)) } else { TyKind::SetOf(Box::new(v)) };
                out.push(Ty { kind, ..t.clone() });
            }
        }
        TyKind::Integer { named } if !named.is_empty() => out.push(Ty { kind: TyKind::Integer { named: vec![] }, ..t.clone() }),
        TyKind::BitString { named } if !named.is_empty() => out.push(Ty { kind: TyKind::BitString { named: vec![] }, ..t.clone() }),
        TyKind::Enumerated(e) => {
            if e.ext.is_some() {
                out.push(Ty { kind: TyKind::Enumerated(EnumT { root: e.root.clone(), ext: None }), ..t.clone() });
            }
            if e.root.len() > 1 {
                out.push(Ty { kind: TyKind::Enumerated(EnumT { root: e.root[..1].to_vec(), ext: e.ext.clone() }), ..t.clone() });
            }
        }
        _ => {}
    }
    out
}

/// Deterministic greedy shrinker over the model: keeps `pred` true.
pub fn shrink(set: &ModuleSet, pred: &dyn Fn(&ModuleSet) -> bool) -> ModuleSet {
    let mut cur = set.clone();
    let mut budget = 600usize;
    'outer: loop {
        if budget == 0 {
            break;
        }
        // drop whole modules
        if cur.modules.len() > 1 {
            for i in 0..cur.modules.len() {
                let mut t = cur.clone();
                let gone = t.modules.remove(i).name;
                for m in t.modules.iter_mut() {
                    m.imports.retain(|(f, _)| *f != gone);
                }
                budget = budget.saturating_sub(1);
                if pred(&t) {
                    cur = t;
                    continue 'outer;
                }
            }
        }
        // drop assignments
        for mi in 0..cur.modules.len() {
            for ai in 0..cur.modules[mi].assigns.len() {
                let mut t = cur.clone();
                t.modules[mi].assigns.remove(ai);
                budget = budget.saturating_sub(1);
                if pred(&t) {
                    cur = t;
                    continue 'outer;
                }
            }
        }
        // header simplifications
        for mi in 0..cur.modules.len() {
            let m = &cur.modules[mi];
            let mut cands = vec![];
            if m.oid.is_some() {
                let mut t = cur.clone();
                t.modules[mi].oid = None;
                cands.push(t);
            }
            if m.ext_implied {
                let mut t = cur.clone();
                t.modules[mi].ext_implied = false;
                cands.push(t);
            }
            if !m.imports.is_empty() {
                let mut t = cur.clone();
                t.modules[mi].imports.clear();
                cands.push(t);
            }
            for t in cands {
                budget = budget.saturating_sub(1);
                if pred(&t) {
                    cur = t;
                    continue 'outer;
                }
            }
        }
        // simplify types
        for mi in 0..cur.modules.len() {
            for ai in 0..cur.modules[mi].assigns.len() {
                let vars: Vec<Assign> = match &cur.modules[mi].assigns[ai] {
                    Assign::Type { name, ty } => simpler_ty(ty).into_iter().map(|t| Assign::Type { name: name.clone(), ty: t }).collect(),
                    Assign::Value { .. } | Assign::Raw { .. } => vec![],
                };
                for v in vars {
                    let mut t = cur.clone();
                    t.modules[mi].assigns[ai] = v;
                    budget = budget.saturating_sub(1);
                    if pred(&t) {
                        cur = t;
                        continue 'outer;
                    }
                    if budget == 0 {
                        break 'outer;
                    }
                }
            }
        }
        break;
    }
    cur
}

/// Module pairs aimed at the order-sensitive import bookkeeping of the linker: module B imports only *values*
/// whose governing types are defined in module A (the linker then adds the associated types to B's imports).
pub fn assoc_import_set(rng: &mut Rng) -> ModuleSet {
    let k = 2 + rng.below(4);
    let mut a_assigns = vec![];
    let mut names = vec![];
    for i in 0..k {
        let tn = format!("Tq{}", 10 + i);
        let vn = format!("vq{}", 30 + i);
        let ty = Ty { constraint: if rng.chance(1, 2) { Some(Constraint::Range { lo: Some(0), hi: Some(100 + i as i128), ext: false }) } else { None }, ..Ty::plain(TyKind::Integer { named: vec![] }) };
        a_assigns.push(Assign::Type { name: tn.clone(), ty });
        a_assigns.push(Assign::Value { name: vn.clone(), ty: Ty::plain(TyKind::Ref { module: None, name: tn.clone() }), val: Val::Int(1 + i as i128) });
        names.push((tn, vn));
    }
    rng.shuffle(&mut a_assigns);
    let mut comps = vec![];
    for (i, (_, vn)) in names.iter().enumerate() {
        comps.push(Comp { name: format!("fq{}", 50 + i), ty: Ty::plain(TyKind::Integer { named: vec![] }), opt: Optionality::Default(Val::Ident(vn.clone())) });
    }
    let mut syms: Vec<String> = names.iter().map(|n| n.1.clone()).collect();
    if rng.chance(1, 3) {
        syms.push(names[0].0.clone());
    }
    rng.shuffle(&mut syms);
    let b = MModule {
        name: "Mq2".into(),
        tagging: *rng.pick(&Tagging::all()),
        ext_implied: false,
        imports: vec![("Mq1".into(), syms)],
        assigns: vec![Assign::Type { name: "Tq90".into(), ty: Ty::plain(TyKind::Sequence(Struct { root: comps, ext: None, root2: vec![] })) }],
        oid: None,
    };
    let a = MModule { name: "Mq1".into(), tagging: Tagging::Automatic, ext_implied: false, imports: vec![], assigns: a_assigns, oid: if rng.chance(1, 2) { Some(1) } else { None } };
    if rng.chance(1, 5) {
        // the governing types live in the importing module itself and the values, in Mq3, name them module-qualified
        // (`vq30 Mq2.Tq10 ::= 1`): the associated type of an imported value is then a type of the importer's own
        let mut b = b;
        let (types, values): (Vec<Assign>, Vec<Assign>) = a.assigns.into_iter().partition(|x| matches!(x, Assign::Type { .. }));
        let type_names: Vec<String> = types.iter().map(|t| t.name().to_string()).collect();
        let values: Vec<Assign> = values
            .into_iter()
            .map(|v| match v {
                Assign::Value { name, ty: Ty { kind: TyKind::Ref { name: tn, .. }, .. }, val } => Assign::Value { name, ty: Ty::plain(TyKind::Ref { module: Some("Mq2".into()), name: tn }), val },
                other => other,
            })
            .collect();
        b.assigns.extend(types);
        for (from, syms) in b.imports.iter_mut() {
            *from = "Mq3".into();
            syms.retain(|s| !type_names.contains(s));
        }
        let v = MModule { name: "Mq3".into(), tagging: Tagging::Automatic, ext_implied: false, imports: vec![], assigns: values, oid: None };
        return ModuleSet { modules: vec![b, v] };
    }
    if rng.chance(1, 3) {
        // three modules: the values live in Mq3, their governing types in Mq1; Mq2 imports the values (from Mq3) only, so the
        // associated types come from a module Mq2 has no IMPORTS clause for
        let mut a = a;
        let mut b = b;
        let (types, values): (Vec<Assign>, Vec<Assign>) = a.assigns.drain(..).partition(|x| matches!(x, Assign::Type { .. }));
        let type_names: Vec<String> = types.iter().map(|t| t.name().to_string()).collect();
        a.assigns = types;
        let v = MModule { name: "Mq3".into(), tagging: Tagging::Automatic, ext_implied: false, imports: vec![("Mq1".into(), type_names.clone())], assigns: values, oid: None };
        for (from, syms) in b.imports.iter_mut() {
            *from = "Mq3".into();
            syms.retain(|s| !type_names.contains(s));
        }
        return ModuleSet { modules: vec![a, b, v] };
    }
    ModuleSet { modules: vec![a, b] }
}


// ---------------------------------------------------------------------------------- tag legality (X.680 §25.6, §27.3, §29.3)
/// Conservative legality check used by shrinkers whose predicate depends on downstream tools that assume legal tags:
/// inside every SEQUENCE, SET and CHOICE that is not automatically tagged, the outermost tags of *all* components are
/// pairwise distinct (stronger than the standard asks for SEQUENCE, so "true" always means legal). Untagged open types
/// and dangling references make the answer "false".
pub fn tags_legal(set: &ModuleSet) -> bool {
    let env = set.type_env();
    for m in &set.modules {
        for a in &m.assigns {
            let ty = match a {
                Assign::Type { ty, .. } | Assign::Value { ty, .. } => ty,
                Assign::Raw { .. } => continue,
            };
            if !ty_tags_legal(ty, m.tagging.is_automatic(), set, &env) {
                return false;
            }
        }
    }
    true
}

pub fn struct_comps_pub(s: &Struct) -> Vec<&Comp> {
    struct_comps(s)
}

fn struct_comps(s: &Struct) -> Vec<&Comp> {
    let mut v: Vec<&Comp> = s.root.iter().collect();
    if let Some(adds) = &s.ext {
        for a in adds {
            match a {
                Addition::Comp(c) => v.push(c),
                Addition::Group { comps, .. } => v.extend(comps.iter()),
            }
        }
    }
    v.extend(s.root2.iter());
    v
}

fn ty_tags_legal(t: &Ty, automatic: bool, set: &ModuleSet, env: &BTreeMap<String, (usize, Ty)>) -> bool {
    match &t.kind {
        TyKind::Sequence(s) | TyKind::Set(s) | TyKind::Choice(s) => {
            let comps = struct_comps(s);
            for c in &comps {
                if !ty_tags_legal(&c.ty, automatic, set, env) {
                    return false;
                }
            }
            if automatic && comps.iter().all(|c| c.ty.tag.is_none()) {
                return true;
            }
            let mut seen = std::collections::BTreeSet::new();
            for c in comps {
                match outer_tags(&c.ty, automatic, set, env, 0) {
                    Some(ts) => {
                        for x in ts {
                            if !seen.insert(x) {
                                return false;
                            }
                        }
                    }
                    None => return false,
                }
            }
            true
        }
        TyKind::SeqOf(e) | TyKind::SetOf(e) => ty_tags_legal(e, automatic, set, env),
        _ => true,
    }
}

fn outer_tags(t: &Ty, automatic: bool, set: &ModuleSet, env: &BTreeMap<String, (usize, Ty)>, depth: usize) -> Option<Vec<(TagClass, u32)>> {
    if let Some(tag) = &t.tag {
        return Some(vec![(tag.class, tag.num)]);
    }
    if depth > 16 {
        return None;
    }
    let u = |n: u32| Some(vec![(TagClass::Universal, n)]);
    match &t.kind {
        TyKind::Boolean => u(1),
        TyKind::Integer { .. } => u(2),
        TyKind::BitString { .. } => u(3),
        TyKind::OctetString => u(4),
        TyKind::Null => u(5),
        TyKind::Oid => u(6),
        TyKind::Enumerated(_) => u(10),
        TyKind::RelOid => u(13),
        TyKind::UtcTime => u(23),
        TyKind::GenTime => u(24),
        TyKind::Str(k) => u(match k {
            StrKind::Utf8 => 12,
            StrKind::Numeric => 18,
            StrKind::Printable => 19,
            StrKind::Teletex => 20,
            StrKind::Ia5 => 22,
            StrKind::Graphic => 25,
            StrKind::Visible => 26,
            StrKind::General => 27,
            StrKind::Universal => 28,
            StrKind::Bmp => 30,
        }),
        TyKind::Sequence(_) | TyKind::SeqOf(_) => u(16),
        TyKind::Set(_) | TyKind::SetOf(_) => u(17),
        TyKind::Choice(s) => {
            let comps = struct_comps(s);
            if automatic && comps.iter().all(|c| c.ty.tag.is_none()) {
                return Some((0..comps.len() as u32).map(|i| (TagClass::Context, i)).collect());
            }
            let mut v = vec![];
            for c in comps {
                v.extend(outer_tags(&c.ty, automatic, set, env, depth + 1)?);
            }
            Some(v)
        }
        TyKind::Ref { name, .. } => {
            let (mi, ty) = env.get(name)?;
            outer_tags(ty, set.modules[*mi].tagging.is_automatic(), set, env, depth + 1)
        }
        TyKind::Any | TyKind::ClassField { .. } => None,
    }
}
