//! Shared plumbing: PRNG, run context, verdict/evidence/replay/known-finding handling.
use serde_json::{json, Value};
use std::collections::{BTreeMap, BTreeSet, HashSet};
use std::hash::{Hash, Hasher};
use std::sync::Mutex;
use std::time::Instant;

pub const VERIF_DIR: &str = "/verif";
pub const REPO_DIR: &str = "/repo";

// ------------------------------------------------------------------ PRNG
#[derive(Clone)]
pub struct Rng(pub u64);
impl Rng {
    pub fn new(seed: u64) -> Self {
        Rng(seed.wrapping_mul(0x9E3779B97F4A7C15) ^ 0xD1B54A32D192ED03)
    }
    /// Independent stream for (seed, index).
    pub fn for_case(seed: u64, salt: u64, idx: u64) -> Self {
        let mut r = Rng(seed ^ salt.wrapping_mul(0xA24BAED4963EE407) ^ idx.wrapping_mul(0x9FB21C651E98DF25));
        r.next();
        r.next();
        r
    }
    pub fn next(&mut self) -> u64 {
        self.0 = self.0.wrapping_add(0x9E3779B97F4A7C15);
        let mut z = self.0;
        z = (z ^ (z >> 30)).wrapping_mul(0xBF58476D1CE4E5B9);
        z = (z ^ (z >> 27)).wrapping_mul(0x94D049BB133111EB);
        z ^ (z >> 31)
    }
    pub fn below(&mut self, n: usize) -> usize {
        if n == 0 {
            0
        } else {
            (self.next() % n as u64) as usize
        }
    }
    pub fn range(&mut self, lo: i64, hi: i64) -> i64 {
        lo + (self.next() % ((hi - lo + 1) as u64)) as i64
    }
    pub fn chance(&mut self, num: u32, den: u32) -> bool {
        (self.next() % den as u64) < num as u64
    }
    pub fn pick<'a, T>(&mut self, v: &'a [T]) -> &'a T {
        &v[self.below(v.len())]
    }
    pub fn shuffle<T>(&mut self, v: &mut [T]) {
        for i in (1..v.len()).rev() {
            let j = self.below(i + 1);
            v.swap(i, j);
        }
    }
}

pub fn hash_str(s: &str) -> u64 {
    let mut h = std::collections::hash_map::DefaultHasher::new();
    s.hash(&mut h);
    h.finish()
}
pub fn hash_of<T: Hash>(t: &T) -> u64 {
    let mut h = std::collections::hash_map::DefaultHasher::new();
    t.hash(&mut h);
    h.finish()
}

// ------------------------------------------------------------------ context
#[derive(Clone, Copy, PartialEq, Eq, Debug)]
pub enum Tier {
    Quick,
    Thorough,
}

pub struct Ctx {
    pub prop: String,
    pub tier: Tier,
    pub seed: u64,
    pub start: Instant,
    pub replay: Option<String>,
}
impl Ctx {
    pub fn quick(&self) -> bool {
        self.tier == Tier::Quick
    }
    pub fn pick<T: Copy>(&self, q: T, t: T) -> T {
        if self.quick() {
            q
        } else {
            t
        }
    }
}

// ------------------------------------------------------------------ report
#[derive(Clone, Debug)]
pub struct Violation {
    /// `monitor|discrepancy-kind|feature-key` (spec-side facts only)
    pub sig: String,
    /// One-line human description.
    pub what: String,
    /// Everything needed to re-execute the case.
    pub replay: Value,
}

#[derive(Default)]
pub struct Report {
    pub evaluations: u64,
    pub nontrivial: HashSet<u64>,
    pub samples: Vec<Value>,
    pub counters: BTreeMap<String, u64>,
    pub sets: BTreeMap<String, BTreeSet<String>>,
    pub violations: Vec<Violation>,
    pub inconclusive: Vec<String>,
    pub rule: String,
    pub exhaustive: Option<bool>,
    pub assumptions: Vec<String>,
    pub extra: BTreeMap<String, Value>,
    pub level: String,
    /// names of counters that must be > 0 for the run to count as having observed something
    pub must_observe: Vec<String>,
}

impl Report {
    pub fn new(level: &str, rule: &str) -> Self {
        Report { level: level.into(), rule: rule.into(), ..Default::default() }
    }
    pub fn count(&mut self, k: &str, n: u64) {
        *self.counters.entry(k.to_string()).or_insert(0) += n;
    }
    pub fn note(&mut self, set: &str, v: impl Into<String>) {
        let s = self.sets.entry(set.to_string()).or_default();
        if s.len() < 4096 {
            s.insert(v.into());
        }
    }
    pub fn sample(&mut self, v: Value) {
        if self.samples.len() < 6 {
            self.samples.push(v);
        }
    }
    pub fn merge(&mut self, o: Report) {
        self.evaluations += o.evaluations;
        self.nontrivial.extend(o.nontrivial);
        for s in o.samples {
            self.sample(s);
        }
        for (k, v) in o.counters {
            *self.counters.entry(k).or_insert(0) += v;
        }
        for (k, v) in o.sets {
            let e = self.sets.entry(k).or_default();
            for x in v {
                if e.len() < 4096 {
                    e.insert(x);
                }
            }
        }
        self.violations.extend(o.violations);
        self.inconclusive.extend(o.inconclusive);
        for (k, v) in o.extra {
            self.extra.insert(k, v);
        }
    }
}

/// Thread-safe accumulator used from rayon workers.
pub struct Acc(pub Mutex<Report>);
impl Acc {
    pub fn new(r: Report) -> Self {
        Acc(Mutex::new(r))
    }
    pub fn with<R>(&self, f: impl FnOnce(&mut Report) -> R) -> R {
        let mut g = self.0.lock().unwrap_or_else(|e| e.into_inner());
        f(&mut g)
    }
    pub fn into_inner(self) -> Report {
        self.0.into_inner().unwrap_or_else(|e| e.into_inner())
    }
}

// ------------------------------------------------------------------ known findings
pub struct Findings {
    /// (property, sig) -> description
    pub known: BTreeMap<(String, String), String>,
}
impl Findings {
    pub fn load() -> Self {
        let mut known = BTreeMap::new();
        let p = format!("{VERIF_DIR}/known_findings.txt");
        if let Ok(s) = std::fs::read_to_string(&p) {
            for line in s.lines() {
                let line = line.trim();
                if let Some(rest) = line.strip_prefix("known: property=") {
                    // known: property=C04 sig=<sig> :: <what>
                    if let Some((prop, rest)) = rest.split_once(" sig=") {
                        let (sig, what) = match rest.split_once(" :: ") {
                            Some((s, w)) => (s, w),
                            None => (rest, ""),
                        };
                        known.insert((prop.trim().to_string(), sig.trim().to_string()), what.trim().to_string());
                    }
                }
                // `fixed:` lines suppress nothing.
            }
        }
        Findings { known }
    }
}

// ------------------------------------------------------------------ finish
pub fn finish(ctx: &Ctx, mut rep: Report) -> i32 {
    let findings = Findings::load();
    let wall = ctx.start.elapsed().as_secs_f64();
    // group violations by signature
    let mut by_sig: BTreeMap<String, Vec<Violation>> = BTreeMap::new();
    for v in std::mem::take(&mut rep.violations) {
        by_sig.entry(v.sig.clone()).or_default().push(v);
    }
    let mut unlisted = 0u64;
    let mut known_hits: BTreeMap<String, u64> = BTreeMap::new();
    let mut new_sigs: Vec<Value> = vec![];
    let replay_dir = format!("{VERIF_DIR}/replay/{}", ctx.prop);
    for (sig, vs) in &by_sig {
        if let Some(what) = findings.known.get(&(ctx.prop.clone(), sig.clone())) {
            known_hits.insert(sig.clone(), vs.len() as u64);
            println!(
                "KNOWN-FINDING: property={} {} [sig={}] (n={} this run; e.g. {})",
                ctx.prop,
                what,
                sig,
                vs.len(),
                one_line(&vs[0].what, 200)
            );
        } else {
            unlisted += vs.len() as u64;
            let _ = std::fs::create_dir_all(&replay_dir);
            let path = format!("{replay_dir}/{:016x}.json", hash_str(sig));
            let doc = json!({
                "property": ctx.prop, "sig": sig, "what": vs[0].what, "seed": ctx.seed,
                "tier": if ctx.quick() {"quick"} else {"thorough"},
                "n_cases_with_this_sig": vs.len(),
                "case": vs[0].replay,
            });
            let _ = std::fs::write(&path, serde_json::to_string_pretty(&doc).unwrap());
            println!("VIOLATION property={} replay={}", ctx.prop, path);
            println!("  sig={sig}");
            println!("  what={}", one_line(&vs[0].what, 400));
            if std::env::var("VERIF_SHOW_ALL").is_ok() {
                for v in vs.iter().skip(1) {
                    println!("  also={}", one_line(&v.what, 200));
                }
            }
            new_sigs.push(json!({"sig": sig, "n": vs.len(), "what": one_line(&vs[0].what, 300)}));
        }
    }
    // observed-nothing guard
    let mut starved: Vec<String> = vec![];
    for k in &rep.must_observe {
        if rep.counters.get(k).copied().unwrap_or(0) == 0 {
            starved.push(k.clone());
        }
    }
    if rep.samples.is_empty() && ctx.replay.is_none() {
        // evidence without a written-out case is no evidence: treat as a harness failure, not as "held"
        starved.push("samples".to_string());
    }
    let distinct = rep.nontrivial.len() as u64;
    let mut coverage = serde_json::Map::new();
    coverage.insert("evaluations".into(), json!(rep.evaluations));
    coverage.insert("distinct_nontrivial".into(), json!(distinct));
    coverage.insert("rule".into(), json!(rep.rule));
    coverage.insert("samples".into(), json!(rep.samples));
    if let Some(e) = rep.exhaustive {
        coverage.insert("exhaustive".into(), json!(e));
    }
    coverage.insert("counters".into(), json!(rep.counters));
    let sets: BTreeMap<String, Value> = rep
        .sets
        .iter()
        .map(|(k, v)| (k.clone(), json!({"n": v.len(), "values": v.iter().take(60).collect::<Vec<_>>()})))
        .collect();
    coverage.insert("observed_sets".into(), json!(sets));
    coverage.insert("inconclusive".into(), json!(rep.inconclusive.len()));
    coverage.insert("inconclusive_examples".into(), json!(rep.inconclusive.iter().take(5).collect::<Vec<_>>()));
    coverage.insert("known_finding_hits".into(), json!(known_hits));
    coverage.insert("unlisted_violation_signatures".into(), json!(new_sigs));
    for (k, v) in &rep.extra {
        coverage.insert(k.clone(), v.clone());
    }
    let ev = json!({
        "property_id": ctx.prop,
        "tier": if ctx.quick() {"quick"} else {"thorough"},
        "seed": ctx.seed,
        "level": rep.level,
        "coverage": Value::Object(coverage),
        "assumptions": rep.assumptions,
        "wall_s": wall,
        "violations": unlisted,
        "verdict": if unlisted > 0 { "violated" } else if !starved.is_empty() { "inconclusive" } else { "held on what was observed" },
    });
    if ctx.replay.is_none() {
        let _ = std::fs::create_dir_all(format!("{VERIF_DIR}/evidence"));
        let path = format!("{VERIF_DIR}/evidence/{}.json", ctx.prop);
        std::fs::write(&path, serde_json::to_string_pretty(&ev).unwrap()).expect("write evidence");
    }
    println!(
        "[{}] tier={:?} seed={} evaluations={} distinct_nontrivial={} violations(unlisted)={} known-signatures-hit={} inconclusive={} wall={:.1}s",
        ctx.prop,
        ctx.tier,
        ctx.seed,
        rep.evaluations,
        distinct,
        unlisted,
        known_hits.len(),
        rep.inconclusive.len(),
        wall
    );
    for (k, v) in &rep.counters {
        println!("    {k} = {v}");
    }
    if unlisted > 0 {
        return 1;
    }
    if !starved.is_empty() {
        println!("INCONCLUSIVE: monitors observed nothing for: {starved:?}");
        return 2;
    }
    0
}

pub fn one_line(s: &str, max: usize) -> String {
    let t: String = s.chars().map(|c| if c == '\n' || c == '\r' { ' ' } else { c }).collect();
    if t.chars().count() > max {
        let mut o: String = t.chars().take(max).collect();
        o.push('…');
        o
    } else {
        t
    }
}

/// Parallel map over an index range with a per-thread big stack (rayon pool configured in main).
pub fn par_for(n: u64, f: impl Fn(u64) + Sync + Send) {
    use rayon::prelude::*;
    (0..n).into_par_iter().for_each(|i| f(i));
}
