//! C06 — the chosen Rust integer type can hold every permitted value; literals fit their type.
use crate::comp;
use crate::core::*;
use crate::iv::*;
use crate::proj::{self, Kind, Module};
use serde_json::json;

pub fn boundary_points() -> Vec<i128> {
    let mut v: Vec<i128> = vec![0, 1, -1];
    for k in [7u32, 8, 15, 16, 31, 32, 63, 64] {
        let p = 1i128 << k;
        v.extend([p, p + 1, p - 1, -p, -p + 1, -p - 1]);
    }
    v.sort();
    v.dedup();
    v
}

fn b2s(b: Option<i128>, lower: bool) -> String {
    match b {
        Some(v) => v.to_string(),
        None => if lower { "MIN" } else { "MAX" }.to_string(),
    }
}

/// A constraint expression over INTEGER with its exact permitted set.
#[derive(Clone, Debug)]
pub struct IntCase {
    pub text: String,    // e.g. "(0..255)" or "(0..10)(5..300)" or "(0..5 | 7..9, ...)"
    pub permitted: IvSet, // exact set permitted (root part)
    pub extensible: bool, // outermost constraint carries a marker
    pub ext_ambiguous: bool,
    /// values the type must be able to hold when that is more than the root set: for `(A)(B, ...)` the extension
    /// additions of the outer constraint range over the parent A (X.680 50.9), so the whole of A must fit
    pub must_hold: Option<IvSet>,
    pub key: String,
}

fn range_case(lo: Option<i128>, hi: Option<i128>, ext: bool) -> IntCase {
    let text = format!("({}..{}{})", b2s(lo, true), b2s(hi, false), if ext { ", ..." } else { "" });
    IntCase { key: text.clone(), text, permitted: IvSet::single(Iv::new(lo, hi)), extensible: ext, ext_ambiguous: false, must_hold: None }
}

/// resolve a type token to the underlying integer token (u8.. / Integer) through delegate newtypes
pub fn resolve_int(m: &Module, ty: &str, depth: usize) -> Option<String> {
    if depth > 8 {
        return None;
    }
    let ty = ty.strip_prefix("Option<").and_then(|t| t.strip_suffix('>')).unwrap_or(ty);
    let ty = ty.strip_prefix("Box<").and_then(|t| t.strip_suffix('>')).unwrap_or(ty);
    if ty == "Integer" || rust_int_range(ty).is_some() {
        return Some(ty.to_string());
    }
    let it = m.find(ty)?;
    if let Kind::Struct { fields, tuple: true } = &it.kind {
        if fields.len() == 1 {
            return resolve_int(m, &fields[0].ty, depth + 1);
        }
    }
    None
}

fn lit_value(l: &syn::LitInt, neg: bool) -> Option<i128> {
    // magnitude may be up to 2^127 when negated
    let digits = l.base10_digits();
    if neg {
        format!("-{digits}").parse::<i128>().ok()
    } else {
        digits.parse::<i128>().ok()
    }
}

/// Walk an initialiser; check every integer literal against its (suffix or contextual) type.
pub fn check_lits(m: &Module, e: &syn::Expr, ctx_ty: Option<&str>, out: &mut Vec<String>, n_checked: &mut u64) {
    match e {
        syn::Expr::Lit(syn::ExprLit { lit: syn::Lit::Int(l), .. }) => lit_fit(l, false, ctx_ty, out, n_checked),
        syn::Expr::Unary(u) if matches!(u.op, syn::UnOp::Neg(_)) => {
            if let syn::Expr::Lit(syn::ExprLit { lit: syn::Lit::Int(l), .. }) = &*u.expr {
                lit_fit(l, true, ctx_ty, out, n_checked)
            } else {
                check_lits(m, &u.expr, ctx_ty, out, n_checked)
            }
        }
        syn::Expr::Call(c) => {
            let f = proj::norm(&c.func);
            let inner: Option<String> = if f == "Integer::from" {
                Some("i128".into())
            } else if let Some(it) = m.find(&f) {
                match &it.kind {
                    Kind::Struct { fields, tuple: true } if fields.len() == 1 => Some(fields[0].ty.clone()),
                    _ => None,
                }
            } else {
                None
            };
            for a in &c.args {
                check_lits(m, a, inner.as_deref(), out, n_checked);
            }
        }
        syn::Expr::Paren(p) => check_lits(m, &p.expr, ctx_ty, out, n_checked),
        syn::Expr::Group(p) => check_lits(m, &p.expr, ctx_ty, out, n_checked),
        syn::Expr::MethodCall(mc) => {
            check_lits(m, &mc.receiver, None, out, n_checked);
            for a in &mc.args {
                check_lits(m, a, None, out, n_checked);
            }
        }
        syn::Expr::Reference(r) => check_lits(m, &r.expr, None, out, n_checked),
        syn::Expr::Array(a) => {
            for x in &a.elems {
                check_lits(m, x, None, out, n_checked);
            }
        }
        syn::Expr::Block(b) => {
            if let Some(syn::Stmt::Expr(x, None)) = b.block.stmts.last() {
                check_lits(m, x, ctx_ty, out, n_checked)
            }
        }
        _ => {}
    }
}

fn lit_fit(l: &syn::LitInt, neg: bool, ctx_ty: Option<&str>, out: &mut Vec<String>, n_checked: &mut u64) {
    let ty = if !l.suffix().is_empty() { Some(l.suffix().to_string()) } else { ctx_ty.map(|s| s.to_string()) };
    let Some(ty) = ty else { return };
    let Some(range) = rust_int_range(&ty) else { return };
    *n_checked += 1;
    match lit_value(l, neg) {
        Some(v) if range.contains(v) => {}
        Some(v) => out.push(format!("literal {v} does not fit {ty}")),
        None => out.push(format!("literal {}{} does not fit i128/{ty}", if neg { "-" } else { "" }, l.base10_digits())),
    }
}

fn judge_type(tok: &str, c: &IntCase) -> Vec<(String, String)> {
    let mut out = vec![];
    if let Some(r) = rust_int_range(tok) {
        let need = c.must_hold.as_ref().unwrap_or(&c.permitted);
        if !need.subset_of_iv(&r) {
            out.push(("type-too-narrow".to_string(), format!("{tok} cannot hold {} of INTEGER {}", need.show(), c.text)));
        }
        let h = need.hull();
        if h.is_some_and(|h| h.lo.is_none() || h.hi.is_none()) {
            out.push(("fixed-width-with-infinite-bound".to_string(), format!("{tok} for INTEGER {}", c.text)));
        }
        if c.extensible && !c.ext_ambiguous {
            out.push(("fixed-width-with-extensible".to_string(), format!("{tok} for INTEGER {}", c.text)));
        }
    }
    out
}

fn finite_endpoints(c: &IntCase) -> Vec<i128> {
    let mut v = vec![];
    if let Some(h) = c.permitted.hull() {
        if let Some(l) = h.lo {
            v.push(l);
        }
        if let Some(x) = h.hi {
            if Some(x) != h.lo {
                v.push(x);
            }
        }
    }
    v
}

fn emit_case(n: usize, c: &IntCase, src: &mut String) {
    let t = &c.text;
    if t.starts_with('{') {
        // a named number list can only follow the INTEGER keyword: built-in contexts only
        src.push_str(&format!("Tq{n}a ::= INTEGER {t}\n"));
        src.push_str(&format!("Tq{n}b ::= SEQUENCE {{ fq1 INTEGER {t}, fq3 Tq{n}a OPTIONAL }}\n"));
        src.push_str(&format!("Tq{n}c ::= SEQUENCE OF INTEGER {t}\n"));
        src.push_str(&format!("Tq{n}e ::= CHOICE {{ cq1 INTEGER {t}, cq2 NULL }}\n"));
        return;
    }
    src.push_str(&format!("Tq{n}a ::= INTEGER {t}\n"));
    let ends = finite_endpoints(c);
    let def = ends.first().map(|v| format!(" DEFAULT {v}")).unwrap_or_default();
    let def2 = ends.last().map(|v| format!(" DEFAULT {v}")).unwrap_or_default();
    src.push_str(&format!("Tq{n}b ::= SEQUENCE {{ fq1 INTEGER {t}, fq2 INTEGER {t}{def}, fq3 Tq{n}a{def2}, fq4 Tz {t} }}\n"));
    src.push_str(&format!("Tq{n}c ::= SEQUENCE OF INTEGER {t}\n"));
    src.push_str(&format!("Tq{n}d ::= Tz {t}\n"));
    src.push_str(&format!("Tq{n}e ::= CHOICE {{ cq1 INTEGER {t}, cq2 NULL }}\n"));
    for (i, v) in ends.iter().enumerate() {
        src.push_str(&format!("vq{n}a{i} Tq{n}a ::= {v}\n"));
        src.push_str(&format!("vq{n}b{i} INTEGER {t} ::= {v}\n"));
        src.push_str(&format!("vq{n}d{i} Tq{n}d ::= {v}\n"));
    }
}

fn check_batch(cases: &[IntCase], rep: &mut Report) {
    // `limq` is a value (70000) and, in an unrelated type, a named number (10): as a bound it denotes the value
    let mut src = String::from("Mq1 DEFINITIONS AUTOMATIC TAGS ::= BEGIN\nTz ::= INTEGER\nHq ::= INTEGER { lowq(0), limq(10) }\nlimq INTEGER ::= 70000\nCbase ::= INTEGER (-100..100)\nCq0 ::= INTEGER (-50..5)\nCq1 ::= Cbase (-50..5)\nCq2 ::= INTEGER (0..70000)\nCq3 ::= Cbase (MIN..5)\n");
    for (n, c) in cases.iter().enumerate() {
        emit_case(n, c, &mut src);
    }
    src.push_str("END\n");
    let run = comp::rasn1(&src);
    let mods = match &run.out {
        comp::Outcome::Ok { generated, .. } => proj::project(generated).ok(),
        _ => None,
    };
    let Some(mods) = mods else {
        if cases.len() == 1 {
            rep.evaluations += 1;
            rep.count("not_compiled", 1);
            rep.inconclusive.push(format!("INTEGER {} -> {}", cases[0].text, run.out.brief()));
            return;
        }
        for c in cases {
            check_batch(std::slice::from_ref(c), rep);
        }
        return;
    };
    let m = &mods[0];
    let warned: Vec<&String> = run.out.warnings().iter().collect();
    for (n, c) in cases.iter().enumerate() {
        rep.evaluations += 1;
        let mut found: Vec<(String, String, String)> = vec![]; // (ctx, kind, detail)
        let mut observed = 0u64;
        let mut tok_of = |ctx: &str, ty: &str, found: &mut Vec<(String, String, String)>, rep: &mut Report| {
            if let Some(tok) = resolve_int(m, ty, 0) {
                observed += 1;
                rep.count("int_type_tokens_checked", 1);
                rep.note("integer_tokens_seen", tok.clone());
                for (k, d) in judge_type(&tok, c) {
                    found.push((ctx.to_string(), k, d));
                }
            } else {
                rep.count("type_token_unresolved", 1);
            }
        };
        // type assignment
        if let Some(it) = m.find(&format!("Tq{n}a")) {
            if let Kind::Struct { fields, .. } = &it.kind {
                tok_of("assignment", &fields[0].ty, &mut found, rep);
            }
        }
        if let Some(it) = m.find(&format!("Tq{n}b")) {
            if let Kind::Struct { fields, .. } = &it.kind {
                for f in fields {
                    let ctx = match f.name.as_str() {
                        "fq1" => "component",
                        "fq2" => "component-default",
                        "fq3" => "component-ref",
                        _ => "component-constrained-ref",
                    };
                    tok_of(ctx, &f.ty, &mut found, rep);
                }
            }
        }
        if let Some(it) = m.find(&format!("Tq{n}c")) {
            if let Kind::Struct { fields, .. } = &it.kind {
                let inner = fields[0].ty.strip_prefix("SequenceOf<").and_then(|t| t.strip_suffix('>')).unwrap_or("?").to_string();
                tok_of("sequence-of-element", &inner, &mut found, rep);
            }
        }
        if let Some(it) = m.find(&format!("Tq{n}d")) {
            if let Kind::Struct { fields, .. } = &it.kind {
                tok_of("constrained-reference", &fields[0].ty, &mut found, rep);
            }
        }
        if let Some(it) = m.find(&format!("Tq{n}e")) {
            if let Kind::Enum { variants } = &it.kind {
                if let Some(p) = variants.first().and_then(|v| v.payload.first()) {
                    tok_of("choice-alternative", p, &mut found, rep);
                }
            }
        }
        // literals: constants and default functions of this case
        let mut nl = 0u64;
        for it in &m.items {
            let mine = it.name.to_lowercase().starts_with(&format!("vq{n}a"))
                || it.name.to_lowercase().starts_with(&format!("vq{n}b"))
                || it.name.to_lowercase().starts_with(&format!("vq{n}d"))
                || it.name.starts_with(&format!("tq{n}b_"));
            if !mine {
                continue;
            }
            let mut errs = vec![];
            match &it.kind {
                Kind::Const { ty, init, .. } => {
                    // declared type must itself be able to hold the permitted set
                    tok_of("value-assignment", ty, &mut found, rep);
                    check_lits(m, init, Some(ty.as_str()), &mut errs, &mut nl);
                }
                Kind::Fn { ret, body, .. } => {
                    if let Some(syn::Stmt::Expr(e, None)) = body.stmts.last() {
                        check_lits(m, e, Some(ret.as_str()), &mut errs, &mut nl);
                    }
                }
                _ => {}
            }
            for e in errs {
                found.push(("literal".into(), "literal-does-not-fit".into(), format!("{} in `{}`", e, one_line(&it.text, 160))));
            }
        }
        rep.count("literals_checked", nl);
        if observed > 0 {
            rep.nontrivial.insert(hash_str(&c.key));
        }
        if rep.samples.len() < 4 && (rep.evaluations % 501 == 3) {
            rep.sample(json!({"asn1": format!("INTEGER {}", c.text), "permitted": c.permitted.show(),
                "assignment_item": m.find(&format!("Tq{n}a")).map(|i| i.text.clone())}));
        }
        for (ctx, kind, detail) in found {
            rep.violations.push(Violation {
                sig: format!("c06|{kind}|{ctx}"),
                what: detail,
                replay: json!({"constraint": c.text, "permitted": c.permitted.show(), "extensible": c.extensible,
                     "warnings": warned.iter().take(3).collect::<Vec<_>>() }),
            });
        }
    }
}

/// Bounds that arrive through the parameters of a parameterized type: `Pq {INTEGER: lowq, INTEGER: highq} ::= SEQUENCE
/// { fq1 INTEGER (lowq..highq), fq2 .. DEFAULT highq }` instantiated with (i) two literals, (ii) a literal and a reference to a
/// module-level value, (iii) a literal and a reference to a module-level value that is spelled like the *first* dummy reference
/// (X.683 8.3: inside the template the dummy hides that value, in the actual parameter list it does not).
fn parameterized_bounds(lo: i128, hi: i128, rep: &mut Report) {
    let src = format!(
        "Mq1 DEFINITIONS AUTOMATIC TAGS ::= BEGIN\nPq {{INTEGER: lowq, INTEGER: highq}} ::= SEQUENCE {{ fq1 INTEGER (lowq..highq), fq2 INTEGER (lowq..highq) DEFAULT highq }}\nhvq INTEGER ::= {hi}\nlowq INTEGER ::= {hi}\nTq1 ::= Pq {{{lo}, {hi}}}\nTq2 ::= Pq {{{lo}, hvq}}\nTq3 ::= Pq {{{lo}, lowq}}\nEND\n"
    );
    let run = comp::rasn1(&src);
    rep.evaluations += 1;
    let comp::Outcome::Ok { generated, warnings } = &run.out else {
        rep.count("parameterized[not Ok]", 1);
        return;
    };
    let Ok(mods) = proj::project(generated) else { return };
    let m = &mods[0];
    let case = range_case(Some(lo), Some(hi), false);
    for (t, how) in [("Tq1", "literal-arguments"), ("Tq2", "value-reference-argument"), ("Tq3", "argument-named-like-an-earlier-dummy")] {
        if warnings.iter().any(|w| w.contains(t)) {
            rep.count("parameterized[warned]", 1);
            continue;
        }
        let Some(it) = m.find(t) else { continue };
        let Kind::Struct { fields, .. } = &it.kind else { continue };
        for f in fields {
            let Some(tok) = resolve_int(m, &f.ty, 0) else {
                rep.count("type_token_unresolved", 1);
                continue;
            };
            rep.count("int_type_tokens_checked", 1);
            rep.count("int_type_tokens_checked[parameterized]", 1);
            rep.nontrivial.insert(hash_str(&format!("P{lo},{hi},{t}")));
            for (k, d) in judge_type(&tok, &case) {
                rep.violations.push(Violation { sig: format!("c06|{k}|parameterized-instance|{how}"), what: format!("{t}.{} of `Pq {{{lo}, ..}}` (bounds {lo}..{hi} through {how}): {d}", f.name), replay: json!({"asn1": src, "permitted": case.permitted.show()}) });
            }
        }
        // the DEFAULT literal of the instance
        let mut errs = vec![];
        let mut nl = 0;
        if let Some(Kind::Fn { ret, body, .. }) = m.find_fn(&format!("{}_fq2_default", t.to_lowercase())).map(|i| &i.kind) {
            if let Some(syn::Stmt::Expr(e, None)) = body.stmts.last() {
                check_lits(m, e, Some(ret.as_str()), &mut errs, &mut nl);
            }
        }
        rep.count("literals_checked", nl);
        for e in errs {
            rep.violations.push(Violation { sig: format!("c06|literal-does-not-fit|parameterized-instance|{how}"), what: format!("{t}: {e}"), replay: json!({"asn1": src}) });
        }
    }
}

fn random_case(rng: &mut Rng, pts: &[i128]) -> IntCase {
    let pick_iv = |rng: &mut Rng| -> (Iv, String) {
        let a = *rng.pick(pts) + rng.range(-1, 1) as i128 * (rng.below(3) == 0) as i128;
        let b = *rng.pick(pts);
        let (lo, hi) = if a <= b { (a, b) } else { (b, a) };
        match rng.below(10) {
            0 => (Iv::new(None, Some(hi)), format!("MIN..{hi}")),
            1 => (Iv::new(Some(lo), None), format!("{lo}..MAX")),
            2 => (Iv::new(Some(lo), Some(lo)), format!("{lo}")),
            _ => (Iv::new(Some(lo), Some(hi)), format!("{lo}..{hi}")),
        }
    };
    let (a, ta) = pick_iv(rng);
    let (b, tb) = pick_iv(rng);
    let ext = rng.chance(1, 5);
    let e = if ext { ", ..." } else { "" };
    if rng.chance(1, 8) {
        // marker written after a parenthesised element set: the whole constraint is extensible
        let text = format!("(({ta}), ...)");
        return IntCase { key: text.clone(), text, permitted: IvSet::single(a), extensible: true, ext_ambiguous: false, must_hold: None };
    }
    let (text, set, ext_amb) = match rng.below(3) {
        0 => (format!("({ta} | {tb}{e})"), IvSet::single(a).union(&IvSet::single(b)), false),
        1 => (format!("({ta} ^ {tb}{e})"), IvSet::single(a).intersect(&IvSet::single(b)), false),
        _ => {
            let e1 = if rng.chance(1, 5) { ", ..." } else { "" };
            // X.680 50.8-50.10: extension additions of an outer constraint stay inside the parent type, and a
            // marker on the parent is dropped by a further constraint; only "both carry a marker" is
            // unambiguously extensible-without-bound. Everything else is judged on containment only.
            let both = !e1.is_empty() && ext;
            if e1.is_empty() && ext {
                let text = format!("({ta})({tb}{e})");
                let root = IvSet::single(a).intersect(&IvSet::single(b));
                return IntCase { key: text.clone(), text, permitted: root, extensible: true, ext_ambiguous: true, must_hold: Some(IvSet::single(a)) };
            }
            (format!("({ta}{e1})({tb}{e})"), IvSet::single(a).intersect(&IvSet::single(b)), !both)
        }
    };
    IntCase { key: text.clone(), text, permitted: set, extensible: ext, ext_ambiguous: ext_amb, must_hold: None }
}

pub fn run(ctx: &Ctx) -> Report {
    let mut rep = Report::new(
        "fault_enumeration",
        "exhaustive: all (lower<=upper) pairs of the 53-point boundary set {MIN, MAX, 0, +-1, +-2^k, +-2^k+-1 (k in 7,8,15,16,31,32,63,64)} x {marker, none}, each in 9 contexts (type assignment, component, component with DEFAULT, component of referenced type, constrained reference as component and as assignment, SEQUENCE OF element, CHOICE alternative, value assignments of both endpoints through three typings); plus contained subtypes (`INCLUDES T` / `T`, T directly constrained or a constrained reference with a negative / open lower bound, with and without marker); plus every pair at least two apart with an open upper end `a..<b`; plus seeded random 2-operand union/intersection/serial combinations; plus every pair as the two value parameters of a parameterized SEQUENCE instantiated with literals, with a reference to a module-level value, and with a reference to a module-level value spelled like the first dummy reference. Non-trivial = compiled and at least one integer type token resolved and judged; distinct by constraint text.",
    );
    rep.must_observe = vec!["int_type_tokens_checked".into(), "literals_checked".into(), "int_type_tokens_checked[parameterized]".into()];
    rep.assumptions = vec!["interval model in iv.rs (unit-tested by brute force)".into(), "type tokens resolved through delegate newtypes of the same module".into()];
    let pts = boundary_points();
    let mut cases = vec![];
    if let Some(path) = &ctx.replay {
        let doc: serde_json::Value = serde_json::from_str(&std::fs::read_to_string(path).expect("replay")).expect("json");
        let c = &doc["case"];
        let text = c["constraint"].as_str().unwrap().to_string();
        // rebuild permitted set from the recorded text form "a..b u c..d"
        let mut set = IvSet::empty();
        for part in c["permitted"].as_str().unwrap().split(" u ") {
            if let Some((l, h)) = part.split_once("..") {
                set = set.union(&IvSet::single(Iv::new(l.parse().ok(), h.parse().ok())));
            }
        }
        cases.push(IntCase { key: text.clone(), text, permitted: set, extensible: c["extensible"].as_bool().unwrap_or(false), ext_ambiguous: false, must_hold: None });
        check_batch(&cases, &mut rep);
        return rep;
    }
    let mut bounds: Vec<Option<i128>> = pts.iter().map(|v| Some(*v)).collect();
    bounds.push(None);
    for lo in &bounds {
        for hi in &bounds {
            if let (Some(l), Some(h)) = (lo, hi) {
                if l > h {
                    continue;
                }
            }
            for ext in [false, true] {
                cases.push(range_case(*lo, *hi, ext));
            }
        }
    }
    // open upper end `a..<b` (permits a..b-1) for every boundary pair that leaves at least two values: the lower end is closed
    for lo in &pts {
        for hi in &pts {
            if hi - lo >= 2 {
                let text = format!("({lo}..<{hi})");
                cases.push(IntCase { key: text.clone(), text, permitted: IvSet::single(Iv::new(Some(*lo), Some(hi - 1))), extensible: false, ext_ambiguous: false, must_hold: None });
            }
        }
    }
    rep.exhaustive = Some(true);
    rep.extra.insert("boundary_points".into(), json!(pts.len() + 2));
    rep.extra.insert("exhaustive_pairs_x_marker".into(), json!(cases.len()));
    // named number lists: they name values, they do not restrict the type (X.680 19.5)
    for (i, a) in pts.iter().enumerate() {
        let b = pts[(i * 7 + 3) % pts.len()];
        let text = format!("{{ nqa({a}), nqb({b}) }}");
        cases.push(IntCase { key: text.clone(), text, permitted: IvSet::single(Iv::new(None, None)), extensible: false, ext_ambiguous: false, must_hold: None });
        let (lo, hi) = if *a <= b { (*a, b) } else { (b, *a) };
        let text = format!("{{ nqa({a}), nqb({b}) }} ({lo}..{hi})");
        cases.push(IntCase { key: text.clone(), text, permitted: IvSet::single(Iv::new(Some(lo), Some(hi))), extensible: false, ext_ambiguous: false, must_hold: None });
    }
    // a value reference as bound while an unrelated type has a named number of the same spelling
    for (text, lo, hi, ext) in [("(0..limq)", 0i128, 70000i128, false), ("(limq)", 70000, 70000, false), ("(-5..limq, ...)", -5, 70000, true), ("(limq..4294967296)", 70000, 4294967296, false)] {
        cases.push(IntCase { key: text.to_string(), text: text.to_string(), permitted: IvSet::single(Iv::new(Some(lo), Some(hi))), extensible: ext, ext_ambiguous: false, must_hold: None });
    }
    // contained subtypes (directly defined, and constrained references with a negative / open lower bound), with and without marker
    for (text, lo, hi, ext) in [
        ("(INCLUDES Cq0)", -50i128, 5i128, false), ("(Cq0)", -50, 5, false), ("(INCLUDES Cq1)", -50, 5, false), ("(Cq1)", -50, 5, false), ("(INCLUDES Cq2)", 0, 70000, false),
        ("(INCLUDES Cq3)", -100, 5, false), ("(INCLUDES Cq0, ...)", -50, 5, true), ("(INCLUDES Cq2, ...)", 0, 70000, true), ("(INCLUDES Cq1, ...)", -50, 5, true),
    ] {
        cases.push(IntCase { key: text.to_string(), text: text.to_string(), permitted: IvSet::single(Iv::new(Some(lo), Some(hi))), extensible: ext, ext_ambiguous: false, must_hold: None });
    }
    let nrand = ctx.pick(6_000u64, 60_000);
    for i in 0..nrand {
        let mut rng = Rng::for_case(ctx.seed, 6, i);
        let c = random_case(&mut rng, &pts);
        if !c.permitted.is_empty() {
            cases.push(c);
        }
    }
    let pairs: Vec<(i128, i128)> = pts.iter().flat_map(|l| pts.iter().filter(move |h| l <= *h).map(move |h| (*l, *h))).collect();
    rep.extra.insert("parameterized_instances".into(), json!(pairs.len() * 3));
    let acc = Acc::new(rep);
    par_for(pairs.len() as u64, |i| {
        let mut local = Report::default();
        parameterized_bounds(pairs[i as usize].0, pairs[i as usize].1, &mut local);
        acc.with(|r| r.merge(local));
    });
    let chunks: Vec<&[IntCase]> = cases.chunks(24).collect();
    par_for(chunks.len() as u64, |i| {
        let mut local = Report::default();
        check_batch(chunks[i as usize], &mut local);
        acc.with(|r| r.merge(local));
    });
    acc.into_inner()
}
