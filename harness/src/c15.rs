//! C15 — permitted-alphabet annotations denote exactly the FROM constraint.
use crate::comp;
use crate::core::*;
use crate::gen::StrKind;
use crate::proj::{self, Kind};
use serde_json::json;
use std::collections::BTreeSet;

type CSet = BTreeSet<u32>;

fn base_alphabet(k: StrKind) -> Option<CSet> {
    Some(match k {
        StrKind::Numeric => "0123456789 ".chars().map(|c| c as u32).collect(),
        StrKind::Printable => "ABCDEFGHIJKLMNOPQRSTUVWXYZabcdefghijklmnopqrstuvwxyz0123456789 '()+,-./:=?".chars().map(|c| c as u32).collect(),
        StrKind::Visible => (0x20..=0x7e).collect(),
        StrKind::Ia5 => (0x00..=0x7f).collect(),
        _ => return None,
    })
}

/// finite universe on which sets are compared
fn universe(k: StrKind) -> CSet {
    match base_alphabet(k) {
        Some(b) => b,
        None => (0x20..=0x7e).chain([0xe9, 0x4e2d, 0x4e2e]).collect(),
    }
}

/// probe characters per type: table boundaries and order-sensitive characters
fn probe(k: StrKind) -> Vec<char> {
    match k {
        StrKind::Numeric => vec!['0', '5', '9', ' '],
        StrKind::Printable => vec!['A', 'Z', 'a', 'z', '0', '9', ' ', '\'', '(', '?', '='],
        StrKind::Visible => vec![' ', '!', 'A', 'Z', 'a', 'f', 'z', '~', '0', '9'],
        StrKind::Ia5 => vec!['A', 'Z', 'a', 'c', 'f', 'z', '0', '9', ' ', '~'],
        // (a range up to U+4E2D combined with SIZE makes the compiler's alphabet folding run for minutes: find_char_index is linear per character)
        _ => vec!['A', 'Z', 'a', 'f', 'z', '0', '9', 'é'],
    }
}

#[derive(Clone, Debug, PartialEq, Eq, Hash)]
enum Atom {
    Str(Vec<char>),
    Range(char, char),
    /// MIN.."c"
    ToMin(char),
    /// "c"..MAX
    ToMax(char),
}
impl Atom {
    fn set(&self, u: &CSet) -> CSet {
        match self {
            Atom::Str(cs) => cs.iter().map(|c| *c as u32).filter(|c| u.contains(c)).collect(),
            Atom::Range(a, b) => u.iter().copied().filter(|c| *a as u32 <= *c && *c <= *b as u32).collect(),
            Atom::ToMin(b) => u.iter().copied().filter(|c| *c <= *b as u32).collect(),
            Atom::ToMax(a) => u.iter().copied().filter(|c| *a as u32 <= *c).collect(),
        }
    }
    fn text(&self) -> String {
        let q = |c: &char| if *c == '"' { "\"\"".to_string() } else { c.to_string() };
        match self {
            Atom::Str(cs) => format!("\"{}\"", cs.iter().map(q).collect::<String>()),
            Atom::Range(a, b) => format!("\"{}\"..\"{}\"", q(a), q(b)),
            Atom::ToMin(b) => format!("MIN..\"{}\"", q(b)),
            Atom::ToMax(a) => format!("\"{}\"..MAX", q(a)),
        }
    }
    fn shape(&self) -> &'static str {
        match self {
            Atom::Str(_) => "S",
            Atom::Range(..) => "R",
            Atom::ToMin(_) => "Rmin",
            Atom::ToMax(_) => "Rmax",
        }
    }
}

#[derive(Clone, Debug, PartialEq, Eq, Hash)]
struct Expr {
    terms: Vec<Vec<(Atom, Option<Atom>)>>,
}
impl Expr {
    fn set(&self, u: &CSet) -> CSet {
        let mut out = CSet::new();
        for t in &self.terms {
            let mut i = u.clone();
            for (a, e) in t {
                let mut s = a.set(u);
                if let Some(e) = e {
                    let es = e.set(u);
                    s = s.difference(&es).copied().collect();
                }
                i = i.intersection(&s).copied().collect();
            }
            out.extend(i);
        }
        out
    }
    fn text(&self) -> String {
        self.terms
            .iter()
            .map(|t| t.iter().map(|(a, e)| format!("{}{}", a.text(), e.as_ref().map_or(String::new(), |x| format!(" EXCEPT {}", x.text())))).collect::<Vec<_>>().join(" ^ "))
            .collect::<Vec<_>>()
            .join(" | ")
    }
    fn shape(&self) -> String {
        self.terms
            .iter()
            .map(|t| t.iter().map(|(a, e)| format!("{}{}", a.shape(), e.as_ref().map_or(String::new(), |x| format!(" EXCEPT {}", x.shape())))).collect::<Vec<_>>().join(" ^ "))
            .collect::<Vec<_>>()
            .join(" | ")
    }
    /// what the known defect (every set operator inside FROM treated as a union) would yield
    fn flattened(&self, u: &CSet) -> CSet {
        let mut out = CSet::new();
        for t in &self.terms {
            for (a, e) in t {
                out.extend(a.set(u));
                if let Some(e) = e {
                    out.extend(e.set(u));
                }
            }
        }
        out
    }
    /// candidate model of the SIZE-folding path: every atom is replaced by its hull (lowest..highest character), terms
    /// are intersected as ranges, EXCEPT is ignored, the union of the terms is widened to one contiguous range
    fn hull_model(&self, u: &CSet) -> CSet {
        let hull = |s: &CSet| -> Option<(u32, u32)> { Some((*s.iter().next()?, *s.iter().next_back()?)) };
        let mut lo_hi: Option<(u32, u32)> = None;
        for t in &self.terms {
            let mut cur: Option<(u32, u32)> = Some((0, u32::MAX));
            for (a, _) in t {
                cur = match (cur, hull(&a.set(u))) {
                    (Some((l, h)), Some((l2, h2))) if l.max(l2) <= h.min(h2) => Some((l.max(l2), h.min(h2))),
                    _ => None,
                };
            }
            if let Some((l, h)) = cur {
                lo_hi = Some(match lo_hi {
                    None => (l, h),
                    Some((a, b)) => (a.min(l), b.max(h)),
                });
            }
        }
        match lo_hi {
            Some((l, h)) => u.iter().copied().filter(|c| l <= *c && *c <= h).collect(),
            None => CSet::new(),
        }
    }
    fn only_unions(&self) -> bool {
        self.terms.iter().all(|t| t.len() == 1 && t[0].1.is_none())
    }
}

#[derive(Clone, Debug)]
struct Case {
    kind: StrKind,
    expr: Expr,
    /// second serial FROM
    serial: Option<Expr>,
    /// 0 none, 1 (SIZE)(FROM), 2 (FROM)(SIZE), 3 (SIZE ^ FROM), 4 (FROM ^ SIZE)
    size: u8,
    component: bool,
}
impl Case {
    fn constraint(&self) -> String {
        let f = format!("FROM ({})", self.expr.text());
        let mut c = match self.size {
            0 => format!("({f})"),
            1 => format!("(SIZE (1..8))({f})"),
            2 => format!("({f})(SIZE (1..8))"),
            3 => format!("(SIZE (1..8) ^ {f})"),
            4 => format!("({f} ^ SIZE (1..8))"),
            // an extensible SIZE inside the same constraint must not make the alphabet disappear
            5 => format!("(SIZE (1..8, ...) ^ {f})"),
            _ => format!("({f} ^ SIZE (1..8, ...))"),
        };
        if let Some(s) = &self.serial {
            c.push_str(&format!("(FROM ({}))", s.text()));
        }
        c
    }
    fn key(&self) -> String {
        format!("{} {}{}", self.kind.asn(), self.constraint(), if self.component { " [component]" } else { "" })
    }
    fn expected(&self) -> CSet {
        let u = universe(self.kind);
        let mut s = self.expr.set(&u);
        if let Some(e) = &self.serial {
            s = s.intersection(&e.set(&u)).copied().collect();
        }
        s
    }
    /// root-cause classes of the known alphabet-folding defects (conditions on the input only); otherwise the exact shape
    fn class(&self) -> String {
        let n_atoms: usize = self.expr.terms.iter().flatten().map(|(_, e)| 1 + e.iter().count()).sum();
        if self.serial.is_some() {
            "serial-FROM".to_string()
        } else if !self.expr.only_unions() {
            "intersection-or-EXCEPT-inside-FROM".to_string()
        } else if self.size >= 3 && n_atoms >= 2 && (self.kind == StrKind::Printable || self.expr.terms.iter().flatten().filter(|(a, _)| !matches!(a, Atom::Str(_))).count() >= 2) {
            // measured on the pinned tree: in the SIZE-folding path a union is widened to one contiguous range exactly when it
            // has two or more *range* operands (string | range and string | string come out exact); PrintableString
            // additionally folds in table order
            "union-folded-with-SIZE".to_string()
        } else {
            self.expr.shape()
        }
    }
}

/// denotation of the emitted from(..) items restricted to the universe, plus code points outside the base alphabet
fn denote(items: &[String], k: StrKind) -> Result<(CSet, Vec<u32>), String> {
    let u = universe(k);
    let base = base_alphabet(k);
    let mut set = CSet::new();
    let mut outside = vec![];
    for it in items {
        let cs: Vec<char> = it.chars().collect();
        let (lo, hi) = if let Some((a, b)) = it.split_once("..=") {
            let (ac, bc): (Vec<char>, Vec<char>) = (a.chars().collect(), b.chars().collect());
            if ac.len() != 1 || bc.len() != 1 {
                return Err(format!("unparsable from item `{it}`"));
            }
            (ac[0] as u32, bc[0] as u32)
        } else if cs.len() == 1 {
            (cs[0] as u32, cs[0] as u32)
        } else {
            // a multi-character literal denotes its characters
            for c in &cs {
                if u.contains(&(*c as u32)) {
                    set.insert(*c as u32);
                }
            }
            continue;
        };
        for c in u.iter().filter(|c| lo <= **c && **c <= hi) {
            set.insert(*c);
        }
        if let Some(b) = &base {
            for c in lo..=hi.min(lo + 300) {
                if !b.contains(&c) {
                    outside.push(c);
                }
            }
        }
    }
    Ok((set, outside))
}

fn show(s: &CSet) -> String {
    let mut out = String::new();
    let v: Vec<u32> = s.iter().copied().collect();
    let mut i = 0;
    while i < v.len() {
        let mut j = i;
        while j + 1 < v.len() && v[j + 1] == v[j] + 1 {
            j += 1;
        }
        let c = |x: u32| char::from_u32(x).filter(|c| !c.is_control()).map_or(format!("U+{x:04X}"), |c| c.to_string());
        if j > i {
            out.push_str(&format!("{}-{} ", c(v[i]), c(v[j])));
        } else {
            out.push_str(&format!("{} ", c(v[i])));
        }
        i = j + 1;
    }
    out.trim().to_string()
}

fn check_batch(cases: &[Case], rep: &mut Report) {
    let mut src = String::from("Mq1 DEFINITIONS AUTOMATIC TAGS ::= BEGIN\n");
    for (n, c) in cases.iter().enumerate() {
        if c.component {
            src.push_str(&format!("Tq{n} ::= SEQUENCE {{ fq1 {} {} }}\n", c.kind.asn(), c.constraint()));
        } else {
            src.push_str(&format!("Tq{n} ::= {} {}\n", c.kind.asn(), c.constraint()));
        }
    }
    src.push_str("END\n");
    let t0 = std::time::Instant::now();
    if std::env::var("VERIF_DEBUG").is_ok() {
        let s2 = src.clone();
        let done = std::sync::Arc::new(std::sync::atomic::AtomicBool::new(false));
        let d2 = done.clone();
        std::thread::spawn(move || {
            std::thread::sleep(std::time::Duration::from_secs(8));
            if !d2.load(std::sync::atomic::Ordering::SeqCst) {
                eprintln!("INFLIGHT>8s: {s2}");
            }
        });
        let run = comp::rasn1(&src);
        done.store(true, std::sync::atomic::Ordering::SeqCst);
        drop(run);
    }
    let run = comp::rasn1(&src);
    if t0.elapsed().as_secs_f64() > 2.0 {
        rep.count("slow_compilations(>2s)", 1);
        rep.note("slow_inputs", one_line(&src, 300));
        if std::env::var("VERIF_DEBUG").is_ok() {
            eprintln!("SLOW {:.1}s: {}", t0.elapsed().as_secs_f64(), src);
        }
    }
    let mods = match &run.out {
        comp::Outcome::Ok { generated, .. } => proj::project(generated).ok(),
        _ => None,
    };
    let Some(mods) = mods else {
        if cases.len() == 1 {
            rep.evaluations += 1;
            rep.count("not_compiled(not a claim)", 1);
            return;
        }
        for c in cases {
            check_batch(std::slice::from_ref(c), rep);
        }
        return;
    };
    let m = &mods[0];
    let warned = run.out.warnings().join("\n");
    // warnings of this kind do not name the definition: a batch with warnings is re-run case by case
    if !warned.is_empty() && cases.len() > 1 {
        for c in cases {
            check_batch(std::slice::from_ref(c), rep);
        }
        return;
    }
    for (n, c) in cases.iter().enumerate() {
        rep.evaluations += 1;
        let Some(it) = m.find(&format!("Tq{n}")) else {
            rep.count("warned_or_absent(not a claim)", 1);
            continue;
        };
        if !warned.is_empty() {
            rep.count("warned_or_absent(not a claim)", 1);
            continue;
        }
        let attrs = match (&it.kind, c.component) {
            (Kind::Struct { fields, .. }, true) => fields.first().map(|f| f.attrs.clone()),
            (_, false) => Some(it.attrs.clone()),
            _ => None,
        };
        let Some(attrs) = attrs else { continue };
        let items = attrs.from_items();
        rep.count("alphabets_compared", 1);
        rep.count(&format!("alphabets_compared[{}]", c.kind.asn()), 1);
        let non_ascii_bound = c.expr.terms.iter().flatten().flat_map(|(a, e)| std::iter::once(a).chain(e.iter())).any(|a| matches!(a, Atom::Range(x, y) if !x.is_ascii() || !y.is_ascii()));
        if non_ascii_bound && c.kind.known_multiplier() && c.size == 0 && c.serial.is_none() {
            rep.count("alphabets_compared[plain FROM, range-with-non-ASCII-bound]", 1);
        }
        rep.nontrivial.insert(hash_str(&c.key()));
        let mut found: Vec<(String, String)> = vec![];
        if !c.kind.known_multiplier() {
            if items.is_some() {
                found.push(("annotation-on-non-known-multiplier-type".into(), format!("from({:?}) emitted for {}", items, c.kind.asn())));
            }
        } else {
            let expected = c.expected();
            if expected.is_empty() {
                rep.count("empty_alphabet_skipped", 1);
                continue;
            }
            let u = universe(c.kind);
            match &items {
                None => {
                    if expected != u {
                        found.push(("annotation-missing".into(), format!("no from(..) although only {{{}}} is permitted", show(&expected))));
                    }
                }
                Some(items) => match denote(items, c.kind) {
                    Ok((got, outside)) => {
                        if std::env::var("C15_DEBUG").is_ok() && c.size >= 3 && c.serial.is_none() {
                            let hull = c.expr.hull_model(&u);
                            eprintln!("DBG|{}|{}|{}|{}", c.expr.shape(), if got == expected { "exact" } else { "wrong" }, if got == hull { "hull" } else { "nohull" }, c.key());
                        }
                        if got != expected {
                            let kind = if !expected.is_subset(&got) { "excludes-permitted-character" } else { "admits-forbidden-character" };
                            // outside the SIZE-folding path the known defect is exactly "flattened to a union": a different wrong set is a different finding
                            let mut known_model = c.expr.flattened(&u);
                            if let Some(sx) = &c.serial {
                                known_model.extend(sx.flattened(&u));
                            }
                            let deviates = c.size < 3 && (c.serial.is_some() || !c.expr.only_unions()) && got != known_model;
                            // inside the SIZE-folding path a pure intersection (one term, no EXCEPT) is folded on hulls: every operand
                            // is replaced by lowest..highest character and the ranges are intersected (measured on the pinned tree:
                            // every such case yields exactly that set); any other wrong set is a different finding
                            let pure_intersection = c.expr.terms.len() == 1 && c.expr.terms[0].len() >= 2 && c.expr.terms[0].iter().all(|(_, e)| e.is_none());
                            // (PrintableString folds its hulls in table order A-Z a-z 0-9 ' ( ) + , - . / : = ?, the listed range-order defect: no refinement there)
                            let deviates_folded = c.kind != StrKind::Printable && c.size >= 3 && c.serial.is_none() && pure_intersection && got != c.expr.hull_model(&u);
                            let kind = if deviates {
                                format!("{kind}(not-the-known-union-flattening)")
                            } else if deviates_folded {
                                format!("{kind}(not-the-known-hull-folding)")
                            } else {
                                kind.to_string()
                            };
                            found.push((kind, format!("from({items:?}) denotes {{{}}}, the constraint permits {{{}}}", show(&got), show(&expected))));
                        }
                        if !outside.is_empty() {
                            found.push(("outside-base-alphabet".into(), format!("from({items:?}) covers code points outside {}: {}", c.kind.asn(), show(&outside.iter().copied().collect()))));
                        }
                    }
                    Err(e) => rep.inconclusive.push(e),
                },
            }
        }
        if rep.samples.len() < 5 && rep.evaluations % 1201 == 5 {
            rep.sample(json!({"case": c.key(), "expected": show(&c.expected()), "emitted": items}));
        }
        for (kind, detail) in found {
            let ctx = if c.component { "component" } else { "assignment" };
            let sig = if kind == "outside-base-alphabet" {
                // one defect: a source range is emitted as a code-point range although the type's alphabet has gaps inside it
                format!("c15|{kind}|range-over-alphabet-gap|{}", c.kind.asn())
            } else {
                // a top-level union inside FROM combined with an extensible SIZE loses the annotation whether or not an
                // operand carries an EXCEPT: same root cause as the listed union case
                let class = if kind == "annotation-missing" && c.size >= 5 && c.serial.is_none() && c.expr.terms.len() >= 2 { "union-folded-with-SIZE".to_string() } else { c.class() };
                format!("c15|{kind}|{class}|{ctx}")
            };
            rep.violations.push(Violation { sig, what: format!("{}: {detail}", c.key()), replay: json!({"case": c.key()}) });
        }
    }
}

fn atoms(k: StrKind, rng: Option<&mut Rng>) -> Vec<Atom> {
    let p = probe(k);
    let mut v = vec![];
    for (i, a) in p.iter().enumerate() {
        v.push(Atom::Str(vec![*a]));
        for b in &p[i + 1..] {
            if (*a as u32) < (*b as u32) {
                v.push(Atom::Range(*a, *b));
            } else if (*b as u32) < (*a as u32) {
                v.push(Atom::Range(*b, *a));
            }
        }
    }
    // MIN / MAX endpoints (ASCII types only: the upper end of BMP/Universal is outside the finite universe)
    // (not on PrintableString: its table is kept in the order A-Z a-z 0-9 ..., so MIN/MAX follow table order — the known range-order defect)
    if base_alphabet(k).is_some() && k != StrKind::Printable {
        v.push(Atom::ToMin(p[1]));
        v.push(Atom::ToMax(p[p.len() - 2]));
        v.push(Atom::ToMin(*p.last().unwrap()));
    }
    // strings that repeat a character, and strings whose characters lie one or two code points beyond a probe character
    // (a literal next to a range is where contiguity tests of the folding code decide)
    if let Some(base) = base_alphabet(k) {
        for c in p.iter().skip(1).step_by(2) {
            for d in [1u32, 2, 3] {
                if let Some(n) = char::from_u32(*c as u32 + d).filter(|n| base.contains(&(*n as u32))) {
                    v.push(Atom::Str(vec![n; d as usize]));
                }
            }
        }
    }
    // literals that read like other lexical items: digits only (4 and more digits), digits with the punctuation of time values
    if let Some(base) = base_alphabet(k) {
        for lit in ["13579", "2468", "0000", "12-.", "1-", "20240101"] {
            if lit.chars().all(|c| base.contains(&(c as u32))) {
                v.push(Atom::Str(lit.chars().collect()));
            }
        }
    }
    // a few multi-character strings
    if p.len() >= 3 {
        v.push(Atom::Str(vec![p[0], p[2]]));
        v.push(Atom::Str(p.iter().take(4).copied().collect()));
    }
    if let Some(rng) = rng {
        rng.shuffle(&mut v);
    }
    v
}

/// Inclusion of another constrained string type (X.680 51.3): `A ::= K (INCLUDES B)`, `K (B)`, `K (FROM (INCLUDES B))` with
/// `B ::= K (FROM (..))`. The permitted alphabet of A is that of B. Exhaustive over four known-multiplier types x three
/// alphabets x three spellings x {assignment, component} x {B sorts before A, after A}.
fn inclusions(rep: &mut Report) {
    for k in [StrKind::Numeric, StrKind::Printable, StrKind::Visible, StrKind::Ia5] {
        let alphabets: Vec<(&str, CSet)> = match k {
            StrKind::Numeric => vec![("\"0\"..\"5\"", (0x30..=0x35).collect()), ("\"19 \"", [0x31, 0x39, 0x20].into_iter().collect())],
            _ => vec![("\"A\"..\"F\"", (0x41..=0x46).collect()), ("\"abz\"", [0x61, 0x62, 0x7a].into_iter().collect()), ("\"0\"..\"9\" | \"x\"", (0x30..=0x39).chain([0x78]).collect())],
        };
        for (text, set) in alphabets {
            for (form, spell) in [("INCLUDES", "(INCLUDES @)"), ("bare-reference", "(@)"), ("FROM-INCLUDES", "(FROM (INCLUDES @))")] {
                for component in [false, true] {
                    for b_first in [true, false] {
                        let b = if b_first { "Aq0base" } else { "Zq9base" };
                        let c = spell.replace('@', b);
                        let a_def = if component { format!("Mq5 ::= SEQUENCE {{ fq1 {} {c} }}", k.asn()) } else { format!("Mq5 ::= {} {c}", k.asn()) };
                        let src = format!("Mq1 DEFINITIONS AUTOMATIC TAGS ::= BEGIN\n{b} ::= {} (FROM ({text}))\n{a_def}\nEND\n", k.asn());
                        let run = comp::rasn1(&src);
                        rep.evaluations += 1;
                        let comp::Outcome::Ok { generated, warnings } = &run.out else {
                            rep.count("inclusion_cases[not Ok]", 1);
                            continue;
                        };
                        if !warnings.is_empty() {
                            rep.count("inclusion_cases[warnings]", 1);
                            continue;
                        }
                        let Ok(mods) = proj::project(generated) else { continue };
                        let Some(it) = mods.iter().find_map(|m| m.find("Mq5")) else { continue };
                        let attrs = match (&it.kind, component) {
                            (Kind::Struct { fields, .. }, true) => fields.first().map(|f| f.attrs.clone()),
                            (_, false) => Some(it.attrs.clone()),
                            _ => None,
                        };
                        let Some(attrs) = attrs else { continue };
                        rep.count("alphabets_compared", 1);
                        rep.count("alphabets_compared[inclusion of a constrained string type]", 1);
                        rep.nontrivial.insert(hash_str(&src));
                        let origin = format!("inclusion({},{form},component={component},included-type-sorts-first={b_first})", k.asn());
                        let verdict = match attrs.from_items() {
                            None => Some(("annotation-missing", format!("no from(..) although the included type permits only {{{}}}", show(&set)))),
                            Some(items) => match denote(&items, k) {
                                Ok((got, _)) if got == set => None,
                                Ok((got, _)) => Some(("alphabet-differs", format!("from(..) denotes {{{}}}, the included type permits {{{}}}", show(&got), show(&set)))),
                                Err(e) => Some(("annotation-unreadable", e)),
                            },
                        };
                        if let Some((kind, detail)) = verdict {
                            rep.violations.push(Violation {
                                sig: format!("c15|{kind}|inclusion-of-a-constrained-type|{form}|{}", if component { "component" } else { "assignment" }),
                                what: format!("{a_def} with {b} ::= {} (FROM ({text})): {detail} [{origin}]", k.asn()),
                                replay: json!({"origin": origin, "sources": [src]}),
                            });
                        }
                    }
                }
            }
        }
    }
}

pub fn run(ctx: &Ctx) -> Report {
    let mut rep = Report::new(
        "exploration",
        "FROM expressions as unions of intersections of (atom [EXCEPT atom]), atoms = strings of 1..4 characters and ranges over a per-type probe alphabet (table boundaries and order-sensitive characters), on NumericString, PrintableString, VisibleString, IA5String, BMPString, UniversalString and on UTF8String, GeneralString, GraphicString, TeletexString (no annotation expected), alone and combined with SIZE in four ways ((SIZE)(FROM), (FROM)(SIZE), SIZE ^ FROM, FROM ^ SIZE), optionally followed by a second serial FROM, as type assignment and as component. EXHAUSTIVE for 1 and 2 atoms per known-multiplier type (plain FROM, assignment), seeded random for 3 atoms and the other combinations. Oracle: the set denoted by from(..) (single characters, `a..=b` code-point ranges) equals the exact set of the expression within the base alphabet (BMP/Universal: within a finite universe), and every code point covered lies in the base alphabet. Non-trivial = alphabet compared; distinct by case text.",
    );
    rep.must_observe = vec!["alphabets_compared".into(), "alphabets_compared[plain FROM, range-with-non-ASCII-bound]".into(), "alphabets_compared[PrintableString]".into(), "alphabets_compared[UTF8String]".into()];
    rep.assumptions = vec!["ranges in the source are read in ascending code-point order (X.680 41 / X.691 30.5)".into(), "from(\"a..=b\") denotes every scalar between a and b (rasn derive semantics)".into()];
    if ctx.replay.is_some() {
        rep.inconclusive.push("replay: re-run the check (cases are regenerated from the seed)".into());
        rep.evaluations = 1;
        return rep;
    }
    let mut cases: Vec<Case> = vec![];
    for k in StrKind::KNOWN_MULT {
        let at = atoms(k, None);
        for a in &at {
            cases.push(Case { kind: k, expr: Expr { terms: vec![vec![(a.clone(), None)]] }, serial: None, size: 0, component: false });
        }
        if matches!(k, StrKind::Bmp | StrKind::Universal) {
            // the compiler materialises the whole alphabet of these two types per constraint (~0.2 s): one-atom cases only
            continue;
        }
        // two atoms, every operator; to bound the space the second atom runs over a thinned list
        let thin: Vec<&Atom> = at.iter().step_by(5).collect();
        for a in &at {
            for b in &thin {
                cases.push(Case { kind: k, expr: Expr { terms: vec![vec![(a.clone(), None)], vec![((*b).clone(), None)]] }, serial: None, size: 0, component: false });
                cases.push(Case { kind: k, expr: Expr { terms: vec![vec![(a.clone(), None), ((*b).clone(), None)]] }, serial: None, size: 0, component: false });
                cases.push(Case { kind: k, expr: Expr { terms: vec![vec![(a.clone(), Some((*b).clone()))]] }, serial: None, size: 0, component: false });
            }
        }
    }
    rep.exhaustive = Some(true);
    rep.extra.insert("enumerated_cases".into(), json!(cases.len()));
    let nrand = ctx.pick(10_000u64, 300_000);
    let all_kinds: Vec<StrKind> = StrKind::KNOWN_MULT.iter().chain(StrKind::OTHER.iter()).copied().collect();
    for i in 0..nrand {
        let mut rng = Rng::for_case(ctx.seed, 15, i);
        let mut k = *rng.pick(&all_kinds);
        if matches!(k, StrKind::Bmp | StrKind::Universal) && !rng.chance(1, 8) {
            k = StrKind::Ia5;
        }
        let at = atoms(k, Some(&mut rng));
        let n = 1 + rng.below(3);
        let mut terms: Vec<Vec<(Atom, Option<Atom>)>> = vec![vec![]];
        let mut used = 0;
        while used < n {
            let a = at[rng.below(at.len())].clone();
            used += 1;
            let e = if used < n && rng.chance(1, 4) {
                used += 1;
                Some(at[rng.below(at.len())].clone())
            } else {
                None
            };
            terms.last_mut().unwrap().push((a, e));
            if used < n && rng.chance(1, 2) {
                terms.push(vec![]);
            }
        }
        terms.retain(|t| !t.is_empty());
        let serial = if rng.chance(1, 6) { Some(Expr { terms: vec![vec![(at[rng.below(at.len())].clone(), None)]] }) } else { None };
        cases.push(Case { kind: k, expr: Expr { terms }, serial, size: rng.below(7) as u8, component: rng.chance(1, 3) });
    }
    if std::env::var("VERIF_DEBUG").is_ok() {
        eprintln!("generated {} cases at {:.1}s", cases.len(), ctx.start.elapsed().as_secs_f64());
    }
    let acc = Acc::new(rep);
    let chunks: Vec<&[Case]> = cases.chunks(60).collect();
    par_for(chunks.len() as u64, |i| {
        let mut local = Report::default();
        check_batch(chunks[i as usize], &mut local);
        acc.with(|r| r.merge(local));
    });
    let mut rep = acc.into_inner();
    inclusions(&mut rep);
    rep
}
