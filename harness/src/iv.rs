//! Extended-integer interval sets (spec-side model for constraints: X.680 §50/§51, X.691 §10.3).
//! Bounds are i128 with -inf / +inf sentinels expressed as None.

#[derive(Clone, Copy, Debug, PartialEq, Eq, Hash, PartialOrd, Ord)]
pub struct Iv {
    pub lo: Option<i128>, // None = -inf
    pub hi: Option<i128>, // None = +inf
}

impl Iv {
    pub fn new(lo: Option<i128>, hi: Option<i128>) -> Iv {
        Iv { lo, hi }
    }
    pub fn all() -> Iv {
        Iv { lo: None, hi: None }
    }
    pub fn is_empty(&self) -> bool {
        matches!((self.lo, self.hi), (Some(l), Some(h)) if l > h)
    }
    pub fn contains(&self, v: i128) -> bool {
        self.lo.map_or(true, |l| l <= v) && self.hi.map_or(true, |h| v <= h)
    }
    pub fn intersect(&self, o: &Iv) -> Iv {
        let lo = match (self.lo, o.lo) {
            (None, x) | (x, None) => x,
            (Some(a), Some(b)) => Some(a.max(b)),
        };
        let hi = match (self.hi, o.hi) {
            (None, x) | (x, None) => x,
            (Some(a), Some(b)) => Some(a.min(b)),
        };
        Iv { lo, hi }
    }
    pub fn show(&self) -> String {
        format!("{}..{}", self.lo.map_or("MIN".into(), |v| v.to_string()), self.hi.map_or("MAX".into(), |v| v.to_string()))
    }
}

/// Normalised union of disjoint, non-adjacent, sorted intervals.
#[derive(Clone, Debug, PartialEq, Eq, Hash, Default)]
pub struct IvSet(pub Vec<Iv>);

impl IvSet {
    pub fn empty() -> IvSet {
        IvSet(vec![])
    }
    pub fn all() -> IvSet {
        IvSet(vec![Iv::all()])
    }
    pub fn single(iv: Iv) -> IvSet {
        if iv.is_empty() {
            IvSet::empty()
        } else {
            IvSet(vec![iv])
        }
    }
    pub fn is_empty(&self) -> bool {
        self.0.is_empty()
    }
    pub fn contains(&self, v: i128) -> bool {
        self.0.iter().any(|i| i.contains(v))
    }
    fn normalise(mut v: Vec<Iv>) -> IvSet {
        v.retain(|i| !i.is_empty());
        // sort by lo (None first)
        v.sort_by(|a, b| match (a.lo, b.lo) {
            (None, None) => std::cmp::Ordering::Equal,
            (None, _) => std::cmp::Ordering::Less,
            (_, None) => std::cmp::Ordering::Greater,
            (Some(x), Some(y)) => x.cmp(&y),
        });
        let mut out: Vec<Iv> = vec![];
        for i in v {
            if let Some(last) = out.last_mut() {
                // overlap or adjacency
                let touches = match (last.hi, i.lo) {
                    (None, _) => true,
                    (_, None) => true,
                    (Some(h), Some(l)) => l <= h.saturating_add(1),
                };
                if touches {
                    last.hi = match (last.hi, i.hi) {
                        (None, _) | (_, None) => None,
                        (Some(a), Some(b)) => Some(a.max(b)),
                    };
                    continue;
                }
            }
            out.push(i);
        }
        IvSet(out)
    }
    pub fn union(&self, o: &IvSet) -> IvSet {
        let mut v = self.0.clone();
        v.extend(o.0.iter().copied());
        IvSet::normalise(v)
    }
    pub fn intersect(&self, o: &IvSet) -> IvSet {
        let mut v = vec![];
        for a in &self.0 {
            for b in &o.0 {
                v.push(a.intersect(b));
            }
        }
        IvSet::normalise(v)
    }
    pub fn complement(&self) -> IvSet {
        let mut out = vec![];
        let mut lo: Option<i128> = None; // start of the current gap (None=-inf)
        let mut open = true; // gap currently open
        for i in &self.0 {
            if let Some(l) = i.lo {
                if open {
                    out.push(Iv { lo, hi: Some(l - 1) });
                }
            }
            match i.hi {
                Some(h) => {
                    lo = Some(h + 1);
                    open = true;
                }
                None => {
                    open = false;
                }
            }
        }
        if open {
            out.push(Iv { lo, hi: None });
        }
        IvSet::normalise(out)
    }
    pub fn minus(&self, o: &IvSet) -> IvSet {
        self.intersect(&o.complement())
    }
    pub fn hull(&self) -> Option<Iv> {
        if self.0.is_empty() {
            None
        } else {
            Some(Iv { lo: self.0[0].lo, hi: self.0[self.0.len() - 1].hi })
        }
    }
    pub fn subset_of_iv(&self, iv: &Iv) -> bool {
        match self.hull() {
            None => true,
            Some(h) => {
                (iv.lo.is_none() || h.lo.is_some_and(|l| l >= iv.lo.unwrap())) && (iv.hi.is_none() || h.hi.is_some_and(|x| x <= iv.hi.unwrap()))
            }
        }
    }
    pub fn show(&self) -> String {
        if self.0.is_empty() {
            "{}".into()
        } else {
            self.0.iter().map(|i| i.show()).collect::<Vec<_>>().join(" u ")
        }
    }
}

pub fn rust_int_range(tok: &str) -> Option<Iv> {
    let (lo, hi): (i128, i128) = match tok {
        "u8" => (0, u8::MAX as i128),
        "u16" => (0, u16::MAX as i128),
        "u32" => (0, u32::MAX as i128),
        "u64" => (0, u64::MAX as i128),
        "i8" => (i8::MIN as i128, i8::MAX as i128),
        "i16" => (i16::MIN as i128, i16::MAX as i128),
        "i32" => (i32::MIN as i128, i32::MAX as i128),
        "i64" => (i64::MIN as i128, i64::MAX as i128),
        "i128" => (i128::MIN, i128::MAX),
        "u128" => (0, i128::MAX),
        "usize" => (0, u64::MAX as i128),
        "isize" => (i64::MIN as i128, i64::MAX as i128),
        _ => return None,
    };
    Some(Iv { lo: Some(lo), hi: Some(hi) })
}

#[cfg(test)]
mod tests {
    use super::*;
    #[test]
    fn brute_force_set_ops() {
        let ivs = [
            Iv::new(None, Some(-3)),
            Iv::new(Some(-5), Some(2)),
            Iv::new(Some(0), Some(0)),
            Iv::new(Some(3), Some(7)),
            Iv::new(Some(6), None),
            Iv::all(),
            Iv::new(Some(4), Some(1)),
        ];
        for a in ivs {
            for b in ivs {
                let (sa, sb) = (IvSet::single(a), IvSet::single(b));
                let u = sa.union(&sb);
                let i = sa.intersect(&sb);
                let m = sa.minus(&sb);
                let c = sa.complement();
                for v in -12..=12 {
                    let (ia, ib) = (a.contains(v) && !a.is_empty(), b.contains(v) && !b.is_empty());
                    assert_eq!(u.contains(v), ia || ib);
                    assert_eq!(i.contains(v), ia && ib);
                    assert_eq!(m.contains(v), ia && !ib);
                    assert_eq!(c.contains(v), !ia);
                }
            }
        }
    }
}
