mod comp;
mod core;
mod proj;

mod c14;

use crate::core::{Ctx, Tier};

fn usage() -> ! {
    eprintln!("usage: vcheck <Cxx> [--tier quick|thorough] [--replay <path>]");
    std::process::exit(2)
}

fn main() {
    // rustfmt must not be an environmental variable of the observed function
    std::env::remove_var("CARGO");
    std::env::remove_var("CARGO_HOME");
    let args: Vec<String> = std::env::args().collect();
    if args.len() < 2 {
        usage();
    }
    let prop = args[1].clone();
    if prop == "setup" {
        println!("setup: harness built against /repo working tree (verif-hooks on)");
        std::process::exit(0);
    }
    let mut tier = match std::env::var("VERIF_TIER").ok().as_deref() {
        Some("thorough") => Tier::Thorough,
        _ => Tier::Quick,
    };
    let mut replay = None;
    let mut i = 2;
    while i < args.len() {
        match args[i].as_str() {
            "--tier" => {
                i += 1;
                tier = match args.get(i).map(|s| s.as_str()) {
                    Some("quick") => Tier::Quick,
                    Some("thorough") => Tier::Thorough,
                    _ => usage(),
                };
            }
            "--replay" => {
                i += 1;
                replay = args.get(i).cloned();
            }
            _ => {}
        }
        i += 1;
    }
    let seed = std::env::var("VERIF_SEED").ok().and_then(|s| s.trim().parse::<u64>().ok()).unwrap_or(1);
    comp::install_panic_hook();
    rayon::ThreadPoolBuilder::new().stack_size(256 << 20).build_global().ok();
    let ctx = Ctx { prop: prop.clone(), tier, seed, start: std::time::Instant::now(), replay };
    let rep = match prop.as_str() {
        "C14" => c14::run(&ctx),
        _ => {
            eprintln!("unknown property {prop}");
            std::process::exit(2)
        }
    };
    let code = core::finish(&ctx, rep);
    std::process::exit(code);
}
