mod comp;
mod core;
mod proj;

mod c01;
mod c03der;
mod der;
mod c0235;
mod c04;
mod c06;
mod cmodel;
mod oracle;
mod c07;
mod c07der;
mod c08;
mod c08fuzz;
mod c09;
mod c10;
mod tok;
mod c11;
mod c12;
mod c13;
mod c14;
mod c15;
mod c16;
mod c17;
mod c18;
mod c19;
mod c20;
mod c20macro;
mod gen;
mod iv;

use crate::core::{Ctx, Tier};

fn usage() -> ! {
    eprintln!("usage: vcheck <Cxx> [--tier quick|thorough] [--replay <path>]");
    std::process::exit(2)
}

fn main() {
    // rustfmt must not be an environmental variable of the observed function
    std::env::remove_var("CARGO");
    std::env::remove_var("CARGO_HOME");
    let args: Vec<String> = std::env::args().collect();
    if args.len() < 2 {
        usage();
    }
    let prop = args[1].clone();
    if prop == "C08-worker" {
        comp::install_panic_hook();
        c08::worker(&args[2..]);
    }
    if prop == "C20-child" {
        comp::install_panic_hook();
        c20::child(&args[2..]);
    }
    if prop == "C20-macro-ref" {
        // reference texts for the asn1! comparison: compile_to_string() in an environment in which the compiler finds the same
        // rustfmt as the proc macro does under `cargo +nightly` (CARGO names the toolchain's cargo)
        if let Ok(c) = std::env::var("VCHECK_CARGO") {
            std::env::set_var("CARGO", c);
        }
        comp::install_panic_hook();
        c20macro::reference_child(&args[2..]);
    }
    if prop == "C08-one" {
        comp::install_panic_hook();
        c08::one(&args[2..]);
    }
    if prop == "gen-show" {
        let seed: u64 = args[2].parse().unwrap();
        let idx: u64 = args[3].parse().unwrap();
        let set = if args.len() > 4 { gen::random_set(seed, args[4].parse().unwrap(), idx, &c0235::g_opts_types_pub()) } else { gen::random_set(seed, 0, idx, &gen::GenOpts::default()) };
        let r = set.render();
        print!("{}", r.text);
        if args.len() > 5 {
            std::process::exit(0);
        }
        let run = comp::rasn1(&r.text);
        eprintln!("{}", run.out.brief());
        for w in run.out.warnings() {
            eprintln!("WARN {w}");
        }
        std::process::exit(0);
    }
    if prop == "gen-shrink" {
        // shrink a generated set while the compile outcome class stays the same
        let seed: u64 = args[2].parse().unwrap();
        let idx: u64 = args[3].parse().unwrap();
        let set = gen::random_set(seed, 0, idx, &gen::GenOpts::default());
        let class = |s: &gen::ModuleSet| -> String {
            let run = comp::rasn1(&s.render().text);
            match &run.out {
                comp::Outcome::Ok { warnings, .. } if warnings.is_empty() => "Ok".to_string(),
                comp::Outcome::Ok { warnings, .. } => format!("Warn: {}", core::one_line(&warnings[0], 50)).chars().filter(|c| !c.is_ascii_digit()).collect(),
                comp::Outcome::Err { .. } => "Err".into(),
                comp::Outcome::Panic(p) => format!("Panic {p}"),
            }
        };
        let c0 = class(&set);
        let m = gen::shrink(&set, &|s| class(s) == c0);
        println!("{c0}\n{}", m.render().text);
        std::process::exit(0);
    }
    if prop == "gen-stats" {
        let n: u64 = args[2].parse().unwrap();
        let mut stats: std::collections::BTreeMap<String, (u64, String)> = Default::default();
        for idx in 0..n {
            let set = gen::random_set(1, 0, idx, &gen::GenOpts::default());
            let r = set.render();
            let run = comp::rasn1(&r.text);
            let key = match &run.out {
                comp::Outcome::Ok { warnings, .. } if warnings.is_empty() => "Ok".to_string(),
                comp::Outcome::Ok { warnings, .. } => format!("Warn: {}", core::one_line(&warnings[0], 90)),
                o => o.brief(),
            };
            let key: String = key.chars().map(|c| if c.is_ascii_digit() { '#' } else { c }).collect();
            let e = stats.entry(key).or_insert((0, format!("idx={idx}")));
            e.0 += 1;
        }
        for (k, (n, ex)) in stats {
            println!("{n:6} {ex:10} {k}");
        }
        std::process::exit(0);
    }
    if prop == "C01-one" {
        let seed: u64 = args[2].parse().unwrap();
        let idx: u64 = args[3].parse().unwrap();
        c01::debug_one(seed, idx, args.get(4).map_or(false, |a| a == "shrink"));
        std::process::exit(0);
    }
    if prop == "C01-legal" {
        c01::debug_legal(args[2].parse().unwrap(), args[3].parse().unwrap());
        std::process::exit(0);
    }
    if prop == "C01-file" {
        c01::debug_file(&args[2], args.get(3).and_then(|a| a.parse().ok()).unwrap_or(0), args.get(4).is_some());
        std::process::exit(0);
    }
    if prop == "C08-show" {
        let corpus = c08::load_corpus();
        let seed: u64 = args[2].parse().unwrap();
        let idx: u64 = args[3].parse().unwrap();
        let nfiles: usize = args[4].parse().unwrap();
        let c = c08::gen_case_pub(seed, idx, &corpus, nfiles);
        eprintln!("cat={} origin={}", c.cat, c.origin);
        print!("{}", c.input);
        std::process::exit(0);
    }
    if prop == "probe-from" {
        use rasn_compiler::prelude::*;
        let src = std::fs::read_to_string(&args[2]).unwrap();
        let mut c = RasnConfig::default();
        c.generate_from_impls = true;
        let r = Compiler::<RasnBackend, _>::new_with_config(c).add_asn_literal(src).compile_to_string();
        match r {
            Ok(r) => println!("{}", r.generated),
            Err(e) => println!("ERR: {e}"),
        }
        std::process::exit(0);
    }
    if prop == "probe" {
        use rasn_compiler::prelude::*;
        let src = std::fs::read_to_string(&args[2]).unwrap();
        let r = if args.len() > 3 {
            Compiler::<TypescriptBackend, _>::new().add_asn_literal(src).compile_to_string()
        } else {
            Compiler::<RasnBackend, _>::new().add_asn_literal(src).compile_to_string()
        };
        match r {
            Ok(r) => {
                println!("{}", r.generated);
                for w in r.warnings {
                    println!("WARN: {w}");
                }
            }
            Err(e) => println!("ERR: {e}"),
        }
        for e in rasn_compiler::verif_hooks::drain() {
            eprintln!("{e:?}");
        }
        std::process::exit(0);
    }
    if prop == "setup" {
        println!("setup: harness built against /repo working tree (verif-hooks on)");
        // warm the two side builds so that quick runs do not pay for them: the type-check workspace's dependency graph
        // (rasn, lazy_static) and the command-line tool built from /repo
        match c01::warm() {
            Ok(()) => println!("setup: type-check workspace ready ({})", c01::ws_dir().display()),
            Err(e) => println!("setup: type-check workspace not ready (C01 will report inconclusive): {e}"),
        }
        match c03der::warm() {
            Ok(()) => println!("setup: DER runner workspace ready"),
            Err(e) => println!("setup: DER runner workspace not ready (the DER part of C03 will report inconclusive): {e}"),
        }
        match c20macro::warm() {
            Ok(()) => println!("setup: asn1! expansion workspace ready"),
            Err(e) => println!("setup: asn1! expansion workspace not ready (the macro part of C20 will report inconclusive): {e}"),
        }
        match c08fuzz::build() {
            Ok(p) => println!("setup: coverage-guided generator built ({})", p.display()),
            Err(e) => println!("setup: coverage-guided generator not built (C08 will note it as inconclusive and run its seeded categories): {e}"),
        }
        let mut rep = core::Report::default();
        match c20::cli_binary(&mut rep) {
            Some(p) => println!("setup: CLI built ({})", p.display()),
            None => println!("setup: CLI not built (C20 will report inconclusive): {:?}", rep.inconclusive),
        }
        std::process::exit(0);
    }
    let mut tier = match std::env::var("VERIF_TIER").ok().as_deref() {
        Some("thorough") => Tier::Thorough,
        _ => Tier::Quick,
    };
    let mut replay = None;
    let mut i = 2;
    while i < args.len() {
        match args[i].as_str() {
            "--tier" => {
                i += 1;
                tier = match args.get(i).map(|s| s.as_str()) {
                    Some("quick") => Tier::Quick,
                    Some("thorough") => Tier::Thorough,
                    _ => usage(),
                };
            }
            "--replay" => {
                i += 1;
                replay = args.get(i).cloned();
            }
            _ => {}
        }
        i += 1;
    }
    let seed = std::env::var("VERIF_SEED").ok().and_then(|s| s.trim().parse::<u64>().ok()).unwrap_or(1);
    comp::install_panic_hook();
    rayon::ThreadPoolBuilder::new().stack_size(256 << 20).build_global().ok();
    let ctx = Ctx { prop: prop.clone(), tier, seed, start: std::time::Instant::now(), replay };
    let rep = match prop.as_str() {
        "C01" => c01::run(&ctx),
        "C02" => c0235::run_c02(&ctx),
        "C03" => c0235::run_c03(&ctx),
        "C04" => c04::run(&ctx),
        "C05" => c0235::run_c05(&ctx),
        "C06" => c06::run(&ctx),
        "C07" => c07::run(&ctx),
        "C08" => c08::run(&ctx),
        "C09" => c09::run(&ctx),
        "C10" => c10::run(&ctx),
        "C11" => c11::run(&ctx),
        "C12" => c12::run(&ctx),
        "C13" => c13::run(&ctx),
        "C14" => c14::run(&ctx),
        "C15" => c15::run(&ctx),
        "C16" => c16::run(&ctx),
        "C17" => c17::run(&ctx),
        "C18" => c18::run(&ctx),
        "C19" => c19::run(&ctx),
        "C20" => c20::run(&ctx),
        _ => {
            eprintln!("unknown property {prop}");
            std::process::exit(2)
        }
    };
    let code = core::finish(&ctx, rep);
    std::process::exit(code);
}
