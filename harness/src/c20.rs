//! C20 — compile() delivers exactly the compiled text, and nothing on failure (process monitor + fault injection).
use crate::core::*;
use crate::gen::{self, GenOpts};
use rasn_compiler::prelude::*;
use rasn_compiler::OutputMode;
use serde_json::{json, Value};
use std::collections::BTreeMap;
use std::path::{Path, PathBuf};
use std::process::{Command, Stdio};

// ------------------------------------------------------------------------------------------------ child
fn build<B: Backend>(sources: &[Value]) -> rasn_compiler::Compiler<B, rasn_compiler::CompilerSourcesSet> {
    let mut it = sources.iter();
    let first = it.next().expect("at least one source");
    let mut c = if let Some(l) = first.get("literal").and_then(|x| x.as_str()) {
        rasn_compiler::Compiler::<B, _>::new().add_asn_literal(l.to_string())
    } else {
        rasn_compiler::Compiler::<B, _>::new().add_asn_by_path(PathBuf::from(first["path"].as_str().unwrap()))
    };
    for s in it {
        c = if let Some(l) = s.get("literal").and_then(|x| x.as_str()) { c.add_asn_literal(l.to_string()) } else { c.add_asn_by_path(PathBuf::from(s["path"].as_str().unwrap())) };
    }
    c
}

fn child_run<B: Backend>(spec: &Value) -> (Value, Value) {
    let sources = spec["sources"].as_array().unwrap().clone();
    // (1) the text compile_to_string() returns, in this very process environment
    let reference = match std::panic::catch_unwind(|| build::<B>(&sources).compile_to_string()) {
        Ok(Ok(r)) => json!({"status": "Ok", "generated": r.generated, "warnings": r.warnings.len()}),
        Ok(Err(e)) => json!({"status": "Err", "display": e.to_string()}),
        Err(_) => json!({"status": "Panic"}),
    };
    // destination state "stale output of exactly the same length": only now is the length known. The previous content is the
    // new text with one character changed (what recompiling after `(0..10)` -> `(0..20)` leaves behind).
    if let (Some(p), Some(g)) = (spec["prefill_same_length"].as_str(), reference["generated"].as_str()) {
        let mut stale = g.as_bytes().to_vec();
        if let Some(b) = stale.iter_mut().find(|b| b.is_ascii_alphanumeric()) {
            *b = if *b == b'q' { b'z' } else { b'q' };
        }
        let _ = std::fs::write(p, stale);
    }
    // (2) compile() with the requested output mode
    let mode = match spec["mode"].as_str().unwrap() {
        "stdout" => OutputMode::Stdout,
        "none" => OutputMode::NoOutput,
        _ => OutputMode::SingleFile(PathBuf::from(spec["dest"].as_str().unwrap())),
    };
    let result = match std::panic::catch_unwind(move || build::<B>(&sources).set_output_mode(mode).compile()) {
        Ok(Ok(w)) => json!({"status": "Ok", "warnings": w.len()}),
        Ok(Err(e)) => json!({"status": "Err", "display": e.to_string()}),
        Err(_) => json!({"status": "Panic", "panic": crate::comp::take_panic()}),
    };
    (reference, result)
}

/// `vcheck C20-child <spec.json>`: stdout belongs to compile(); verdict material goes to <spec.json>.out
pub fn child(args: &[String]) -> ! {
    let spec: Value = serde_json::from_str(&std::fs::read_to_string(&args[0]).expect("spec")).expect("json");
    let (reference, result) = if spec["backend"] == "ts" { child_run::<TypescriptBackend>(&spec) } else { child_run::<RasnBackend>(&spec) };
    let _ = std::fs::write(format!("{}.out", args[0]), serde_json::to_string(&json!({"reference": reference, "result": result})).unwrap());
    use std::io::Write;
    let _ = std::io::stdout().flush();
    std::process::exit(0);
}

// ------------------------------------------------------------------------------------------------ driver
type Snapshot = BTreeMap<String, (char, u64, u64)>; // path -> (kind, len, content hash)

fn snapshot(root: &Path) -> Snapshot {
    fn walk(p: &Path, root: &Path, out: &mut Snapshot) {
        let Ok(rd) = std::fs::read_dir(p) else { return };
        for e in rd.flatten() {
            let path = e.path();
            let rel = path.strip_prefix(root).unwrap().to_string_lossy().to_string();
            let Ok(md) = std::fs::symlink_metadata(&path) else { continue };
            if md.is_dir() {
                out.insert(rel, ('d', 0, 0));
                walk(&path, root, out);
            } else {
                let content = std::fs::read(&path).unwrap_or_default();
                out.insert(rel, ('f', content.len() as u64, hash_of(&content)));
            }
        }
    }
    let mut s = Snapshot::new();
    walk(root, root, &mut s);
    s
}

fn diff(a: &Snapshot, b: &Snapshot) -> Vec<String> {
    let mut d = vec![];
    for (k, v) in a {
        match b.get(k) {
            None => d.push(format!("removed {k}")),
            Some(w) if w != v => d.push(format!("modified {k} ({} -> {} bytes)", v.1, w.1)),
            _ => {}
        }
    }
    for k in b.keys() {
        if !a.contains_key(k) {
            d.push(format!("created {k}"));
        }
    }
    d
}

const DEST_STATES: [&str; 14] = [
    "file:existing-same-length", "dir:existing-same-length-generated", "file:absent", "file:existing-shorter", "file:existing-longer", "file:missing-parent", "file:parent-is-a-file", "file:/dev/full", "dir:generated-is-a-directory", "dir:empty", "dir:existing-longer-generated", "stdout", "stdout:/dev/full",
    "none",
];

struct CaseOut {
    reference: Value,
    result: Value,
    stdout: Vec<u8>,
    changes: Vec<String>,
    /// content found at the expected delivery place (if any)
    delivered: Option<Vec<u8>>,
    /// content of that place before compile() ran
    pre: Option<Vec<u8>>,
    exit_ok: bool,
}

fn run_case(work: &Path, n: u64, backend: &str, state: &str, sources: &[(String, bool)], exe: &Path) -> Option<CaseOut> {
    let dir = work.join(format!("case{n}"));
    let _ = std::fs::remove_dir_all(&dir);
    let out = dir.join("out");
    let src = dir.join("src");
    std::fs::create_dir_all(&out).ok()?;
    std::fs::create_dir_all(&src).ok()?;
    let ext = if backend == "ts" { "ts" } else { "rs" };
    let long = "x".repeat(200_000);
    // destination state
    let (mode, dest, expect_at): (&str, PathBuf, Option<PathBuf>) = match state {
        "file:absent" => ("file", out.join(format!("gen.{ext}")), Some(out.join(format!("gen.{ext}")))),
        "file:existing-shorter" => {
            std::fs::write(out.join(format!("gen.{ext}")), "old").ok()?;
            ("file", out.join(format!("gen.{ext}")), Some(out.join(format!("gen.{ext}"))))
        }
        "file:existing-longer" => {
            std::fs::write(out.join(format!("gen.{ext}")), &long).ok()?;
            ("file", out.join(format!("gen.{ext}")), Some(out.join(format!("gen.{ext}"))))
        }
        // filled by the child once the length of the new text is known
        "file:existing-same-length" => ("file", out.join(format!("gen.{ext}")), Some(out.join(format!("gen.{ext}")))),
        "dir:existing-same-length-generated" => {
            std::fs::create_dir_all(out.join("d")).ok()?;
            ("file", out.join("d"), Some(out.join("d").join(format!("generated.{ext}"))))
        }
        "file:missing-parent" => ("file", out.join("missing").join(format!("gen.{ext}")), None),
        "file:parent-is-a-file" => {
            std::fs::write(out.join("plain.txt"), "i am a file").ok()?;
            ("file", out.join("plain.txt").join(format!("gen.{ext}")), None)
        }
        "file:/dev/full" => ("file", PathBuf::from("/dev/full"), None),
        "dir:generated-is-a-directory" => {
            std::fs::create_dir_all(out.join("d").join(format!("generated.{ext}"))).ok()?;
            ("file", out.join("d"), None)
        }
        "dir:empty" => {
            std::fs::create_dir_all(out.join("d")).ok()?;
            ("file", out.join("d"), Some(out.join("d").join(format!("generated.{ext}"))))
        }
        "dir:existing-longer-generated" => {
            std::fs::create_dir_all(out.join("d")).ok()?;
            std::fs::write(out.join("d").join(format!("generated.{ext}")), &long).ok()?;
            ("file", out.join("d"), Some(out.join("d").join(format!("generated.{ext}"))))
        }
        "stdout" | "stdout:/dev/full" => ("stdout", PathBuf::new(), None),
        _ => ("none", PathBuf::new(), None),
    };
    // sources: literal or file
    let mut specs = vec![];
    for (i, (text, as_file)) in sources.iter().enumerate() {
        if *as_file {
            let p = src.join(format!("m{i}.asn1"));
            std::fs::write(&p, text).ok()?;
            specs.push(json!({"path": p.to_string_lossy()}));
        } else {
            specs.push(json!({"literal": text}));
        }
    }
    let spec_path = dir.join("spec.json");
    std::fs::write(&spec_path, serde_json::to_string(&json!({"backend": backend, "mode": mode, "dest": dest.to_string_lossy(), "sources": specs, "prefill_same_length": if state.contains("same-length") { expect_at.as_ref().map(|p| p.to_string_lossy().to_string()) } else { None }})).unwrap()).ok()?;
    let before = snapshot(&out);
    let pre = expect_at.as_ref().and_then(|p| std::fs::read(p).ok());
    // the child's standard output is a pipe we read, or the full device (every write to it fails with ENOSPC)
    let child_stdout = if state == "stdout:/dev/full" { Stdio::from(std::fs::OpenOptions::new().write(true).open("/dev/full").ok()?) } else { Stdio::piped() };
    let child = Command::new(exe).args(["C20-child", spec_path.to_str().unwrap()]).current_dir(&dir).env_remove("CARGO").env_remove("CARGO_HOME").stdin(Stdio::null()).stdout(child_stdout).stderr(Stdio::null()).output().ok()?;
    let after = snapshot(&out);
    let verdict: Value = std::fs::read_to_string(format!("{}.out", spec_path.to_string_lossy())).ok().and_then(|s| serde_json::from_str(&s).ok()).unwrap_or(json!({"reference": {"status": "ChildDied"}, "result": {"status": "ChildDied"}}));
    let delivered = expect_at.as_ref().and_then(|p| std::fs::read(p).ok());
    let mut changes = diff(&before, &after);
    // the expected delivery place itself is judged by content, not as a "change"
    if let Some(p) = &expect_at {
        let rel = p.strip_prefix(&out).unwrap().to_string_lossy().to_string();
        changes.retain(|c| !c.ends_with(&rel) && !c.contains(&format!(" {rel} ")));
    }
    let _ = std::fs::remove_dir_all(&dir);
    Some(CaseOut { reference: verdict["reference"].clone(), result: verdict["result"].clone(), stdout: child.stdout, changes, delivered, pre, exit_ok: child.status.success() })
}

fn judge(state: &str, o: &CaseOut) -> Vec<(String, String)> {
    let mut v = vec![];
    let rs = o.reference["status"].as_str().unwrap_or("?");
    let cs = o.result["status"].as_str().unwrap_or("?");
    if !o.exit_ok || rs == "ChildDied" {
        v.push(("child-died".to_string(), format!("the process running compile() did not finish normally (reference {rs}, result {cs})")));
        return v;
    }
    if cs == "Panic" {
        v.push(("panic-instead-of-err".into(), format!("compile() panicked: {}", o.result["panic"])));
        return v;
    }
    let text = o.reference["generated"].as_str().unwrap_or("");
    let writable = matches!(state, "file:absent" | "file:existing-shorter" | "file:existing-longer" | "file:existing-same-length" | "dir:existing-same-length-generated" | "dir:empty" | "dir:existing-longer-generated" | "stdout" | "none");
    if rs == "Ok" {
        if writable {
            if cs != "Ok" {
                v.push(("err-although-compilation-succeeds".into(), format!("compile_to_string is Ok but compile() returned {}", one_line(&o.result.to_string(), 200))));
                return v;
            }
            match state {
                "stdout" => {
                    if o.stdout != text.as_bytes() {
                        v.push(("stdout-differs".into(), format!("stdout has {} bytes, compile_to_string returned {} bytes", o.stdout.len(), text.len())));
                    }
                }
                "none" => {
                    if !o.stdout.is_empty() {
                        v.push(("stdout-not-empty".into(), format!("{} bytes on stdout in NoOutput mode", o.stdout.len())));
                    }
                }
                _ => match &o.delivered {
                    Some(d) if d == text.as_bytes() => {}
                    Some(d) => v.push(("delivered-text-differs".into(), format!("destination holds {} bytes, compile_to_string returned {} bytes{}", d.len(), text.len(), if d.starts_with(text.as_bytes()) { " (old content left after the new text)" } else { "" }))),
                    None => v.push(("nothing-delivered".into(), "compile() returned Ok but the destination does not exist".into())),
                },
            }
            if state != "stdout" && !o.stdout.is_empty() && state != "none" {
                v.push(("stdout-not-empty".into(), format!("{} bytes on stdout in file mode", o.stdout.len())));
            }
        } else {
            // unwritable destination: must be reported as Err
            // an empty text writes no byte, so /dev/full has nothing to refuse
            if cs != "Err" && !(state.ends_with("/dev/full") && text.is_empty()) {
                v.push(("unwritable-destination-not-reported".into(), format!("destination `{state}` cannot be written but compile() returned {cs}")));
            }
        }
        if !o.changes.is_empty() {
            v.push(("unrelated-fs-change".into(), format!("{:?}", o.changes)));
        }
    } else {
        // failed compilation: Err, nothing written, nothing on stdout
        if cs != "Err" {
            v.push(("ok-although-compilation-fails".into(), format!("compile_to_string is {rs} but compile() returned {cs}")));
        }
        let mut ch = o.changes.clone();
        // the delivery place itself (kept out of the change list): untouched
        if o.delivered != o.pre {
            ch.push(format!("destination {} -> {}", o.pre.as_ref().map_or("absent".to_string(), |p| format!("{} bytes", p.len())), o.delivered.as_ref().map_or("absent".to_string(), |p| format!("{} bytes", p.len()))));
        }
        ch.sort();
        if !ch.is_empty() {
            v.push(("written-on-failure".into(), format!("{ch:?}")));
        }
        if !o.stdout.is_empty() {
            v.push(("stdout-on-failure".into(), format!("{} bytes", o.stdout.len())));
        }
    }
    v
}

pub fn cli_binary(rep: &mut Report) -> Option<PathBuf> {
    // built from /repo's working tree into the harness's own target directory
    let target = format!("{VERIF_DIR}/harness/target/cli");
    let st = Command::new("cargo")
        .args(["build", "--offline", "--quiet", "--manifest-path", &format!("{REPO_DIR}/Cargo.toml"), "-p", "rasn-compiler", "--features", "cli", "--bin", "rasn_compiler_cli"])
        .env("CARGO_TARGET_DIR", &target)
        .env("CARGO_NET_OFFLINE", "true")
        .stdout(Stdio::null())
        .stderr(Stdio::piped())
        .output();
    match st {
        Ok(o) if o.status.success() => Some(PathBuf::from(format!("{target}/debug/rasn_compiler_cli"))),
        Ok(o) => {
            rep.inconclusive.push(format!("CLI build failed: {}", one_line(&String::from_utf8_lossy(&o.stderr), 300)));
            None
        }
        Err(e) => {
            rep.inconclusive.push(format!("cannot run cargo: {e}"));
            None
        }
    }
}

fn cli_case(work: &Path, n: u64, cli: &Path, exe: &Path, backend: &str, how: u8, texts: &[String], rng: &mut Rng, rep: &mut Report) {
    let dir = work.join(format!("cli{n}"));
    let _ = std::fs::remove_dir_all(&dir);
    // how the directory is named on the command line (only with -d): 0 absolute path, 1 `.` from inside the tree,
    // 2 a directory whose own name starts with a dot, 3 one module below a dot-directory inside the tree
    let dir_style = if how % 2 == 0 && (how / 2) % 4 != 3 { (how / 8) % 4 } else { 0 };
    let tree = dir.join(if dir_style == 2 { ".tree" } else { "tree" });
    let out = dir.join("out");
    if std::fs::create_dir_all(tree.join("sub/deeper")).is_err() || std::fs::create_dir_all(&out).is_err() {
        return;
    }
    let ext = if backend == "ts" { "ts" } else { "rs" };
    // modules spread over the tree with both extensions; decoys that must not be picked up
    let mut files = vec![];
    // a third of the trees: every module file has the same file name (`types.asn1` in several directories)
    let same_names = texts.len() <= 4 && rng.chance(1, 3);
    if same_names {
        rep.count("cli_trees_with_equal_file_names", 1);
    }
    for (i, t) in texts.iter().enumerate() {
        let sub = if dir_style == 3 && i == 0 { "sub/.vendored" } else if same_names { ["", "sub", "sub/deeper", "sub/other"][i % 4] } else { ["", "sub", "sub/deeper"][rng.below(3)] };
        let _ = std::fs::create_dir_all(tree.join(sub));
        let e = if same_names { "asn1" } else if rng.chance(1, 2) { "asn" } else { "asn1" };
        let p = tree.join(sub).join(if same_names { format!("types.{e}") } else { format!("m{i}.{e}") });
        let _ = std::fs::write(&p, t);
        files.push(p);
    }
    let _ = std::fs::write(tree.join("decoy.txt"), "not asn1 ::= !!");
    let _ = std::fs::write(tree.join("sub").join("notes.asn.bak"), "neither ::= ??");
    let _ = std::fs::write(tree.join("sub/deeper").join("README"), "x");
    // library reference over the same files
    let spec_path = dir.join("spec.json");
    let specs: Vec<Value> = files.iter().map(|p| json!({"path": p.to_string_lossy()})).collect();
    let _ = std::fs::write(&spec_path, serde_json::to_string(&json!({"backend": backend, "mode": "none", "dest": "", "sources": specs})).unwrap());
    let _ = Command::new(exe).args(["C20-child", spec_path.to_str().unwrap()]).current_dir(&dir).env_remove("CARGO").env_remove("CARGO_HOME").stdin(Stdio::null()).stdout(Stdio::null()).stderr(Stdio::null()).status();
    let verdict: Value = std::fs::read_to_string(format!("{}.out", spec_path.to_string_lossy())).ok().and_then(|s| serde_json::from_str(&s).ok()).unwrap_or(Value::Null);
    let lib_status = verdict["reference"]["status"].as_str().unwrap_or("?").to_string();
    let lib_text = verdict["reference"]["generated"].as_str().unwrap_or("").to_string();
    // CLI invocation
    let mut cmd = Command::new(cli);
    cmd.current_dir(if dir_style == 1 { &tree } else { &out }).env_remove("CARGO").env_remove("CARGO_HOME").stdin(Stdio::null()).stdout(Stdio::piped()).stderr(Stdio::piped());
    cmd.args(["--backend", if backend == "ts" { "typescript" } else { "rasn" }]);
    let by_dir = how % 2 == 0;
    if by_dir {
        if dir_style == 1 {
            cmd.arg("-d").arg(".");
        } else {
            cmd.arg("-d").arg(&tree);
        }
    } else {
        for f in &files {
            cmd.arg("-m").arg(f);
        }
    }
    let out_kind = (how / 2) % 4;
    let expect_at: Option<PathBuf> = match out_kind {
        0 => {
            cmd.arg("-o").arg(out.join(format!("x.{ext}")));
            Some(out.join(format!("x.{ext}")))
        }
        1 => {
            cmd.arg("--stdout");
            None
        }
        2 => {
            cmd.arg("--no-output");
            None
        }
        _ => Some(out.join(format!("generated.{ext}"))),
    };
    // `--stdout > /dev/full`: the CLI must fail (the library reports the failed write as Err)
    let full_stdout = out_kind == 1 && (how / 32) % 2 == 1 && !lib_text.is_empty();
    if full_stdout {
        match std::fs::OpenOptions::new().write(true).open("/dev/full") {
            Ok(f) => {
                cmd.stdout(Stdio::from(f));
            }
            Err(_) => return,
        }
    }
    let before = snapshot(&out);
    let Ok(o) = cmd.output() else {
        rep.inconclusive.push("cannot spawn CLI".into());
        return;
    };
    let after = snapshot(&out);
    rep.evaluations += 1;
    rep.count("cli_invocations", 1);
    rep.count(&format!("cli_invocations[{}/{}]", if by_dir { "directory" } else { "module-files" }, ["output-path", "stdout", "no-output", "default-path"][out_kind as usize]), 1);
    if by_dir {
        rep.count(&format!("cli_invocations[-d {}]", ["ABSOLUTE", ".", ".DOTNAME", "tree with a dot-directory inside"][dir_style as usize]), 1);
    }
    if full_stdout {
        rep.count("cli_invocations[--stdout on /dev/full]", 1);
    }
    rep.nontrivial.insert(hash_str(&format!("cli|{n}|{how}|{backend}|{}", texts.join("|"))));
    let mut found: Vec<(String, String)> = vec![];
    let cli_ok = o.status.success();
    if o.status.code().is_none() {
        found.push(("cli-killed-by-signal".into(), format!("{:?}", o.status)));
    }
    if full_stdout {
        if lib_status == "Ok" && cli_ok {
            found.push(("cli-unwritable-stdout-not-reported".into(), format!("--stdout on /dev/full: exit status 0 although none of the {} bytes can have been delivered", lib_text.len())));
        }
    } else if cli_ok != (lib_status == "Ok") {
        found.push(("exit-status-vs-library".into(), format!("CLI exit success={cli_ok}, library result {lib_status}; stderr: {}", one_line(&String::from_utf8_lossy(&o.stderr), 200))));
    } else if cli_ok {
        match out_kind {
            1 => {
                if o.stdout != lib_text.as_bytes() {
                    found.push(("cli-stdout-differs".into(), format!("stdout {} bytes vs library {} bytes; starts with `{}`", o.stdout.len(), lib_text.len(), one_line(&String::from_utf8_lossy(&o.stdout[..o.stdout.len().min(80)]), 80))));
                }
            }
            2 => {
                if !o.stdout.is_empty() {
                    found.push(("cli-stdout-not-empty".into(), format!("{} bytes on stdout with --no-output", o.stdout.len())));
                }
            }
            _ => {
                let d = expect_at.as_ref().and_then(|p| std::fs::read(p).ok());
                match d {
                    Some(d) if d == lib_text.as_bytes() => {}
                    Some(d) => found.push(("cli-bindings-differ".into(), format!("file has {} bytes, library text {} bytes", d.len(), lib_text.len()))),
                    None => found.push(("cli-nothing-written".into(), "exit 0 but no output file".into())),
                }
                if !o.stdout.is_empty() {
                    found.push(("cli-stdout-not-empty".into(), format!("{} bytes on stdout in file mode", o.stdout.len())));
                }
            }
        }
    } else {
        let ch = diff(&before, &after);
        if !ch.is_empty() {
            found.push(("cli-written-on-failure".into(), format!("{ch:?}")));
        }
        if !o.stdout.is_empty() {
            found.push(("cli-stdout-on-failure".into(), format!("{} bytes", o.stdout.len())));
        }
    }
    let _ = std::fs::remove_dir_all(&dir);
    for (kind, detail) in found {
        rep.violations.push(Violation {
            sig: format!("c20|{kind}|{}", if by_dir { "directory" } else { "module-files" }),
            what: format!("{detail} [{backend}, {}]", ["-o PATH", "--stdout", "--no-output", "default path"][out_kind as usize]),
            replay: json!({"how": how, "backend": backend, "sources": texts}),
        });
    }
}

fn inputs(seed: u64, idx: u64) -> (Vec<String>, bool) {
    let mut rng = Rng::for_case(seed, 20, idx);
    let o = GenOpts { modules: (1, 3), assigns: (1, 6), max_depth: 2, max_comps: 4, ..GenOpts::default() };
    let set = gen::random_set(seed, 2000, idx, &o);
    let mut texts = set.render_each();
    // every eleventh input: nothing to generate - a module without assignments, or with an IMPORTS clause only. compile() still
    // delivers what compile_to_string() returns (for the rasn backend that is a line break), and still reports an unwritable place
    if idx % 11 == 7 {
        return (vec![if rng.chance(1, 2) { "Me DEFINITIONS AUTOMATIC TAGS ::= BEGIN END\n".to_string() } else { "Me DEFINITIONS ::= BEGIN\nEXPORTS ALL;\nEND\n".to_string() }], false);
    }
    // every third input is malformed (one token deleted or garbage inserted) so that compilation fails
    let malformed = idx % 3 == 2;
    if malformed {
        let i = rng.below(texts.len());
        let t = &mut texts[i];
        let cut = t.find("::=").map(|p| p + 3).unwrap_or(0);
        t.insert_str(cut, " ?$? ");
    }
    (texts, malformed)
}

pub fn run(ctx: &Ctx) -> Report {
    let mut rep = Report::new(
        "fault_enumeration",
        "library: grammar-G module sets (valid, every third one malformed, every eleventh a module without assignments) x both backends x sources as literals / file paths / mixed x destination state {file absent, existing shorter file, existing longer file, existing file of exactly the new text's length that differs in one character (also as generated.<ext> inside a directory), missing parent directory, parent is a regular file, /dev/full, directory whose generated.<ext> is itself a directory, empty directory, directory with a longer generated.<ext>, stdout, no output} — each case runs compile() in a child process (same environment as the compile_to_string() reference taken in that very process, rustfmt unavailable) with file-system snapshots of the destination tree before and after and captured stdout. CLI: the real rasn_compiler_cli built from /repo with feature cli, on directory trees (nested, .asn and .asn1, decoy files, in a third of the trees the same file name in several directories) or -m lists x {-o PATH, --stdout, --no-output, default path} x both backends, compared with the library on the same file set. asn1!: 18 (quick) / 288 (thorough) literals (whole modules, assignments without header - which the macro wraps -, truncated texts, texts with quotes / backslashes / non-ASCII) each as `mod mac_k { asn1!(..) }` next to `mod lib_k { include!(library output) }` in one crate expanded by the real rustc (-Zunpretty=expanded, proc macro built from /repo): the macro panics iff the library returns Err, and the expanded items of the two modules are equal (use declarations as a set). Non-trivial = child finished and all observations judged; distinct by (input, backend, destination state).",
    );
    rep.must_observe = vec!["library_cases".into(), "cli_invocations".into(), "cli_invocations[-d .]".into(), "cli_invocations[-d .DOTNAME]".into(), "cli_invocations[--stdout on /dev/full]".into(), "library_cases[stdout:/dev/full]".into(), "library_cases[failed-compilation]".into(), "library_cases[unwritable-destination]".into(), "macro_expansions_compared".into(), "macro_failures_matching_library_err".into(), "cli_trees_with_equal_file_names".into()];
    rep.assumptions = vec!["we run as root: unwritable destinations are produced by ENOTDIR / ENOSPC (/dev/full) / EISDIR, not by mode bits".into(), "asn1!: the wrapping rule (no BEGIN in the literal => dummy AUTOMATIC TAGS module) is replicated by the harness; expansion observed with the nightly toolchain's -Zunpretty=expanded".into()];
    let exe = std::env::current_exe().expect("current_exe");
    let work = std::env::temp_dir().join(format!("vcheck-c20-{}", std::process::id()));
    let _ = std::fs::create_dir_all(&work);
    if ctx.replay.is_some() {
        rep.evaluations = 1;
        rep.inconclusive.push("replay: re-run the check (cases are regenerated from the seed)".into());
        return rep;
    }
    let cli = cli_binary(&mut rep);
    let n_inputs = ctx.pick(40u64, 1200);
    let seed = ctx.seed;
    let acc = Acc::new(rep);
    // library cases: every destination state for every input (exhaustive over states), backend and source kind rotate
    par_for(n_inputs, |i| {
        let mut local = Report::default();
        let (texts, malformed) = inputs(seed, i);
        for (si, state) in DEST_STATES.iter().enumerate() {
            for backend in ["rasn", "ts"] {
                if backend == "ts" && (i + si as u64) % 3 != 0 {
                    continue;
                }
                let kind = (i + si as u64) % 3; // 0 literals, 1 files, 2 mixed
                let sources: Vec<(String, bool)> = texts.iter().enumerate().map(|(k, t)| (t.clone(), kind == 1 || (kind == 2 && k % 2 == 0))).collect();
                let n = i * 1000 + si as u64 * 10 + (backend == "ts") as u64;
                let Some(o) = run_case(&work, n, backend, state, &sources, &exe) else {
                    local.inconclusive.push("cannot set up case directory".into());
                    continue;
                };
                local.evaluations += 1;
                local.count("library_cases", 1);
                local.count(&format!("library_cases[{state}]"), 1);
                if o.reference["status"] != "Ok" {
                    local.count("library_cases[failed-compilation]", 1);
                } else if !matches!(*state, "file:absent" | "file:existing-shorter" | "file:existing-longer" | "file:existing-same-length" | "dir:existing-same-length-generated" | "dir:empty" | "dir:existing-longer-generated" | "stdout" | "none") {
                    local.count("library_cases[unwritable-destination]", 1);
                }
                local.nontrivial.insert(hash_str(&format!("{i}|{state}|{backend}")));
                if local.samples.len() < 2 && si == 2 && i % 13 == 1 {
                    local.sample(json!({"destination_state": state, "backend": backend, "malformed_input": malformed, "reference": o.reference["status"], "compile_result": o.result, "stdout_bytes": o.stdout.len(), "fs_changes": o.changes}));
                }
                for (kind, detail) in judge(state, &o) {
                    local.violations.push(Violation { sig: format!("c20|{kind}|{state}"), what: format!("{detail} [{backend}, input {}valid]", if malformed { "in" } else { "" }), replay: json!({"seed": seed, "idx": i, "state": state, "backend": backend}) });
                }
            }
        }
        acc.with(|r| r.merge(local));
    });
    if let Some(cli) = cli {
        let n_cli = ctx.pick(120u64, 4000);
        par_for(n_cli, |i| {
            let mut local = Report::default();
            let mut rng = Rng::for_case(seed, 2020, i);
            let (texts, _) = inputs(seed, 10_000 + i);
            let backend = if i % 4 == 3 { "ts" } else { "rasn" };
            cli_case(&work, i, &cli, &exe, backend, (i % 64) as u8, &texts, &mut rng, &mut local);
            acc.with(|r| r.merge(local));
        });
    }
    let _ = std::fs::remove_dir_all(&work);
    let mut rep = acc.into_inner();
    // the asn1! proc macro, expanded by the real rustc
    crate::c20macro::run(ctx, &mut rep);
    rep
}
