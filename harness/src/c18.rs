//! C18 — TypeScript declarations have the JER shape of each type (structural TS parser + reference model).
use crate::comp;
use crate::core::*;
use crate::gen::{self, *};
use serde_json::json;
use std::collections::{BTreeMap, BTreeSet};

// ------------------------------------------------------------------------------------------------ TS tokens
#[derive(Clone, Debug, PartialEq)]
enum T {
    Id(String),
    Str(String),
    Num(String),
    P(char),
}

fn tokenize(src: &str) -> Result<Vec<T>, String> {
    let cs: Vec<char> = src.chars().collect();
    let mut i = 0;
    let mut out = vec![];
    while i < cs.len() {
        let c = cs[i];
        if c.is_whitespace() {
            i += 1;
        } else if c == '/' && cs.get(i + 1) == Some(&'/') {
            while i < cs.len() && cs[i] != '\n' {
                i += 1;
            }
        } else if c == '/' && cs.get(i + 1) == Some(&'*') {
            i += 2;
            while i + 1 < cs.len() && !(cs[i] == '*' && cs[i + 1] == '/') {
                i += 1;
            }
            if i + 1 >= cs.len() {
                return Err("unterminated comment".into());
            }
            i += 2;
        } else if c == '"' || c == '\'' || c == '`' {
            let q = c;
            i += 1;
            let mut s = String::new();
            loop {
                match cs.get(i) {
                    None => return Err("unterminated string literal".into()),
                    Some('\\') => {
                        if let Some(n) = cs.get(i + 1) {
                            s.push(*n);
                        }
                        i += 2;
                    }
                    Some(x) if *x == q => {
                        i += 1;
                        break;
                    }
                    Some('\n') if q != '`' => return Err("line break inside a string literal".into()),
                    Some(x) => {
                        s.push(*x);
                        i += 1;
                    }
                }
            }
            out.push(T::Str(s));
        } else if c.is_alphabetic() || c == '_' || c == '$' {
            let st = i;
            while i < cs.len() && (cs[i].is_alphanumeric() || cs[i] == '_' || cs[i] == '$') {
                i += 1;
            }
            out.push(T::Id(cs[st..i].iter().collect()));
        } else if c.is_ascii_digit() || (c == '-' && cs.get(i + 1).is_some_and(|d| d.is_ascii_digit())) {
            let st = i;
            i += 1;
            while i < cs.len() && (cs[i].is_ascii_alphanumeric() || cs[i] == '.' || cs[i] == '_') {
                i += 1;
            }
            out.push(T::Num(cs[st..i].iter().collect()));
        } else {
            out.push(T::P(c));
            i += 1;
        }
    }
    Ok(out)
}

fn balanced(toks: &[T]) -> Result<(), String> {
    let mut st = vec![];
    for t in toks {
        if let T::P(c) = t {
            match c {
                '{' | '[' | '(' => st.push(*c),
                '}' | ']' | ')' => {
                    let o = st.pop().ok_or_else(|| format!("unmatched `{c}`"))?;
                    let want = match o {
                        '{' => '}',
                        '[' => ']',
                        _ => ')',
                    };
                    if *c != want {
                        return Err(format!("`{o}` closed by `{c}`"));
                    }
                }
                _ => {}
            }
        }
    }
    if let Some(o) = st.pop() {
        return Err(format!("unclosed `{o}`"));
    }
    Ok(())
}

// ------------------------------------------------------------------------------------------------ TS declaration AST
#[derive(Clone, Debug, PartialEq)]
enum Ty {
    Name(String),
    Lit(String),
    Obj { members: Vec<(String, bool, Ty)>, index_sig: bool },
    Arr(Box<Ty>),
    Union(Vec<Ty>),
}

#[derive(Clone, Debug)]
enum Decl {
    Type(Ty),
    Enum(Vec<(String, String)>),
    Const,
}

#[derive(Default, Debug)]
struct Namespace {
    name: String,
    imports: Vec<(String, String, String)>, // alias, module, symbol
    decls: Vec<(String, Decl)>,
}

struct P<'a> {
    t: &'a [T],
    i: usize,
}
impl<'a> P<'a> {
    fn peek(&self) -> Option<&T> {
        self.t.get(self.i)
    }
    fn eat_p(&mut self, c: char) -> bool {
        if self.peek() == Some(&T::P(c)) {
            self.i += 1;
            true
        } else {
            false
        }
    }
    fn expect_p(&mut self, c: char) -> Result<(), String> {
        if self.eat_p(c) {
            Ok(())
        } else {
            Err(format!("expected `{c}`, found {:?}", self.peek()))
        }
    }
    fn eat_id(&mut self, s: &str) -> bool {
        if matches!(self.peek(), Some(T::Id(x)) if x == s) {
            self.i += 1;
            true
        } else {
            false
        }
    }
    fn ident(&mut self) -> Result<String, String> {
        match self.peek() {
            Some(T::Id(x)) => {
                let x = x.clone();
                self.i += 1;
                Ok(x)
            }
            o => Err(format!("expected identifier, found {o:?}")),
        }
    }
    fn ty(&mut self) -> Result<Ty, String> {
        self.eat_p('|');
        let mut alts = vec![self.postfix()?];
        while self.eat_p('|') {
            alts.push(self.postfix()?);
        }
        Ok(if alts.len() == 1 { alts.pop().unwrap() } else { Ty::Union(alts) })
    }
    fn postfix(&mut self) -> Result<Ty, String> {
        let mut t = self.primary()?;
        while self.peek() == Some(&T::P('[')) && self.t.get(self.i + 1) == Some(&T::P(']')) {
            self.i += 2;
            t = Ty::Arr(Box::new(t));
        }
        Ok(t)
    }
    fn primary(&mut self) -> Result<Ty, String> {
        match self.peek().cloned() {
            Some(T::P('(')) => {
                self.i += 1;
                let t = self.ty()?;
                self.expect_p(')')?;
                Ok(t)
            }
            Some(T::P('{')) => {
                self.i += 1;
                let mut members = vec![];
                let mut index_sig = false;
                loop {
                    if self.eat_p('}') {
                        break;
                    }
                    if self.eat_p(',') || self.eat_p(';') {
                        continue;
                    }
                    if self.eat_p('[') {
                        // index signature [key: string]: any
                        self.ident()?;
                        self.expect_p(':')?;
                        self.ty()?;
                        self.expect_p(']')?;
                        self.expect_p(':')?;
                        self.ty()?;
                        index_sig = true;
                        continue;
                    }
                    let name = match self.peek().cloned() {
                        Some(T::Id(x)) => {
                            self.i += 1;
                            x
                        }
                        Some(T::Str(x)) => {
                            self.i += 1;
                            x
                        }
                        o => return Err(format!("member name expected, found {o:?}")),
                    };
                    let opt = self.eat_p('?');
                    self.expect_p(':')?;
                    let t = self.ty()?;
                    members.push((name, opt, t));
                }
                Ok(Ty::Obj { members, index_sig })
            }
            Some(T::Id(x)) => {
                self.i += 1;
                let mut n = x;
                while self.eat_p('.') {
                    n.push('.');
                    n.push_str(&self.ident()?);
                }
                Ok(Ty::Name(n))
            }
            Some(T::Str(s)) => {
                self.i += 1;
                Ok(Ty::Lit(s))
            }
            Some(T::Num(s)) => {
                self.i += 1;
                Ok(Ty::Lit(s))
            }
            o => Err(format!("type expected, found {o:?}")),
        }
    }
    fn skip_initialiser(&mut self) -> Result<(), String> {
        // up to the `;` at nesting depth 0
        let mut depth = 0i32;
        while let Some(t) = self.peek() {
            match t {
                T::P('{') | T::P('[') | T::P('(') => depth += 1,
                T::P('}') | T::P(']') | T::P(')') => {
                    depth -= 1;
                    if depth < 0 {
                        return Err("initialiser closes more than it opens".into());
                    }
                }
                T::P(';') if depth == 0 => {
                    self.i += 1;
                    return Ok(());
                }
                _ => {}
            }
            self.i += 1;
        }
        Err("initialiser without terminating `;`".into())
    }
    fn namespace(&mut self) -> Result<Namespace, String> {
        if !(self.eat_id("export") && self.eat_id("namespace")) {
            return Err(format!("`export namespace` expected, found {:?}", self.peek()));
        }
        let mut ns = Namespace { name: self.ident()?, ..Default::default() };
        self.expect_p('{')?;
        loop {
            if self.eat_p('}') {
                break;
            }
            if self.eat_p(';') {
                continue;
            }
            if self.eat_id("import") {
                let alias = self.ident()?;
                self.expect_p('=')?;
                let m = self.ident()?;
                self.expect_p('.')?;
                let s = self.ident()?;
                self.eat_p(';');
                ns.imports.push((alias, m, s));
                continue;
            }
            if !self.eat_id("export") {
                return Err(format!("`export` expected, found {:?}", self.peek()));
            }
            if self.eat_id("type") {
                let n = self.ident()?;
                self.expect_p('=')?;
                let t = self.ty()?;
                self.eat_p(';');
                ns.decls.push((n, Decl::Type(t)));
            } else if self.eat_id("enum") {
                let n = self.ident()?;
                self.expect_p('{')?;
                let mut ms = vec![];
                loop {
                    if self.eat_p('}') {
                        break;
                    }
                    if self.eat_p(',') {
                        continue;
                    }
                    let m = self.ident()?;
                    self.expect_p('=')?;
                    let v = match self.peek().cloned() {
                        Some(T::Str(s)) => {
                            self.i += 1;
                            s
                        }
                        o => return Err(format!("string-valued enum member expected, found {o:?}")),
                    };
                    ms.push((m, v));
                }
                self.eat_p(';');
                ns.decls.push((n, Decl::Enum(ms)));
            } else if self.eat_id("const") {
                let n = self.ident()?;
                if self.eat_p(':') {
                    self.ty()?;
                }
                self.expect_p('=')?;
                self.skip_initialiser()?;
                ns.decls.push((n, Decl::Const));
            } else {
                return Err(format!("declaration kind expected, found {:?}", self.peek()));
            }
        }
        Ok(ns)
    }
}

fn parse(src: &str) -> Result<Vec<Namespace>, String> {
    let toks = tokenize(src)?;
    balanced(&toks)?;
    let mut p = P { t: &toks, i: 0 };
    let mut out = vec![];
    while p.peek().is_some() {
        out.push(p.namespace()?);
    }
    Ok(out)
}

// ------------------------------------------------------------------------------------------------ model comparison
fn mangle(n: &str) -> String {
    n.replace('-', "_")
}

const BUILTINS: [&str; 10] = ["number", "string", "boolean", "null", "any", "object", "undefined", "unknown", "never", "bigint"];

fn names_in(t: &Ty, out: &mut BTreeSet<String>) {
    match t {
        Ty::Name(n) => {
            out.insert(n.clone());
        }
        Ty::Obj { members, .. } => members.iter().for_each(|m| names_in(&m.2, out)),
        Ty::Arr(e) => names_in(e, out),
        Ty::Union(v) => v.iter().for_each(|x| names_in(x, out)),
        Ty::Lit(_) => {}
    }
}

fn compare(model: &gen::Ty, ts: &Ty, ext_implied: bool, what: &str, out: &mut Vec<(String, String)>, counters: &mut BTreeMap<&'static str, u64>) {
    match &model.kind {
        TyKind::Sequence(s) | TyKind::Set(s) => {
            let Ty::Obj { members, index_sig } = ts else {
                out.push(("shape".into(), format!("{what}: SEQUENCE/SET is not an object type: {ts:?}")));
                return;
            };
            *counters.entry("object_types_compared").or_insert(0) += 1;
            // expected members: root, additions (the components of a group are members of the object itself), second root
            let mut exp: Vec<(&Comp, bool)> = s.root.iter().map(|c| (c, false)).collect();
            let mut groups: Vec<&[Comp]> = vec![];
            if let Some(adds) = &s.ext {
                for a in adds {
                    match a {
                        Addition::Comp(c) => exp.push((c, false)),
                        Addition::Group { comps, .. } => {
                            groups.push(comps);
                            for c in comps {
                                exp.push((c, true));
                            }
                        }
                    }
                }
            }
            exp.extend(s.root2.iter().map(|c| (c, false)));
            // flatten group members of the TS side
            let mut got: Vec<(String, bool, &Ty)> = vec![];
            for (n, o, t) in members {
                if n.starts_with("ext_group_") && !exp.iter().any(|(c, _)| mangle(&c.name) == *n) {
                    // JER (X.697) encodes the components of an extension addition group as members of the object itself; a
                    // member named after the compiler's internal pseudo component is not a component of the type
                    out.push(("members|extension-group-as-nested-object".into(), format!("{what}: the extension addition group shows up as the member `{n}` (a nested object) instead of its components being members of the object")));
                    if let Ty::Obj { members: gm, .. } = t {
                        for (gn, go, gt) in gm {
                            got.push((gn.clone(), *go, gt));
                        }
                        continue;
                    }
                }
                got.push((n.clone(), *o, t));
            }
            let gn: Vec<&str> = got.iter().map(|m| m.0.as_str()).collect();
            let en: Vec<String> = exp.iter().map(|(c, _)| mangle(&c.name)).collect();
            if gn != en.iter().map(|s| s.as_str()).collect::<Vec<_>>() {
                out.push(("members".into(), format!("{what}: members {gn:?}, components {en:?}")));
                return;
            }
            for ((_, opt, t), (c, _in_group)) in got.iter().zip(exp.iter()) {
                *counters.entry("members_compared").or_insert(0) += 1;
                let want = !matches!(c.opt, Optionality::Required);
                if *opt != want {
                    out.push((if want { "optional-mark-missing" } else { "optional-mark-unexpected" }.into(), format!("{what}.{}: `?`={opt}, component is {}", c.name, if want { "OPTIONAL/DEFAULT" } else { "required" })));
                }
                compare(&c.ty, t, ext_implied, &format!("{what}.{}", c.name), out, counters);
            }
            let want_sig = s.ext.is_some() || ext_implied;
            *counters.entry("index_signatures_compared").or_insert(0) += 1;
            if *index_sig != want_sig {
                out.push((format!("{}|marker={},implied={ext_implied}", if want_sig { "index-signature-missing" } else { "index-signature-unexpected" }, s.ext.is_some()), format!("{what}: index signature={index_sig}, extensible={want_sig} (marker={}, implied={ext_implied})", s.ext.is_some())));
            }
        }
        TyKind::Choice(s) => {
            let alts: Vec<&Ty> = match ts {
                Ty::Union(v) => v.iter().collect(),
                single => vec![single],
            };
            *counters.entry("choice_types_compared").or_insert(0) += 1;
            let mut exp: Vec<&Comp> = s.root.iter().collect();
            if let Some(adds) = &s.ext {
                for a in adds {
                    match a {
                        Addition::Comp(c) => exp.push(c),
                        Addition::Group { comps, .. } => exp.extend(comps.iter()),
                    }
                }
            }
            let mut keys = vec![];
            for a in &alts {
                match a {
                    Ty::Obj { members, index_sig: false } if members.len() == 1 => keys.push(members[0].0.clone()),
                    other => {
                        out.push(("choice-shape".into(), format!("{what}: CHOICE alternative is not a single-key object: {other:?}")));
                        return;
                    }
                }
            }
            let en: Vec<String> = exp.iter().map(|c| mangle(&c.name)).collect();
            if keys != en {
                out.push(("alternatives".into(), format!("{what}: union keys {keys:?}, alternatives {en:?}")));
                return;
            }
            for (a, c) in alts.iter().zip(exp) {
                if let Ty::Obj { members, .. } = a {
                    compare(&c.ty, &members[0].2, ext_implied, &format!("{what}.{}", c.name), out, counters);
                }
            }
        }
        TyKind::SeqOf(e) | TyKind::SetOf(e) => {
            *counters.entry("array_types_compared").or_insert(0) += 1;
            match ts {
                Ty::Arr(inner) => compare(e, inner, ext_implied, &format!("{what}[]"), out, counters),
                other => out.push(("array".into(), format!("{what}: SEQUENCE OF / SET OF is not an array type: {other:?}"))),
            }
        }
        TyKind::Ref { name, .. } => {
            *counters.entry("references_compared").or_insert(0) += 1;
            match ts {
                Ty::Name(n) if n.rsplit('.').next() == Some(mangle(name).as_str()) => {}
                other => out.push(("reference".into(), format!("{what}: reference to {name} rendered as {other:?}"))),
            }
        }
        TyKind::Enumerated(e) => {
            // inline enumerated: string literal union (or a name); the member spellings must be the original names
            if let Ty::Union(v) = ts {
                let lits: Vec<String> = v.iter().filter_map(|x| if let Ty::Lit(s) = x { Some(s.clone()) } else { None }).collect();
                if lits.len() == v.len() {
                    let want: Vec<String> = e.root.iter().chain(e.ext.iter().flatten()).map(|x| x.0.clone()).collect();
                    if lits != want {
                        out.push(("inline-enumerals".into(), format!("{what}: literals {lits:?}, enumerals {want:?}")));
                    }
                }
            }
        }
        _ => {}
    }
}

fn hy(n: &str) -> String {
    // eq12 -> e-q12 (only names produced by the generator: one lower-case letter + q + serial)
    let b = n.as_bytes();
    if b.len() >= 3 && b[1] == b'q' && b[0].is_ascii_lowercase() && b[2..].iter().all(|c| c.is_ascii_digit()) {
        format!("{}-{}", &n[..1], &n[1..])
    } else {
        n.to_string()
    }
}

fn hyphenate_val(v: &mut Val) {
    match v {
        Val::Ident(s) if s.starts_with('e') => *s = hy(s),
        Val::Choice(a, inner) => {
            *a = hy(a);
            hyphenate_val(inner);
        }
        Val::Seq(fs) => fs.iter_mut().for_each(|(n, v)| {
            *n = hy(n);
            hyphenate_val(v);
        }),
        Val::List(vs) => vs.iter_mut().for_each(hyphenate_val),
        _ => {}
    }
}

fn hyphenate_ty(t: &mut gen::Ty) {
    match &mut t.kind {
        TyKind::Enumerated(e) => {
            e.root.iter_mut().for_each(|x| x.0 = hy(&x.0));
            if let Some(x) = e.ext.as_mut() {
                x.iter_mut().for_each(|x| x.0 = hy(&x.0));
            }
        }
        TyKind::Sequence(s) | TyKind::Set(s) | TyKind::Choice(s) => {
            let mut each = |c: &mut Comp| {
                c.name = hy(&c.name);
                hyphenate_ty(&mut c.ty);
                if let Optionality::Default(v) = &mut c.opt {
                    hyphenate_val(v);
                }
            };
            s.root.iter_mut().for_each(&mut each);
            s.root2.iter_mut().for_each(&mut each);
            if let Some(adds) = s.ext.as_mut() {
                for a in adds {
                    match a {
                        Addition::Comp(c) => each(c),
                        Addition::Group { comps, .. } => comps.iter_mut().for_each(&mut each),
                    }
                }
            }
        }
        TyKind::SeqOf(e) | TyKind::SetOf(e) => hyphenate_ty(e),
        _ => {}
    }
}

fn hyphenate(set: &mut ModuleSet) {
    for m in set.modules.iter_mut() {
        for a in m.assigns.iter_mut() {
            match a {
                Assign::Type { ty, .. } => hyphenate_ty(ty),
                Assign::Value { ty, val, .. } => {
                    hyphenate_ty(ty);
                    hyphenate_val(val);
                }
                _ => {}
            }
        }
    }
}

fn check_set(seed: u64, idx: u64, rep: &mut Report) {
    let o = GenOpts { modules: (1, 3), assigns: (1, 9), max_depth: 3, max_comps: 6, qualified_refs: true, ..GenOpts::default() };
    let mut set = gen::random_set(seed, 1800, idx, &o);
    if idx % 4 == 3 {
        // hostile spelling: every enumeral, component and alternative name gets a hyphen (the JER shape keeps the original spelling in
        // enum values and mangles identifiers)
        hyphenate(&mut set);
    }
    let origin = format!("G(seed={seed},salt=1800,idx={idx})");
    let run = comp::ts(&set.render_each());
    rep.evaluations += 1;
    rep.count(&format!("ts_compilations[{}]", run.out.status()), 1);
    let comp::Outcome::Ok { generated, warnings } = &run.out else { return };
    let warned = warnings.join("\n");
    let nss = match parse(generated) {
        Ok(n) => n,
        Err(e) => {
            // classify by what the input contains that is known to break the output
            let has_quote_value = set.modules.iter().any(|m| m.assigns.iter().any(|a| matches!(a, Assign::Value { val: Val::Str(s), .. } if s.contains('"') || s.contains('\\'))));
            rep.violations.push(Violation {
                sig: format!("c18|output-not-well-formed|{}", if has_quote_value { "string-value-with-quote-or-backslash" } else { "other" }),
                what: format!("TypeScript output is not well-formed ({e}) [{origin}]"),
                replay: json!({"origin": origin, "error": e, "output_head": one_line(generated, 600)}),
            });
            return;
        }
    };
    rep.nontrivial.insert(hash_of(&set));
    rep.count("namespaces_parsed", nss.len() as u64);
    let all_ns: BTreeMap<String, &Namespace> = nss.iter().map(|n| (n.name.clone(), n)).collect();
    let mut found: Vec<(String, String)> = vec![];
    let mut counters: BTreeMap<&'static str, u64> = BTreeMap::new();
    for m in &set.modules {
        let Some(ns) = all_ns.get(&mangle(&m.name)) else {
            if m.assigns.iter().any(|a| matches!(a, Assign::Type { .. })) {
                found.push(("namespace-missing".into(), format!("no namespace for module {}", m.name)));
            }
            continue;
        };
        // name resolution
        let declared: BTreeSet<String> = ns.decls.iter().map(|d| d.0.clone()).chain(ns.imports.iter().map(|i| i.0.clone())).collect();
        for (alias, im, sym) in &ns.imports {
            *counters.entry("imports_checked").or_insert(0) += 1;
            match all_ns.get(im) {
                Some(target) if target.decls.iter().any(|d| &d.0 == sym) => {}
                Some(_) => {
                    // a symbol that the other module warned about may legitimately be absent
                    if !warned.contains(sym.as_str()) {
                        found.push(("import-of-undeclared-symbol".into(), format!("{}: import {alias} = {im}.{sym} but {im} declares no {sym}", m.name)));
                    }
                }
                None => found.push(("import-from-unknown-namespace".into(), format!("{}: import from {im}", m.name))),
            }
        }
        for (dn, d) in &ns.decls {
            if let Decl::Type(t) = d {
                let mut used = BTreeSet::new();
                names_in(t, &mut used);
                for u in used {
                    *counters.entry("type_names_resolved").or_insert(0) += 1;
                    let head = u.split('.').next().unwrap_or(&u).to_string();
                    let ok = BUILTINS.contains(&u.as_str()) || declared.contains(&u) || (u.contains('.') && all_ns.get(&head).is_some_and(|t| t.decls.iter().any(|x| Some(x.0.as_str()) == u.split('.').nth(1))));
                    if !ok && !warned.contains(u.as_str()) {
                        found.push(("unresolved-type-name".into(), format!("{}.{dn} mentions `{u}`, which is neither declared nor imported", m.name)));
                    }
                }
            }
        }
        for a in &m.assigns {
            let Assign::Type { name, ty } = a else { continue };
            if warned.contains(&format!("{name}:")) || warned.contains(&format!(" {name} ")) {
                continue;
            }
            let n = mangle(name);
            let ds: Vec<&Decl> = ns.decls.iter().filter(|d| d.0 == n).map(|d| &d.1).collect();
            *counters.entry("type_assignments_checked").or_insert(0) += 1;
            if ds.len() != 1 {
                found.push((if ds.is_empty() { "declaration-missing" } else { "declaration-duplicated" }.into(), format!("{}.{name}: {} exported declarations", m.name, ds.len())));
                continue;
            }
            match (&ty.kind, ds[0]) {
                (TyKind::Enumerated(e), Decl::Enum(ms)) => {
                    *counters.entry("enums_compared").or_insert(0) += 1;
                    let want: Vec<String> = e.root.iter().chain(e.ext.iter().flatten()).map(|x| x.0.clone()).collect();
                    let vals: Vec<String> = ms.iter().map(|x| x.1.clone()).collect();
                    if vals != want {
                        found.push(("enum-member-values".into(), format!("{}.{name}: enum values {vals:?}, enumerals {want:?}", m.name)));
                    }
                    let ids: Vec<String> = ms.iter().map(|x| x.0.clone()).collect();
                    if ids != want.iter().map(|w| mangle(w)).collect::<Vec<_>>() {
                        found.push(("enum-member-names".into(), format!("{}.{name}: enum member names {ids:?} for enumerals {want:?}", m.name)));
                    }
                }
                (TyKind::Enumerated(_), other) => found.push(("enum-kind".into(), format!("{}.{name}: ENUMERATED declared as {other:?}", m.name))),
                (_, Decl::Type(t)) => compare(ty, t, m.ext_implied, &format!("{}.{name}", m.name), &mut found, &mut counters),
                (_, other) => found.push(("declaration-kind".into(), format!("{}.{name}: declared as {other:?}", m.name))),
            }
        }
    }
    for (k, v) in counters {
        rep.count(k, v);
    }
    if rep.samples.len() < 3 && idx % 89 == 4 {
        rep.sample(json!({"origin": origin, "asn1": one_line(&set.render().text, 300), "typescript_head": one_line(generated, 300)}));
    }
    let mut seen = BTreeSet::new();
    for (kind, detail) in found {
        if !seen.insert(kind.clone()) {
            continue;
        }
        rep.violations.push(Violation { sig: format!("c18|{kind}"), what: format!("{detail} [{origin}]"), replay: json!({"origin": origin, "asn1": set.render().text}) });
    }
}

/// Template inputs shared with C12 / C01 (imported names of every spelling style, reference cycles through several
/// modules): every type name a declaration mentions must be declared in its namespace, imported, or namespace-qualified.
fn check_templates(seed: u64, n: u64, rep: &mut Report) {
    for i in 0..n {
        let srcs = crate::c12::template_sources(seed, i);
        let run = comp::ts(&srcs);
        rep.evaluations += 1;
        let comp::Outcome::Ok { generated, warnings } = &run.out else {
            rep.count("template_ts_compilations[not Ok]", 1);
            continue;
        };
        if !warnings.is_empty() {
            rep.count("template_ts_compilations[warnings]", 1);
            continue;
        }
        let origin = format!("templates(seed={seed},idx={i})");
        let nss = match parse(generated) {
            Ok(n) => n,
            Err(e) => {
                rep.violations.push(Violation { sig: "c18|output-not-well-formed|other".into(), what: format!("TypeScript output is not well-formed ({e}) [{origin}]"), replay: json!({"origin": origin, "sources": srcs}) });
                continue;
            }
        };
        rep.count("template_cases_judged", 1);
        rep.nontrivial.insert(hash_str(&srcs.join("|")));
        let all_ns: BTreeMap<String, &Namespace> = nss.iter().map(|n| (n.name.clone(), n)).collect();
        for ns in &nss {
            let declared: BTreeSet<String> = ns.decls.iter().map(|d| d.0.clone()).chain(ns.imports.iter().map(|i| i.0.clone())).collect();
            for (alias, im, sym) in &ns.imports {
                rep.count("imports_checked", 1);
                if !all_ns.get(im).is_some_and(|t| t.decls.iter().any(|d| &d.0 == sym)) {
                    // spec-side fact: the imported symbol is a parameterized type (only its instances are declared)
                    let parameterized = srcs.iter().flat_map(|s| s.lines()).any(|l| l.trim_start().split_once('{').is_some_and(|(n, rest)| n.trim() == sym.as_str() && rest.split_once('}').is_some_and(|(_, a)| a.trim_start().starts_with("::="))));
                    rep.violations.push(Violation { sig: format!("c18|import-of-undeclared-symbol{}", if parameterized { "|parameterized-type" } else { "" }), what: format!("{}: import {alias} = {im}.{sym} names nothing that {im} declares [{origin}]", ns.name), replay: json!({"origin": origin, "sources": srcs}) });
                }
            }
            for (dn, d) in &ns.decls {
                if let Decl::Type(t) = d {
                    let mut used = BTreeSet::new();
                    names_in(t, &mut used);
                    for u in used {
                        rep.count("type_names_resolved", 1);
                        let head = u.split('.').next().unwrap_or(&u).to_string();
                        let ok = BUILTINS.contains(&u.as_str()) || declared.contains(&u) || (u.contains('.') && all_ns.get(&head).is_some_and(|t| t.decls.iter().any(|x| Some(x.0.as_str()) == u.split('.').nth(1))));
                        if !ok {
                            let style = if !u.chars().any(|c| c.is_ascii_lowercase()) { if u.chars().any(|c| c.is_ascii_digit()) { "capitals+digits" } else { "capitals" } } else { "mixed-case" };
                            rep.violations.push(Violation { sig: format!("c18|unresolved-type-name|style={style}"), what: format!("{}.{dn} mentions `{u}`, which is neither declared nor imported [{origin}]", ns.name), replay: json!({"origin": origin, "sources": srcs}) });
                        }
                    }
                }
            }
        }
    }
}

/// Notation the grammar generator does not spell: comments between enumerals / components / alternatives (line comments, block
/// comments on one line and over several lines, with brackets inside), empty SEQUENCE OF / SET OF values (alone, nested, as
/// DEFAULT), extension addition groups with and without version number. Enumerated over the product below; every output must
/// be well-formed (brackets balanced outside strings and comments) and declare what the module defines.
fn hand_cases(rep: &mut Report) {
    let comments: [(&str, &str); 6] = [
        ("line", "-- note\n"),
        ("line-with-brace", "-- note {\n"),
        ("block", "/* note */"),
        ("block-with-bracket", "/* note [ */"),
        ("block-multi-line", "/* multi\nline */"),
        ("block-multi-line-with-brace", "/* multi\nline { ( */"),
    ];
    let mut cases: Vec<(String, String, String)> = vec![]; // (family, key, source)
    for (cn, c) in comments {
        for pos in 0..3 {
            // the comment behind the first / a middle / the last enumeral (before or after the comma)
            let at = |i: usize| if i == pos { format!(" {c} ") } else { " ".to_string() };
            cases.push(("comment-after-enumeral".into(), format!("{cn}|pos={pos}"), format!("Mh DEFINITIONS AUTOMATIC TAGS ::= BEGIN\nEh ::= ENUMERATED {{ ea,{}eb{},{}ec{}}}\nEx ::= ENUMERATED {{ xa{}, ..., xb }}\nEND\n", at(0), at(1), at(9), at(2), at(0))));
            cases.push(("comment-after-component".into(), format!("{cn}|pos={pos}"), format!("Mh DEFINITIONS AUTOMATIC TAGS ::= BEGIN\nSh ::= SEQUENCE {{ sa INTEGER,{}sb BOOLEAN OPTIONAL{},{}sc NULL{}}}\nCh ::= CHOICE {{ ca NULL,{}cb INTEGER{}}}\nEND\n", at(0), at(1), at(9), at(2), at(0), at(2))));
        }
    }
    for (k, elem, val) in [("sequence-of", "SEQUENCE OF BOOLEAN", "{}"), ("set-of", "SET OF INTEGER", "{}"), ("nested", "SEQUENCE OF SEQUENCE OF INTEGER", "{ {}, { 1 }, {} }"), ("one-element", "SEQUENCE OF BOOLEAN", "{ TRUE }")] {
        cases.push(("empty-list-value".into(), format!("{k}|assignment"), format!("Mh DEFINITIONS AUTOMATIC TAGS ::= BEGIN\nLh ::= {elem}\nvlh Lh ::= {val}\nEND\n")));
        cases.push(("empty-list-value".into(), format!("{k}|default"), format!("Mh DEFINITIONS AUTOMATIC TAGS ::= BEGIN\nLh ::= {elem}\nSh ::= SEQUENCE {{ l Lh DEFAULT {val}, m INTEGER }}\nEND\n")));
    }
    for (k, body) in [
        ("group", "a INTEGER, ..., [[ b INTEGER, c BOOLEAN OPTIONAL ]]"),
        ("group-with-version", "a INTEGER, ..., [[ 2: b INTEGER, c BOOLEAN OPTIONAL ]]"),
        ("two-groups-and-second-root", "a INTEGER, ..., [[ b INTEGER ]], d NULL OPTIONAL, [[ 3: e BOOLEAN, f INTEGER DEFAULT 1 ]], ..., z BOOLEAN"),
    ] {
        for kw in ["SEQUENCE", "SET"] {
            cases.push(("extension-group".into(), format!("{k}|{kw}"), format!("Mh DEFINITIONS AUTOMATIC TAGS ::= BEGIN\nGh ::= {kw} {{ {body} }}\nEND\n")));
        }
    }
    // a module-qualified reference to a type of a module this one has no IMPORTS clause for
    cases.push(("qualified-reference-without-imports".into(), "component".into(), "Mh DEFINITIONS AUTOMATIC TAGS ::= BEGIN\nQh ::= SEQUENCE { fq1 Mq2.Tq20 }\nEND\nMq2 DEFINITIONS AUTOMATIC TAGS ::= BEGIN\nTq20 ::= INTEGER\nEND\n".into()));
    for (family, key, src) in cases {
        let run = comp::ts(&[src.clone()]);
        rep.evaluations += 1;
        let comp::Outcome::Ok { generated, warnings } = &run.out else {
            rep.count(&format!("hand_cases[{family}][not Ok]"), 1);
            continue;
        };
        if !warnings.is_empty() {
            rep.count(&format!("hand_cases[{family}][warnings]"), 1);
            continue;
        }
        rep.count(&format!("hand_cases_judged[{family}]"), 1);
        rep.nontrivial.insert(hash_str(&src));
        let origin = format!("hand({family}|{key})");
        let nss = match parse(generated) {
            Ok(n) => n,
            Err(e) => {
                let k0 = key.split('|').next().unwrap_or("");
                rep.violations.push(Violation { sig: format!("c18|output-not-well-formed|{family}|{k0}"), what: format!("TypeScript output is not well-formed ({e}) [{origin}]: {}", one_line(generated, 300)), replay: json!({"origin": origin, "sources": [src]}) });
                continue;
            }
        };
        let Some(ns) = nss.first() else { continue };
        let find = |n: &str| ns.decls.iter().find(|d| d.0 == n).map(|d| &d.1);
        let mut bad: Vec<String> = vec![];
        match family.as_str() {
            "comment-after-enumeral" => {
                for (n, want) in [("Eh", vec!["ea", "eb", "ec"]), ("Ex", vec!["xa", "xb"])] {
                    match find(n) {
                        Some(Decl::Enum(ms)) if ms.iter().map(|m| m.1.as_str()).collect::<Vec<_>>() == want => {}
                        other => bad.push(format!("{n}: expected enum members {want:?}, found {other:?}")),
                    }
                }
            }
            "comment-after-component" => {
                match find("Sh") {
                    Some(Decl::Type(Ty::Obj { members, .. })) if members.iter().map(|m| (m.0.as_str(), m.1)).collect::<Vec<_>>() == [("sa", false), ("sb", true), ("sc", false)] => {}
                    other => bad.push(format!("Sh: expected members sa, sb?, sc, found {other:?}")),
                }
                match find("Ch") {
                    Some(Decl::Type(Ty::Union(v))) if v.len() == 2 => {}
                    other => bad.push(format!("Ch: expected a union of two single-key objects, found {other:?}")),
                }
            }
            "qualified-reference-without-imports" => {
                // every type name mentioned is declared in the namespace, imported, or namespace-qualified and declared there
                if let Some(Decl::Type(t)) = find("Qh") {
                    let mut used = BTreeSet::new();
                    names_in(t, &mut used);
                    let declared: BTreeSet<String> = ns.decls.iter().map(|d| d.0.clone()).chain(ns.imports.iter().map(|i| i.0.clone())).collect();
                    for u in used {
                        let ok = BUILTINS.contains(&u.as_str()) || declared.contains(&u) || (u.contains('.') && nss.iter().any(|o| Some(o.name.as_str()) == u.split('.').next() && o.decls.iter().any(|x| Some(x.0.as_str()) == u.split('.').nth(1))));
                        if !ok {
                            rep.violations.push(Violation { sig: "c18|unresolved-type-name|module-qualified-reference-without-imports".into(), what: format!("Mh.Qh mentions `{u}`, which is neither declared in the namespace, nor imported, nor qualified [{origin}]"), replay: json!({"origin": origin, "sources": [src.clone()]}) });
                        }
                    }
                } else {
                    bad.push(format!("Qh: expected a type declaration, found {:?}", find("Qh")));
                }
            }
            "empty-list-value" => {
                if !matches!(find("Lh"), Some(Decl::Type(Ty::Arr(_)))) {
                    bad.push(format!("Lh: expected an array type, found {:?}", find("Lh")));
                }
                if key.ends_with("assignment") && !matches!(find("vlh"), Some(Decl::Const)) {
                    bad.push(format!("vlh: expected an exported constant, found {:?}", find("vlh")));
                }
            }
            _ => {
                let want: Vec<(&str, bool)> = match key.split('|').next().unwrap_or("") {
                    "two-groups-and-second-root" => vec![("a", false), ("b", false), ("d", true), ("e", false), ("f", true), ("z", false)],
                    _ => vec![("a", false), ("b", false), ("c", true)],
                };
                match find("Gh") {
                    Some(Decl::Type(Ty::Obj { members, index_sig })) if *index_sig && members.iter().map(|m| (m.0.as_str(), m.1)).collect::<Vec<_>>() == want => {}
                    Some(Decl::Type(Ty::Obj { members, .. })) if members.iter().any(|m| m.0.starts_with("ext_group_")) => {
                        rep.violations.push(Violation { sig: "c18|members|extension-group-as-nested-object".into(), what: format!("Gh: the extension addition group shows up as a nested object member (`{}`) instead of its components being members of the object [{origin}]", members.iter().map(|m| m.0.as_str()).collect::<Vec<_>>().join(", ")), replay: json!({"origin": origin, "sources": [src.clone()]}) });
                    }
                    other => bad.push(format!("Gh: expected members {want:?} and an index signature, found {other:?}")),
                }
            }
        }
        for b in bad {
            rep.violations.push(Violation { sig: format!("c18|hand-case-shape|{family}|{}", key.split('|').next().unwrap_or("")), what: format!("{b} [{origin}]"), replay: json!({"origin": origin, "sources": [src.clone()]}) });
        }
    }
}

/// JER object keys are the ASN.1 identifiers themselves (X.697): component and alternative names that are reserved words of
/// ECMAScript / TypeScript are legal property names and must come out unchanged. Exhaustive over 40 such words x {SEQUENCE
/// component, SET component, CHOICE alternative, component of a nested anonymous SEQUENCE}.
fn reserved_word_keys(rep: &mut Report) {
    const WORDS: [&str; 40] = [
        "break", "case", "catch", "class", "const", "continue", "debugger", "default", "delete", "do", "else", "enum", "export", "extends", "false", "finally", "for", "function", "if",
        "import", "in", "instanceof", "new", "null", "return", "super", "switch", "this", "throw", "true", "try", "typeof", "var", "void", "while", "with", "let", "static", "yield", "type",
    ];
    for chunk in WORDS.chunks(8) {
        let comps: Vec<String> = chunk.iter().enumerate().map(|(i, w)| format!("{w} {}", ["INTEGER", "BOOLEAN OPTIONAL", "NULL"][i % 3])).collect();
        let alts: Vec<String> = chunk.iter().enumerate().map(|(i, w)| format!("{w} {}", ["NULL", "INTEGER", "BOOLEAN"][i % 3])).collect();
        let src = format!(
            "Mkw DEFINITIONS AUTOMATIC TAGS ::= BEGIN\nKwSeq ::= SEQUENCE {{ {c} }}\nKwSet ::= SET {{ {c} }}\nKwCh ::= CHOICE {{ {a} }}\nKwNest ::= SEQUENCE {{ outer SEQUENCE {{ {c} }} }}\nEND\n",
            c = comps.join(", "),
            a = alts.join(", ")
        );
        let run = comp::ts(&[src.clone()]);
        rep.evaluations += 1;
        let comp::Outcome::Ok { generated, warnings } = &run.out else {
            rep.count("reserved_word_cases[not Ok]", 1);
            continue;
        };
        if !warnings.is_empty() {
            rep.count("reserved_word_cases[warnings]", 1);
            continue;
        }
        let origin = format!("reserved-words({})", chunk.join(","));
        let nss = match parse(generated) {
            Ok(n) => n,
            Err(e) => {
                rep.violations.push(Violation { sig: "c18|output-not-well-formed|reserved-word-names".into(), what: format!("TypeScript output is not well-formed ({e}) [{origin}]"), replay: json!({"origin": origin, "sources": [src]}) });
                continue;
            }
        };
        rep.count("reserved_word_cases_judged", 1);
        rep.nontrivial.insert(hash_str(&src));
        let Some(ns) = nss.first() else { continue };
        fn keys(t: &Ty, out: &mut Vec<String>) {
            match t {
                Ty::Obj { members, .. } => {
                    for (k, _, inner) in members {
                        out.push(k.clone());
                        keys(inner, out);
                    }
                }
                Ty::Arr(i) => keys(i, out),
                Ty::Union(v) => v.iter().for_each(|x| keys(x, out)),
                _ => {}
            }
        }
        // the nested anonymous SEQUENCE may be hoisted into a declaration of its own: collect keys over all declarations
        let mut all_keys: Vec<String> = vec![];
        for (_, d) in &ns.decls {
            if let Decl::Type(t) = d {
                keys(t, &mut all_keys);
            }
        }
        for w in chunk {
            rep.count("reserved_word_keys_checked", 1);
            let n = all_keys.iter().filter(|k| k.as_str() == *w).count();
            // SEQUENCE, SET, CHOICE and the nested SEQUENCE each carry the key once
            if n < 4 {
                let near: Vec<&String> = all_keys.iter().filter(|k| k.contains(*w) && k.as_str() != *w).collect();
                rep.violations.push(Violation {
                    sig: "c18|object-key-differs-from-identifier|reserved-word".into(),
                    what: format!("component / alternative `{w}` must appear as the key `{w}` in 4 object types, found {n} times (similar keys: {near:?}) [{origin}]"),
                    replay: json!({"origin": origin, "sources": [src.clone()]}),
                });
            }
        }
    }
}

pub fn run(ctx: &Ctx) -> Report {
    let mut rep = Report::new(
        "exploration",
        "grammar-G module sets (same generator as C01/C02: nested anonymous types to depth 3, extension markers and groups, imports, module-qualified references, value assignments incl. strings with quotes) compiled with the TypeScript backend, one source per module. The output is read by a structural TypeScript declaration parser (namespaces, import aliases, export type / enum / const, object types with optional members and index signatures, unions, arrays, literal types; bracket balance outside strings and comments). Oracle per type assignment: exactly one exported declaration of the hyphen-mangled name in the module's namespace; SEQUENCE/SET = object type with the components in order, `?` iff OPTIONAL or DEFAULT, index signature iff extension marker or EXTENSIBILITY IMPLIED; SEQUENCE OF / SET OF = array; CHOICE = union of single-key objects keyed by the alternatives in order; top-level ENUMERATED = enum whose members have the original enumeral names as string values; every mentioned type name is a TS builtin, declared in the namespace, imported, or namespace-qualified and declared there; imports name existing declarations. Non-trivial = output parsed and judged; distinct by model hash.",
    );
    rep.must_observe = vec!["namespaces_parsed".into(), "members_compared".into(), "type_names_resolved".into(), "enums_compared".into(), "index_signatures_compared".into()];
    rep.assumptions = vec!["the structural TypeScript parser in c18.rs (no TypeScript compiler in the sandbox)".into()];
    if let Some(path) = &ctx.replay {
        let doc: serde_json::Value = serde_json::from_str(&std::fs::read_to_string(path).expect("replay")).expect("json");
        let origin = doc["case"]["origin"].as_str().unwrap_or("");
        let nums: Vec<u64> = origin.split(|c: char| !c.is_ascii_digit()).filter(|s| !s.is_empty()).filter_map(|s| s.parse().ok()).collect();
        if nums.len() >= 3 {
            check_set(nums[0], nums[2], &mut rep);
        }
        return rep;
    }
    let n = ctx.pick(20_000u64, 300_000);
    let seed = ctx.seed;
    let acc = Acc::new(rep);
    par_for(n, |i| {
        let mut local = Report::default();
        check_set(seed, i, &mut local);
        acc.with(|r| r.merge(local));
    });
    let mut rep = acc.into_inner();
    check_templates(seed, ctx.pick(300u64, 4000), &mut rep);
    reserved_word_keys(&mut rep);
    hand_cases(&mut rep);
    rep
}
