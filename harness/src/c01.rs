//! C01 — warning-free compilations type-check against rasn (O5: the real rustc on per-case files).
use crate::comp::{self, Cfg};
use crate::core::*;
use crate::gen::{self, GenOpts, ModuleSet, Tagging};
use quote::ToTokens;
use serde_json::{json, Value};
use std::collections::{BTreeMap, BTreeSet};
use std::path::PathBuf;
use std::process::{Command, Stdio};

pub fn ws_dir() -> PathBuf {
    PathBuf::from(format!("{VERIF_DIR}/gen-ws/c01"))
}

/// (re)creates the batch crate skeleton; dependencies come from the offline registry with /repo's lock file
pub fn prepare_ws() -> Result<(), String> {
    prepare_ws_at(&ws_dir())
}

/// workspace for witness minimisation (slot k); seeded with the dependency artefacts of the batch workspace
fn slot_ws(k: usize) -> PathBuf {
    let d = PathBuf::from(format!("{VERIF_DIR}/gen-ws/c01-slot{k}"));
    if !d.join("target").exists() && ws_dir().join("target").exists() {
        let _ = std::fs::create_dir_all(&d);
        let _ = Command::new("cp").arg("-r").arg(ws_dir().join("target")).arg(d.join("target")).status();
    }
    d
}

fn prepare_ws_at(d: &PathBuf) -> Result<(), String> {
    std::fs::create_dir_all(d.join("src")).map_err(|e| e.to_string())?;
    std::fs::write(
        d.join("Cargo.toml"),
        "[package]\nname = \"c01-batch\"\nversion = \"0.0.0\"\nedition = \"2021\"\n\n[workspace]\n\n[lib]\npath = \"src/lib.rs\"\n\n[dependencies]\nrasn = \"0.27\"\nlazy_static = \"1.5\"\n\n[profile.dev]\ndebug = 0\nincremental = false\n",
    )
    .map_err(|e| e.to_string())?;
    let _ = std::fs::copy(format!("{REPO_DIR}/Cargo.lock"), d.join("Cargo.lock"));
    std::fs::create_dir_all(d.join(".cargo")).map_err(|e| e.to_string())?;
    std::fs::write(d.join(".cargo/config.toml"), "[net]\noffline = true\n").map_err(|e| e.to_string())?;
    Ok(())
}

/// builds the dependency graph of the batch workspace (an empty case list type-checks trivially)
pub fn warm() -> Result<(), String> {
    cargo_check(&[]).map(|_| ())
}

/// Binary variant of the batch crate (used by the DER-level monitor): type-checks `cases` as modules of a binary crate,
/// drops the cases that draw errors (re-checking until clean), then builds and runs the binary whose `main` (and helper
/// functions) `body(live cases)` provides. Returns (cases that did not type-check, stdout of the run).
pub fn check_and_run(d: &PathBuf, cases: &[(usize, String)], body: &dyn Fn(&[usize]) -> String) -> Result<(Vec<usize>, String), String> {
    prepare_ws_at(d)?;
    std::fs::write(
        d.join("Cargo.toml"),
        "[package]\nname = \"der-batch\"\nversion = \"0.0.0\"\nedition = \"2021\"\n\n[workspace]\n\n[[bin]]\nname = \"run\"\npath = \"src/main.rs\"\n\n[dependencies]\nrasn = \"0.27\"\nlazy_static = \"1.5\"\n\n[profile.dev]\ndebug = 0\nincremental = false\nopt-level = 0\n",
    )
    .map_err(|e| e.to_string())?;
    if let Ok(rd) = std::fs::read_dir(d.join("src")) {
        for e in rd.flatten() {
            let _ = std::fs::remove_file(e.path());
        }
    }
    for (n, text) in cases {
        let (laid, _) = relayout(text).ok_or_else(|| format!("case {n} does not parse"))?;
        std::fs::write(d.join("src").join(format!("case_{n}.rs")), laid).map_err(|e| e.to_string())?;
    }
    let write_main = |live: &[usize], with_body: bool| -> Result<(), String> {
        let mut m = String::from("#![allow(warnings)]\n#![recursion_limit = \"512\"]\nextern crate alloc;\n");
        for n in live {
            m.push_str(&format!("mod case_{n};\n"));
        }
        if with_body {
            m.push_str(&body(live));
        } else {
            m.push_str("fn main() {}\n");
        }
        std::fs::write(d.join("src/main.rs"), m).map_err(|e| e.to_string())
    };
    let cargo = |args: &[&str]| -> Result<std::process::Output, String> {
        Command::new("cargo")
            .args(args)
            .current_dir(d)
            .env("CARGO_NET_OFFLINE", "true")
            .env("CARGO_TARGET_DIR", d.join("target"))
            .stdin(Stdio::null())
            .stdout(Stdio::piped())
            .stderr(Stdio::piped())
            .output()
            .map_err(|e| format!("cannot run cargo: {e}"))
    };
    let mut live: Vec<usize> = cases.iter().map(|c| c.0).collect();
    let mut failing = vec![];
    for _round in 0..6 {
        write_main(&live, false)?;
        let out = cargo(&["check", "--offline", "--message-format=json", "--quiet"])?;
        let mut bad = BTreeSet::new();
        let mut unattributed = 0;
        for line in String::from_utf8_lossy(&out.stdout).lines() {
            let Ok(v) = serde_json::from_str::<Value>(line) else { continue };
            if v["reason"] != "compiler-message" || v["message"]["level"] != "error" {
                continue;
            }
            let m = &v["message"];
            if m["message"].as_str().unwrap_or("").starts_with("aborting due to") {
                continue;
            }
            let mut hit = None;
            for s in m["spans"].as_array().into_iter().flatten() {
                let mut cur = s;
                for _ in 0..8 {
                    let f = cur["file_name"].as_str().unwrap_or("");
                    if let Some(n) = f.split("case_").nth(1).and_then(|x| x.trim_end_matches(".rs").parse::<usize>().ok()) {
                        hit = Some(n);
                        break;
                    }
                    if cur["expansion"].is_object() {
                        cur = &cur["expansion"]["span"];
                    } else {
                        break;
                    }
                }
                if hit.is_some() {
                    break;
                }
            }
            match hit {
                Some(n) => {
                    bad.insert(n);
                }
                None => unattributed += 1,
            }
        }
        if bad.is_empty() {
            if !out.status.success() {
                return Err(format!("cargo check fails without attributable diagnostics ({unattributed} unattributed): {}", one_line(&String::from_utf8_lossy(&out.stderr), 300)));
            }
            break;
        }
        live.retain(|n| !bad.contains(n));
        failing.extend(bad);
    }
    write_main(&live, true)?;
    let out = cargo(&["run", "--offline", "--quiet"])?;
    if !out.status.success() {
        return Err(format!("runner failed: {}", one_line(&String::from_utf8_lossy(&out.stderr), 400)));
    }
    Ok((failing, String::from_utf8_lossy(&out.stdout).to_string()))
}

/// one rustc error diagnostic, attributed to the generated item it points into
#[derive(Clone, Debug)]
pub struct Diag {
    pub code: String,
    pub msg: String,
    /// name of the generated Rust item owning the primary span (None: module level / not attributable)
    pub item: Option<String>,
    /// structural features of that item the known findings are keyed on
    pub features: Vec<&'static str>,
}

/// The generated text is one line. It is re-laid out with one item per line (same token sequence, only white space
/// differs) so that a diagnostic's line number identifies the item it belongs to.
fn relayout(text: &str) -> Option<(String, Vec<(String, String)>)> {
    let file = syn::parse_file(text).ok()?;
    let mut out = String::new();
    let mut lines: Vec<(String, String)> = vec![]; // per output line: (item name, item tokens)
    let mut push = |out: &mut String, s: String, name: String| {
        out.push_str(&s);
        out.push('\n');
        lines.push((name, s));
    };
    for a in &file.attrs {
        push(&mut out, a.to_token_stream().to_string(), String::new());
    }
    for it in &file.items {
        match it {
            syn::Item::Mod(m) if m.content.is_some() => {
                let mut head = String::new();
                for a in &m.attrs {
                    head.push_str(&a.to_token_stream().to_string());
                    head.push(' ');
                }
                head.push_str(&format!("{} mod {} {{", m.vis.to_token_stream(), m.ident));
                push(&mut out, head, String::new());
                for inner in &m.content.as_ref().unwrap().1 {
                    push(&mut out, inner.to_token_stream().to_string(), item_name(inner));
                }
                push(&mut out, "}".into(), String::new());
            }
            other => push(&mut out, other.to_token_stream().to_string(), item_name(other)),
        }
    }
    Some((out, lines))
}

fn item_name(it: &syn::Item) -> String {
    match it {
        syn::Item::Struct(s) => s.ident.to_string(),
        syn::Item::Enum(s) => s.ident.to_string(),
        syn::Item::Fn(s) => s.sig.ident.to_string(),
        syn::Item::Const(s) => s.ident.to_string(),
        syn::Item::Static(s) => s.ident.to_string(),
        syn::Item::Impl(s) => format!("impl {}", s.self_ty.to_token_stream().to_string().replace(' ', "")),
        syn::Item::Macro(m) => {
            let t = m.mac.tokens.to_string();
            t.split_whitespace().skip_while(|w| *w != "ref").nth(1).unwrap_or("macro").to_string()
        }
        syn::Item::Use(_) => "use".into(),
        _ => "other".into(),
    }
}

/// Structural features of one generated item (token text), the second half of a known finding's key. Each names a
/// construct the emitted bindings use; none looks at rustc's verdict.
pub fn item_features(tokens: &str) -> Vec<&'static str> {
    let t: String = tokens.chars().filter(|c| !c.is_whitespace()).collect();
    let mut f = vec![];
    let (head, body) = match t.find("pubstruct").or_else(|| t.find("pubenum")) {
        Some(p) => (&t[..p], &t[p..]),
        None => ("", t.as_str()),
    };
    let is_type = !head.is_empty() || t.starts_with("pubstruct") || t.starts_with("pubenum");
    if is_type {
        // field / variant attributes
        for attr in body.split("#[rasn(").skip(1) {
            let attr = attr.split(")]").next().unwrap_or("");
            let ext_addition = attr.split(',').any(|a| a == "extension_addition");
            if ext_addition && attr.contains("tag(explicit(") {
                f.push("explicitly-tagged-extension-addition");
            }
            if ext_addition && attr.contains("default=") && (attr.contains("value(") || attr.contains("size(") || attr.contains("from(")) {
                f.push("constrained-extension-addition-with-default");
            }
        }
        let head_args: Vec<&str> = head.split("#[rasn(").skip(1).flat_map(|a| a.split(")]").next().unwrap_or("").split(',')).collect();
        if head.contains("tag(explicit(") && !head_args.contains(&"delegate") {
            f.push("explicitly-tagged-constructed-type");
        }
        if head_args.contains(&"set") {
            if body.ends_with("{}") {
                f.push("set-without-fields");
            }
            if body.contains("value(") || body.contains("size(") || body.contains("from(") {
                f.push("set-with-constrained-field");
            }
        }
        // rasn models every `[[ ]]` group as one SEQUENCE-typed optional field: without automatic tagging it collides with
        // a second group or with any other untagged SEQUENCE / SEQUENCE OF typed component
        if body.contains("extension_addition_group") && !head_args.contains(&"automatic_tags") {
            f.push("extension-group-without-automatic-tags");
        }
    } else {
        let words: Vec<&str> = tokens.split(|c: char| !(c.is_alphanumeric() || c == '_')).filter(|w| !w.is_empty()).collect();
        let is_value = words.first().is_some_and(|w| *w == "pub" || *w == "lazy_static") && (words.contains(&"static") || words.contains(&"const"));
        let is_fn = words.first() == Some(&"fn");
        if t.contains("fndecode<D:Decoder>") {
            f.push("open-type-decode-helper");
        }
        if is_value || is_fn {
            if t.contains("vec![") {
                f.push("array-valued-value");
            }
            if t.contains("::new(") && !t.contains("LazyLock::new(||BitString::new())") && t.replace("LazyLock::new(", "").replace("BitString::new(", "").contains("::new(") {
                f.push("sequence-valued-value");
            }
            if words.iter().any(|w| matches!(*w, "ENUMERATED" | "INTEGER" | "CHOICE" | "SEQUENCE" | "SET" | "BOOLEAN" | "NULL" | "BIT_STRING" | "OCTET_STRING" | "SEQUENCE_OF" | "SET_OF")) {
                f.push("asn1-keyword-used-as-rust-path");
            }
            // a reference to another generated value (consts are upper-cased value names) used as (part of) the value
            let own = words.iter().position(|w| *w == "static" || *w == "const" || *w == "fn").and_then(|p| words.get(p + 1).or(words.get(p))).copied().unwrap_or("");
            let own = if own == "ref" { words.iter().skip_while(|w| **w != "ref").nth(1).copied().unwrap_or("") } else { own };
            // generated values are named in upper snake case: any such identifier other than the item's own name is a
            // reference to another value
            let is_const_name = |w: &str| w.len() > 1 && w.chars().any(|c| c.is_ascii_uppercase()) && w.chars().all(|c| c.is_ascii_uppercase() || c.is_ascii_digit() || c == '_') && !matches!(w, "ENUMERATED" | "INTEGER" | "CHOICE" | "SEQUENCE" | "SET" | "BOOLEAN" | "NULL" | "BIT_STRING" | "OCTET_STRING" | "SEQUENCE_OF" | "SET_OF") && !(w.starts_with("EQ") && w[2..].chars().all(|c| c.is_ascii_digit()));
            if words.iter().any(|w| *w != own && is_const_name(w)) {
                f.push("value-reference-inside-value");
            }
            // an enumeral of an inline ENUMERATED type spelled as a free-standing constant
            if words.iter().any(|w| w.len() > 2 && w.starts_with("EQ") && w[2..].chars().all(|c| c.is_ascii_digit())) {
                f.push("enumeral-as-bare-constant");
            }
        }
    }
    f.sort();
    f.dedup();
    f
}

/// features taken from the ASN.1 source (never from rustc's verdict) for diagnostics that point at a `use` line: the
/// imported symbol is a parameterized type, for which no Rust item exists in the defining module
fn spec_features(asn1: &str, d: &Diag) -> Vec<&'static str> {
    let mut f = vec![];
    if d.item.as_deref() == Some("use") {
        if let Some(sym) = d.msg.split("no `").nth(1).and_then(|r| r.split('`').next()) {
            let norm = |x: &str| x.chars().filter(|c| *c != '-' && *c != '_').collect::<String>().to_lowercase();
            let parameterized = asn1.lines().any(|l| {
                let l = l.trim_start();
                match l.split_once('{') {
                    Some((name, rest)) => !name.trim().is_empty() && name.trim().chars().all(|c| c.is_alphanumeric() || c == '-') && norm(name.trim()) == norm(sym) && rest.split_once('}').is_some_and(|(_, after)| after.trim_start().starts_with("::=")),
                    None => false,
                }
            });
            if parameterized {
                f.push("import-of-parameterized-type");
            }
        }
    }
    f
}

/// writes the case files + lib.rs and runs cargo check; returns per-case error lists
fn cargo_check(cases: &[(usize, String)]) -> Result<BTreeMap<usize, Vec<Diag>>, String> {
    cargo_check_at(&ws_dir(), cases)
}

fn cargo_check_at(d: &PathBuf, cases: &[(usize, String)]) -> Result<BTreeMap<usize, Vec<Diag>>, String> {
    let d = d.clone();
    prepare_ws_at(&d)?;
    // remove stale case files
    if let Ok(rd) = std::fs::read_dir(d.join("src")) {
        for e in rd.flatten() {
            let _ = std::fs::remove_file(e.path());
        }
    }
    let mut lib = String::from("#![allow(warnings)]\n#![recursion_limit = \"512\"]\nextern crate alloc;\n");
    let mut layouts: BTreeMap<usize, Vec<(String, String)>> = BTreeMap::new();
    for (n, text) in cases {
        let (laid, lines) = relayout(text).ok_or_else(|| format!("case {n} does not parse"))?;
        std::fs::write(d.join("src").join(format!("case_{n}.rs")), laid).map_err(|e| e.to_string())?;
        layouts.insert(*n, lines);
        lib.push_str(&format!("pub mod case_{n};\n"));
    }
    std::fs::write(d.join("src/lib.rs"), lib).map_err(|e| e.to_string())?;
    let out = Command::new("cargo")
        .args(["check", "--offline", "--message-format=json", "--quiet"])
        .current_dir(&d)
        .env("CARGO_NET_OFFLINE", "true")
        .env("CARGO_TARGET_DIR", d.join("target"))
        .stdin(Stdio::null())
        .stdout(Stdio::piped())
        .stderr(Stdio::piped())
        .output()
        .map_err(|e| format!("cannot run cargo: {e}"))?;
    let mut per: BTreeMap<usize, Vec<Diag>> = BTreeMap::new();
    let mut unattributed = vec![];
    for line in String::from_utf8_lossy(&out.stdout).lines() {
        let Ok(v) = serde_json::from_str::<Value>(line) else { continue };
        if v["reason"] != "compiler-message" {
            continue;
        }
        let m = &v["message"];
        if m["level"] != "error" {
            continue;
        }
        let code = m["code"]["code"].as_str().unwrap_or("no-code").to_string();
        let mut msg = m["message"].as_str().unwrap_or("").to_string();
        if msg.starts_with("aborting due to") {
            continue;
        }
        if let Some(spans) = m["spans"].as_array() {
            if let Some(l) = spans.iter().find(|s| s["is_primary"] == true).and_then(|s| s["label"].as_str()) {
                if !l.is_empty() && !msg.contains(l) {
                    msg = format!("{msg} [{l}]");
                }
            }
        }
        // primary span first, following macro expansions back to the case file
        let mut hit: Option<(String, usize)> = None;
        if let Some(spans) = m["spans"].as_array() {
            let mut ordered: Vec<&Value> = spans.iter().filter(|s| s["is_primary"] == true).collect();
            ordered.extend(spans.iter().filter(|s| s["is_primary"] != true));
            for s in ordered {
                let mut cur = s;
                for _ in 0..8 {
                    let f = cur["file_name"].as_str().unwrap_or("");
                    if f.contains("case_") {
                        hit = Some((f.to_string(), cur["line_start"].as_u64().unwrap_or(0) as usize));
                        break;
                    }
                    if cur["expansion"].is_object() {
                        cur = &cur["expansion"]["span"];
                    } else {
                        break;
                    }
                }
                if hit.is_some() {
                    break;
                }
            }
        }
        match hit.and_then(|(f, l)| f.split("case_").nth(1).and_then(|x| x.trim_end_matches(".rs").parse::<usize>().ok()).map(|n| (n, l))) {
            Some((n, l)) => {
                let (item, features) = match layouts.get(&n).and_then(|ls| ls.get(l.wrapping_sub(1))) {
                    Some((name, toks)) if !name.is_empty() => (Some(name.clone()), item_features(toks)),
                    _ => (None, vec![]),
                };
                per.entry(n).or_default().push(Diag { code, msg, item, features })
            }
            None => unattributed.push(format!("{code}: {msg}")),
        }
    }
    if !out.status.success() && per.is_empty() {
        return Err(format!("cargo check failed without attributable diagnostics: {} {}", one_line(&unattributed.join("; "), 300), one_line(&String::from_utf8_lossy(&out.stderr), 300)));
    }
    if !unattributed.is_empty() && per.is_empty() {
        return Err(format!("unattributable rustc errors: {}", one_line(&unattributed.join("; "), 400)));
    }
    Ok(per)
}

fn cfg_for(i: u64) -> Cfg {
    // walks the configuration lattice: 16 flag combinations x custom imports x annotations
    let flags = (i % 16) as u8;
    let imports: Vec<String> = match (i / 16) % 3 {
        0 => vec![],
        1 => vec!["core::fmt::Write".into()],
        _ => vec!["core::fmt::Write".into(), "alloc::collections::BTreeMap".into()],
    };
    let ann = match (i / 48) % 4 {
        0 => None,
        // the same non-required derives named on two lines: they must be emitted once (else E0119)
        3 => Some(vec!["#[derive(AsnType, Debug, Clone, Decode, Encode, PartialEq, Eq, Hash)]".to_string(), "#[derive(Eq, Hash)]".to_string()]),
        // custom annotations replace the default derive list, so they must keep what the bindings rely on (rasn's
        // derives + the comparison/hash traits SetOf and DEFAULT handling need); extra traits the rasn types do not all
        // implement (PartialOrd on SetOf) would be the configuration's fault, not the compiler's
        1 => Some(vec!["#[derive(AsnType, Debug, Clone, Decode, Encode, PartialEq, Eq, Hash)]".to_string(), "#[allow(missing_docs)]".to_string()]),
        _ => Some(vec!["#[derive(AsnType, Debug, Clone)]".to_string(), "#[derive(Decode, Encode, PartialEq, Eq, Hash)]".to_string()]),
    };
    Cfg { opaque_open_types: flags & 1 == 0, default_wildcard_imports: flags & 2 != 0, generate_from_impls: flags & 4 != 0, no_std: flags & 8 != 0, custom_imports: imports, type_annotations: ann }
}

fn opts(i: u64) -> GenOpts {
    let mut o = GenOpts { modules: (1, 3), assigns: (1, 8), max_depth: 3, max_comps: 6, qualified_refs: i % 3 == 0, structured_values: true, ..GenOpts::default() };
    o.taggings = match i % 5 {
        0 => vec![Tagging::Automatic],
        1 => vec![Tagging::Explicit],
        2 => vec![Tagging::Implicit],
        _ => Tagging::all().to_vec(),
    };
    o
}

/// Hand-written inputs inside the supported notation that the generator does not spell (shapes reported by independent
/// readers of the property). A diagnostic on one of them carries the feature `hand-input:<name>`, so that a listed finding
/// names exactly this input.
const HAND_INPUTS: &[(&str, &str)] = &[
    ("hand-input:integer-default-through-value-bounded-reference", "Mq1 DEFINITIONS AUTOMATIC TAGS ::= BEGIN\nZq ::= SEQUENCE { f Tq DEFAULT 5 }\nTq ::= INTEGER (0..vmax)\nvmax INTEGER ::= 9\nEND\n"),
    ("hand-input:integer-default-through-value-bounded-reference", "Mq1 DEFINITIONS AUTOMATIC TAGS ::= BEGIN\nSq ::= SEQUENCE { f Tq DEFAULT 5 }\nTq ::= INTEGER (0..vmax)\nvmax INTEGER ::= 9\nEND\n"),
    ("hand-input:sequence-valued-default-of-a-referenced-type", "Mq1 DEFINITIONS AUTOMATIC TAGS ::= BEGIN\nSx ::= SEQUENCE { f INTEGER DEFAULT 3, g BOOLEAN }\nRx ::= SEQUENCE { s Sx DEFAULT { g TRUE } }\nEND\n"),
    ("hand-input:sequence-valued-default-of-a-referenced-type", "Mq1 DEFINITIONS AUTOMATIC TAGS ::= BEGIN\nSx ::= SEQUENCE { f INTEGER DEFAULT 3, g BOOLEAN, h IA5String DEFAULT \"x\" }\nTx ::= SEQUENCE { s Sx DEFAULT { g TRUE } }\nEND\n"),
    ("hand-input:enumeral-default-through-a-type-reference", "Mq1 DEFINITIONS AUTOMATIC TAGS ::= BEGIN\nFq ::= ENUMERATED { c, d }\nGq ::= Fq\nRq ::= SEQUENCE { h Gq DEFAULT c }\nEND\n"),
    ("hand-input:set-of-component-with-default", "Mq1 DEFINITIONS AUTOMATIC TAGS ::= BEGIN\nTq ::= SEQUENCE { a SET OF INTEGER DEFAULT {} }\nEND\n"),
    ("hand-input:set-of-component-with-default", "Mq1 DEFINITIONS AUTOMATIC TAGS ::= BEGIN\nTq ::= SEQUENCE { a SET OF INTEGER DEFAULT { 1, 2 }, b SEQUENCE OF BOOLEAN DEFAULT {} }\nEND\n"),
    ("hand-input:integer-union-component-with-default", "Mq1 DEFINITIONS AUTOMATIC TAGS ::= BEGIN\nSq ::= SEQUENCE { a INTEGER (2 | 3) DEFAULT 2 }\nEND\n"),
    ("hand-input:real-component", "Mq1 DEFINITIONS AUTOMATIC TAGS ::= BEGIN\nTq5 ::= SEQUENCE { b REAL OPTIONAL }\nEND\n"),
    ("hand-input:dummy-value-parameter-as-default", "Mq1 DEFINITIONS AUTOMATIC TAGS ::= BEGIN\nPq { INTEGER: lo } ::= SEQUENCE { v INTEGER DEFAULT lo }\nXq ::= Pq { 3 }\nEND\n"),
    ("hand-input:default-of-a-module-qualified-reference", "Mq1 DEFINITIONS AUTOMATIC TAGS ::= BEGIN\nTq1 ::= SEQUENCE { fq3 Mq3.Tq5 DEFAULT 3 }\nEND\nMq3 DEFINITIONS AUTOMATIC TAGS ::= BEGIN\nTq5 ::= INTEGER (0..10)\nEND\n"),
    ("hand-input:component-names-that-differ-by-case-or-hyphen", "Mq1 DEFINITIONS AUTOMATIC TAGS ::= BEGIN\nTq ::= SEQUENCE { fooBar NULL, foo-bar BOOLEAN }\nEND\n"),
    ("hand-input:component-named-like-an-escaped-keyword", "Mq1 DEFINITIONS AUTOMATIC TAGS ::= BEGIN\nTq ::= SEQUENCE { type INTEGER, r-type BOOLEAN }\nEND\n"),
    // ---- ninth round: unchanged-tree observations of the agents (each a known finding unless it type-checks)
    ("hand-input:default-on-a-hoisted-sequence-of-component", "Mq1 DEFINITIONS AUTOMATIC TAGS ::= BEGIN\nTq2 ::= SEQUENCE { f4 SEQUENCE OF INTEGER (0..5) DEFAULT { 1, 2 } }\nEND\n"),
    ("hand-input:value-of-a-recursive-choice", "Mq1 DEFINITIONS AUTOMATIC TAGS ::= BEGIN\nCh ::= CHOICE { a INTEGER (0..7), n Ch }\nv Ch ::= n : a : 5\nEND\n"),
    ("hand-input:value-through-an-alias-chain-in-an-importing-module", "Mq1 DEFINITIONS AUTOMATIC TAGS ::= BEGIN\nEXPORTS ALL;\nTq1 ::= INTEGER (0..255)\nTq1b ::= Tq1\nvq1 Tq1b ::= 5\nEND\nMq2 DEFINITIONS AUTOMATIC TAGS ::= BEGIN\nIMPORTS Tq1b, vq1 FROM Mq1;\nTq3 ::= SEQUENCE { f Tq1b DEFAULT 3 }\nvq2 Tq1b ::= 9\nEND\n"),
    ("hand-input:type-named-like-a-rasn-prelude-item", "Mq1 DEFINITIONS AUTOMATIC TAGS ::= BEGIN\nOid ::= OBJECT IDENTIFIER\no1 OBJECT IDENTIFIER ::= { 1 2 3 }\nEND\n"),
    ("hand-input:component-named-like-an-extension-group", "Mq1 DEFINITIONS AUTOMATIC TAGS ::= BEGIN\nTq ::= SEQUENCE { ext-group-b SEQUENCE { x INTEGER }, ..., [[ b BOOLEAN ]] }\nEND\n"),
    ("hand-input:two-groups-of-components-of-only", "Mq1 DEFINITIONS AUTOMATIC TAGS ::= BEGIN\nBq ::= SEQUENCE { x INTEGER }\nDq ::= SEQUENCE { y INTEGER }\nTq ::= SEQUENCE { a INTEGER, ..., [[ COMPONENTS OF Bq ]], [[ COMPONENTS OF Dq ]] }\nEND\n"),
    ("hand-input:type-names-that-mangle-alike", "Mq1 DEFINITIONS AUTOMATIC TAGS ::= BEGIN\nVersion-1-2 ::= INTEGER\nVersion-12 ::= BOOLEAN\nEND\n"),
    ("hand-input:default-function-names-that-mangle-alike", "Mq1 DEFINITIONS AUTOMATIC TAGS ::= BEGIN\nAbC ::= SEQUENCE { d INTEGER DEFAULT 1 }\nAb ::= SEQUENCE { cD INTEGER DEFAULT 2 }\nEND\n"),
    ("hand-input:value-and-type-that-mangle-alike", "Mq1 DEFINITIONS AUTOMATIC TAGS ::= BEGIN\na INTEGER ::= 1\nA ::= INTEGER\nEND\n"),
    ("hand-input:value-of-a-fixed-size-bit-string-type", "Mq1 DEFINITIONS AUTOMATIC TAGS ::= BEGIN\nTq1 ::= BIT STRING (SIZE (8))\nvq1 Tq1 ::= '01000000'B\nEND\n"),
    ("hand-input:components-of-an-imported-type", "Mq1 DEFINITIONS AUTOMATIC TAGS ::= BEGIN\nIMPORTS Cq, Chq FROM Mq2;\nDq ::= SEQUENCE { COMPONENTS OF Cq, c NULL }\nEq ::= x < Chq\nEND\nMq2 DEFINITIONS AUTOMATIC TAGS ::= BEGIN\nTq5 ::= BOOLEAN\nCq ::= SEQUENCE { a Tq5, b INTEGER }\nChq ::= CHOICE { x Tq5, y NULL }\nEND\n"),
    ("hand-input:nested-one-component-sequence-value", "Mq1 DEFINITIONS AUTOMATIC TAGS ::= BEGIN\nTq1 ::= SEQUENCE { fq1 INTEGER }\nTq2 ::= SEQUENCE { fq2 Tq1 DEFAULT { fq1 7 } }\nEND\n"),
    ("hand-input:named-number-through-a-value-reference-as-default", "Mq1 DEFINITIONS AUTOMATIC TAGS ::= BEGIN\nTq1 ::= INTEGER { nq1(1) }\nvq1 Tq1 ::= nq1\nTq2 ::= INTEGER\nTq3 ::= SEQUENCE { fq1 Tq2 DEFAULT vq1 }\nEND\n"),
    ("hand-input:value-governed-by-a-module-qualified-type", "Mq1 DEFINITIONS AUTOMATIC TAGS ::= BEGIN\nTq1 ::= INTEGER (0..15)\nEND\nMq3 DEFINITIONS AUTOMATIC TAGS ::= BEGIN\nvq4 Mq1.Tq1 ::= 9\nAq3 ::= Mq1.Tq1\nEND\n"),
    // integer literals behind a chain of type references with a constrained hop (the literal takes the root type's spelling)
    ("hand-input:integer-literal-behind-a-constrained-reference-chain", "Mq1 DEFINITIONS AUTOMATIC TAGS ::= BEGIN\nBase ::= INTEGER\nSub ::= Base (0..10)\nHolder ::= SEQUENCE { f Sub DEFAULT 3 }\nEND\n"),
    ("hand-input:integer-literal-behind-a-constrained-reference-chain", "Mq1 DEFINITIONS AUTOMATIC TAGS ::= BEGIN\nBase ::= INTEGER\nSub ::= Base (0..10)\nAlias ::= Sub\nfour Alias ::= 4\nEND\n"),
    ("hand-input:integer-literal-behind-a-constrained-reference-chain", "Mq1 DEFINITIONS AUTOMATIC TAGS ::= BEGIN\nBase ::= INTEGER\nSub ::= Base (0..10)\nPick ::= CHOICE { a Sub, b BOOLEAN }\nseven Pick ::= a : 7\nHolder ::= SEQUENCE { f Pick DEFAULT a : 1 }\nEND\n"),
    ("hand-input:integer-literal-behind-a-constrained-reference-chain", "Mq1 DEFINITIONS AUTOMATIC TAGS ::= BEGIN\nBase ::= INTEGER (0..1000)\nSub ::= Base (0..10)\nAlias ::= Sub\nfour Alias ::= 4\nHolder ::= SEQUENCE { f Sub DEFAULT 3, g Base (0..5) DEFAULT 2 }\nEND\n"),
    ("hand-input:keyword-named-collection-of-anonymous-elements", "Mq1 DEFINITIONS AUTOMATIC TAGS ::= BEGIN\nSelf ::= SEQUENCE OF INTEGER (0..5)\nUq ::= SEQUENCE { s Self }\nEND\n"),
];

struct Eligible {
    n: usize,
    /// None for the hand-templated inputs (name styles, cross-module cycles): they are not minimised
    set: Option<ModuleSet>,
    asn1: String,
    cfg: Cfg,
    text: String,
    origin: String,
}

/// (class, item features) of the diagnostics of one case. A failing derive (diagnostics without an error code) leaves the
/// type without its trait impls; the coded errors that follow are consequences, not further causes.
fn classes_of(errs: &[Diag]) -> Vec<(String, Vec<&'static str>)> {
    let derive_failed = errs.iter().any(|d| d.code == "no-code");
    // of the diagnostics a failing derive prints for one item (parse errors of its own output), the first names the failure
    let mut first_per_item = BTreeSet::new();
    let mut v: Vec<(String, Vec<&'static str>)> = errs
        .iter()
        .filter(|d| !derive_failed || (d.code == "no-code" && first_per_item.insert(d.item.clone())))
        .map(|d| (msg_class(&d.code, &d.msg), d.features.clone()))
        .collect();
    v.sort();
    v.dedup();
    v
}

/// signature of one (class, features) pair: a listed finding is keyed on the class *and* one feature of the item the
/// diagnostic points into; the same class on an item without that feature is a different (unlisted) violation
fn sig_for(findings: &Findings, class: &str, features: &[&'static str]) -> String {
    // a hand-written input is its own key: whatever rustc says about it, in however many diagnostics
    if let Some(f) = features.iter().find(|f| f.starts_with("hand-input:")) {
        return format!("c01|rustc|*|{f}");
    }
    for f in features {
        let s = format!("c01|rustc|{class}|{f}");
        if findings.known.contains_key(&("C01".to_string(), s.clone())) {
            return s;
        }
    }
    // value notation that is not translated at all: the type mismatch takes as many shapes as there are governing
    // types, so these findings are keyed on the error code alone
    let code = class.split(':').next().unwrap_or("");
    for f in features {
        let s = format!("c01|rustc|{code}:*|{f}");
        if findings.known.contains_key(&("C01".to_string(), s.clone())) {
            return s;
        }
    }
    format!("c01|rustc|{class}|{}", if features.is_empty() { "no-feature".to_string() } else { features.join("+") })
}

pub fn run(ctx: &Ctx) -> Report {
    let mut rep = Report::new(
        "exploration",
        "grammar-G module sets (1..3 modules, every built-in type, constraints, tags, extension markers and groups, nesting to depth 3, direct and mutual recursion, forward references, imports incl. values and module-qualified references, value assignments incl. structured values and DEFAULTs) x all four tagging defaults x EXTENSIBILITY IMPLIED x the RasnConfig lattice (16 flag combinations x 3 custom-import settings x 3 annotation settings, walked cyclically). Every compilation that returns Ok without warnings must parse with syn; it is then written (one generated item per line, same tokens) to its own file of one batch crate (dependencies: rasn 0.27, lazy_static) and the batch is given to the real `cargo check`; each error diagnostic is attributed to the case and the generated item owning the primary span (following macro expansion back-traces). Batches are re-checked without the failing cases until clean so that an early rustc phase failing in one case cannot hide later-phase errors of the others. Non-trivial = eligible (warning-free Ok, syn-parsable) case that rustc checked; distinct by generated text hash.",
    );
    rep.must_observe = vec!["cases_type_checked".into(), "rustc_batches".into()];
    rep.assumptions = vec!["rustc/cargo of the sandbox (edition 2021) and rasn 0.27.0 from the offline registry are the oracle".into(), "a batch whose errors cannot be attributed to case files is inconclusive".into()];
    if ctx.replay.is_some() {
        return replay(ctx, rep);
    }
    let want = ctx.pick(200usize, 2400);
    let batch = ctx.pick(200usize, 400);
    let seed = ctx.seed;
    // 1. collect eligible cases in parallel (generation and compilation are cheap compared with rustc)
    let tries = (want as u64) * 3;
    let found: std::sync::Mutex<Vec<Eligible>> = std::sync::Mutex::new(vec![]);
    let acc = Acc::new(rep);
    par_for(tries, |i| {
        let cfg = cfg_for(i);
        let set = gen::random_set(seed, 100, i, &opts(i));
        let run = comp::rasn(&set.render_each(), &cfg);
        let mut local = Report::default();
        local.evaluations += 1;
        match &run.out {
            comp::Outcome::Ok { generated, warnings } if warnings.is_empty() => {
                if syn::parse_file(generated).is_err() {
                    local.violations.push(Violation { sig: "c01|not-parsable-as-rust-items".into(), what: format!("warning-free output does not parse as Rust items [G(seed={seed},salt=100,idx={i})]"), replay: json!({"origin": format!("G(seed={seed},salt=100,idx={i})"), "asn1": set.render().text}) });
                } else {
                    local.count("eligible_cases", 1);
                    let asn1 = set.render().text;
                    found.lock().unwrap().push(Eligible { n: i as usize, set: Some(set), asn1, cfg, text: generated.clone(), origin: format!("G(seed={seed},salt=100,idx={i})") });
                }
            }
            comp::Outcome::Ok { .. } => local.count("ineligible[warnings]", 1),
            _ => local.count("ineligible[not Ok]", 1),
        }
        acc.with(|r| r.merge(local));
    });
    let mut rep = acc.into_inner();
    let mut elig = found.into_inner().unwrap();
    elig.sort_by_key(|e| e.n);
    elig.truncate(want);
    // hand-templated inputs with spellings and shapes grammar G does not produce (imported names of every spelling style,
    // reference cycles through several modules with module-qualified references): 1 in 8 of the batch
    for j in 0..(want as u64 / 8) {
        let cfg = cfg_for(j * 5 + 1);
        let srcs = crate::c12::template_sources(seed, j);
        if let comp::Outcome::Ok { generated, warnings } = &comp::rasn(&srcs, &cfg).out {
            if warnings.is_empty() && syn::parse_file(generated).is_ok() {
                rep.count("eligible_cases[templates]", 1);
                elig.push(Eligible { n: 1_000_000 + j as usize, set: None, asn1: srcs.join("\n"), cfg, text: generated.clone(), origin: format!("templates(seed={seed},idx={j})") });
            }
        }
    }
    // reference graphs in which a type is reached more than once (repeated references, aliases, anonymous nesting, two
    // modules): the placement of Box is judged by rustc here (E0072), next to C02's containment-graph monitor
    for j in 0..(want as u64 / 8) {
        let cfg = cfg_for(j * 7 + 3);
        let (srcs, _) = crate::c0235::recursion_shape_sources(seed, j);
        if let comp::Outcome::Ok { generated, warnings } = &comp::rasn(&srcs, &cfg).out {
            if warnings.is_empty() && syn::parse_file(generated).is_ok() {
                rep.count("eligible_cases[recursion-shapes]", 1);
                elig.push(Eligible { n: 2_000_000 + j as usize, set: None, asn1: srcs.join("\n"), cfg, text: generated.clone(), origin: format!("recursion-shapes(seed={seed},idx={j})") });
            }
        }
    }
    for (j, (name, text)) in HAND_INPUTS.iter().enumerate() {
        let cfg = cfg_for(0);
        match &comp::rasn(&[text.to_string()], &cfg).out {
            comp::Outcome::Ok { generated, warnings } if warnings.is_empty() && syn::parse_file(generated).is_ok() => {
                rep.count("eligible_cases[hand-inputs]", 1);
                elig.push(Eligible { n: 3_000_000 + j, set: None, asn1: text.to_string(), cfg, text: generated.clone(), origin: format!("{name}#{j}") });
            }
            _ => rep.count("ineligible[hand-inputs]", 1),
        }
    }
    let eligible_ratio = elig.len() as f64 / want.max(1) as f64;
    rep.extra.insert("eligible_selected".into(), json!(elig.len()));
    if eligible_ratio < 0.2 {
        rep.inconclusive.push(format!("only {} eligible cases", elig.len()));
    }
    // 2. rustc batches
    let findings = Findings::load();
    let mut failing: Vec<(usize, Vec<Diag>)> = vec![]; // index into elig
    for chunk_start in (0..elig.len()).step_by(batch) {
        let chunk_end = (chunk_start + batch).min(elig.len());
        let mut live: Vec<usize> = (chunk_start..chunk_end).collect();
        let mut rounds = 0;
        let mut conclusive = true;
        loop {
            rounds += 1;
            let files: Vec<(usize, String)> = live.iter().map(|&k| (elig[k].n, elig[k].text.clone())).collect();
            rep.count("rustc_batches", 1);
            match cargo_check(&files) {
                Ok(per) => {
                    if per.is_empty() {
                        break;
                    }
                    let before = live.len();
                    live.retain(|&k| match per.get(&elig[k].n) {
                        Some(errs) => {
                            let mut errs = errs.clone();
                            for d in errs.iter_mut() {
                                d.features.extend(spec_features(&elig[k].asn1, d));
                                if elig[k].n >= 3_000_000 {
                                    d.features.insert(0, HAND_INPUTS[elig[k].n - 3_000_000].0);
                                }
                            }
                            failing.push((k, errs));
                            false
                        }
                        None => true,
                    });
                    if live.len() == before || live.is_empty() {
                        break;
                    }
                    if rounds >= 8 {
                        rep.inconclusive.push("rustc batch still failing after 8 rounds".into());
                        conclusive = false;
                        break;
                    }
                }
                Err(e) => {
                    rep.inconclusive.push(format!("rustc batch inconclusive: {e}"));
                    conclusive = false;
                    break;
                }
            }
        }
        rep.count("rustc_rounds", rounds);
        if conclusive {
            for k in chunk_start..chunk_end {
                let e = &elig[k];
                rep.evaluations += 1;
                rep.count("cases_type_checked", 1);
                rep.count(&format!("cases_type_checked[cfg flags={:02}]", e.n % 16), 1);
                rep.count(&format!("cases_type_checked[tagging={}]", ["automatic", "explicit", "implicit", "mixed", "mixed"][e.n % 5]), 1);
                rep.nontrivial.insert(hash_str(&e.text));
                if rep.samples.len() < 4 && e.n % 61 == 0 {
                    rep.sample(json!({"origin": e.origin, "config": e.cfg.to_json(), "asn1": one_line(&e.asn1, 300), "rustc_errors": failing.iter().find(|f| f.0 == k).map(|f| f.1.len()).unwrap_or(0)}));
                }
            }
            rep.count("cases_passing_rustc", live.len() as u64);
        }
    }
    // 3. one violation per (case, signature); the smallest case of every signature that is not a listed finding is
    // minimised with rustc in the loop (one workspace per worker)
    let mut by_sig: BTreeMap<String, Vec<usize>> = BTreeMap::new();
    let mut class_of_sig: BTreeMap<String, String> = BTreeMap::new();
    for (fi, (_, errs)) in failing.iter().enumerate() {
        let mut seen = BTreeSet::new();
        for (c, feats) in classes_of(errs) {
            let sig = sig_for(&findings, &c, &feats);
            if seen.insert(sig.clone()) {
                class_of_sig.insert(sig.clone(), c);
                by_sig.entry(sig).or_default().push(fi);
            }
        }
    }
    let unlisted: Vec<(String, usize)> =
        by_sig.iter().filter(|(s, _)| !findings.known.contains_key(&("C01".to_string(), (*s).clone()))).map(|(s, v)| (s.clone(), *v.iter().min_by_key(|&&fi| elig[failing[fi].0].text.len()).unwrap())).collect();
    let witnesses: std::sync::Mutex<BTreeMap<String, String>> = std::sync::Mutex::new(BTreeMap::new());
    {
        let next = std::sync::atomic::AtomicUsize::new(0);
        std::thread::scope(|sc| {
            for slot in 1..=8usize.min(unlisted.len()) {
                let (next, unlisted, witnesses, elig, failing, class_of_sig) = (&next, &unlisted, &witnesses, &elig, &failing, &class_of_sig);
                sc.spawn(move || loop {
                    let k = next.fetch_add(1, std::sync::atomic::Ordering::SeqCst);
                    if k >= unlisted.len() || k >= 40 {
                        break;
                    }
                    let (sig, fi) = &unlisted[k];
                    let e = &elig[failing[*fi].0];
                    if let Some(set) = &e.set {
                        let m = shrink_for(set, &e.cfg, &class_of_sig[sig], slot);
                        witnesses.lock().unwrap().insert(sig.clone(), m.render().text);
                    }
                });
            }
        });
    }
    let witnesses = witnesses.into_inner().unwrap();
    rep.count("diagnostic_signatures_seen", by_sig.len() as u64);
    for (sig, fis) in &by_sig {
        let mut fis = fis.clone();
        fis.sort_by_key(|fi| !unlisted.iter().any(|(s, f)| s == sig && f == fi));
        for &fi in &fis {
            let (k, errs) = &failing[fi];
            let e = &elig[*k];
            let wit = witnesses.get(sig).filter(|_| unlisted.iter().any(|(s, f)| s == sig && *f == fi));
            let items: BTreeSet<String> = errs.iter().filter(|d| msg_class(&d.code, &d.msg) == class_of_sig[sig]).filter_map(|d| d.item.clone()).collect();
            rep.violations.push(Violation {
                sig: sig.clone(),
                what: format!("rustc rejects warning-free bindings: {} in item(s) {:?} ({} errors in case) [{}] cfg={} :: {}", class_of_sig[sig], items, errs.len(), e.origin, e.cfg.to_json(), one_line(wit.map(|s| s.as_str()).unwrap_or(&e.asn1), 600)),
                replay: json!({"origin": e.origin, "config": e.cfg.to_json(), "asn1": e.asn1, "minimised": wit, "errors": errs.iter().take(8).map(|x| format!("{}: {} @{:?} {:?}", x.code, x.msg, x.item, x.features)).collect::<Vec<_>>()}),
            });
        }
    }
    if rep.samples.is_empty() {
        if let Some(e) = elig.first() {
            rep.sample(json!({"origin": e.origin, "config": e.cfg.to_json(), "asn1": one_line(&e.asn1, 300)}));
        }
    }
    rep
}

/// replay: regenerate the recorded case from its generator coordinates and type-check it alone
fn replay(ctx: &Ctx, mut rep: Report) -> Report {
    let path = ctx.replay.as_ref().unwrap();
    let doc: Value = serde_json::from_str(&std::fs::read_to_string(path).unwrap_or_default()).unwrap_or(Value::Null);
    let origin = doc["case"]["origin"].as_str().unwrap_or("").to_string();
    let nums: Vec<u64> = origin.split(|c: char| !c.is_ascii_digit()).filter(|s| !s.is_empty()).filter_map(|s| s.parse().ok()).collect();
    rep.evaluations = 1;
    if !origin.starts_with("G(seed=") || nums.len() != 3 {
        rep.inconclusive.push(format!("cannot regenerate case from origin `{origin}`"));
        return rep;
    }
    let (seed, idx) = (nums[0], nums[2]);
    let cfg = cfg_for(idx);
    let set = gen::random_set(seed, 100, idx, &opts(idx));
    let findings = Findings::load();
    match single(&set, &cfg, 0) {
        None => rep.inconclusive.push("case is not eligible (not Ok or warnings)".into()),
        Some(errs) => {
            rep.count("cases_type_checked", 1);
            rep.count("rustc_batches", 1);
            rep.nontrivial.insert(hash_of(&set));
            rep.sample(json!({"origin": origin, "config": cfg.to_json(), "rustc_errors": errs.len()}));
            for (c, feats) in classes_of(&errs) {
                rep.violations.push(Violation { sig: sig_for(&findings, &c, &feats), what: format!("rustc rejects warning-free bindings: {c} [{origin}]"), replay: json!({"origin": origin, "asn1": set.render().text}) });
            }
        }
    }
    rep
}

/// normalised diagnostic class: generated identifiers and numbers removed
pub fn msg_class(code: &str, msg: &str) -> String {
    let msg = msg.split(" TokenStream [").next().unwrap_or(msg);
    let mut out = String::new();
    let mut word = String::new();
    let flush = |w: &mut String, out: &mut String| {
        if w.is_empty() {
            return;
        }
        let gen_name = (w.starts_with("case_") || w.starts_with("Field") || w.starts_with("inner")) && w.chars().any(|c| c.is_ascii_digit()) || {
            let b = w.as_bytes();
            (0..b.len().saturating_sub(1)).any(|i| (b[i] == b'q' || b[i] == b'Q') && b[i + 1].is_ascii_digit())
        };
        if gen_name {
            out.push('N');
        } else if w.chars().all(|c| c.is_ascii_digit()) || (w.chars().next().is_some_and(|c| c.is_ascii_digit()) && (w.ends_with("usize") || w.ends_with("i128") || w.ends_with("u32"))) {
            out.push('#');
        } else {
            out.push_str(w);
        }
        w.clear();
    };
    for c in msg.chars() {
        if c.is_alphanumeric() || c == '_' {
            word.push(c);
        } else {
            flush(&mut word, &mut out);
            out.push(c);
        }
    }
    flush(&mut word, &mut out);
    while out.contains("N::N") {
        out = out.replace("N::N", "N");
    }
    // type expressions (inside back-ticks): keep the shape (Option<_>, Box<_>, &_, SetOf<_>, Vec<_>), drop the leaf
    // type names, which vary with the input and not with the defect
    const KEEP: [&str; 16] = ["Option", "Box", "Vec", "SetOf", "SequenceOf", "LazyLock", "Constructed", "Decode", "Encode", "AsnType", "str", "integer", "Iterator", "Item", "Ord", "_"];
    let mut shaped = String::new();
    for (k, part) in out.split('`').enumerate() {
        if k % 2 == 0 {
            shaped.push_str(part);
            continue;
        }
        shaped.push('`');
        let is_type_expr = part.chars().next().is_some_and(|c| c.is_uppercase() || c == '&' || c == '<') || matches!(part, "i8" | "i16" | "i32" | "i64" | "u8" | "u16" | "u32" | "u64" | "bool" | "()" | "integer") || part.contains("::types::");
        if !is_type_expr {
            shaped.push_str(part);
        } else {
            let part = part.replace("rasn::types::", "").replace("()", "T");
            let mut w = String::new();
            let mut emit = |w: &mut String, shaped: &mut String| {
                if !w.is_empty() {
                    shaped.push_str(if KEEP.contains(&w.as_str()) { w.as_str() } else { "T" });
                    w.clear();
                }
            };
            for c in part.chars() {
                if c.is_alphanumeric() || c == '_' {
                    w.push(c);
                } else {
                    emit(&mut w, &mut shaped);
                    shaped.push(c);
                }
            }
            emit(&mut w, &mut shaped);
        }
        shaped.push('`');
    }
    let mut shaped = shaped;
    // `?` on a decoded extension addition: the expected type is the field's type, whatever it is
    if shaped.contains("`?` operator has incompatible types") {
        if let (Some(a), Some(b)) = (shaped.find("[expected `"), shaped.find("`, found")) {
            if a < b {
                shaped = format!("{}[expected `T{}", &shaped[..a], &shaped[b..]);
            }
        }
    }
    for pat in ["T<T, ...>", "T<T, T>", "T<T>", "Option<Box<T>>", "Option<Vec<T>>", "Option<SetOf<T>>", "Option<SequenceOf<T>>"] {
        while shaped.contains(pat) {
            shaped = shaped.replace(pat, if pat.starts_with("Option") { "Option<T>" } else { "T" });
        }
    }
    format!("{code}:{}", one_line(&shaped, 110))
}

/// compile one set and type-check it alone in workspace `slot`; None = not eligible (not Ok / warnings)
fn single(set: &ModuleSet, cfg: &Cfg, slot: usize) -> Option<Vec<Diag>> {
    let run = comp::rasn(&set.render_each(), cfg);
    match &run.out {
        comp::Outcome::Ok { generated, warnings } if warnings.is_empty() && syn::parse_file(generated).is_ok() => {
            let per = cargo_check_at(&slot_ws(slot), &[(0, generated.clone())]).ok()?;
            Some(per.get(&0).cloned().unwrap_or_default())
        }
        _ => None,
    }
}

/// every generated type/value name a module uses is defined in it or imported by it (the shrinker may otherwise leave
/// dangling references, which are outside the property's input space)
fn refs_resolved(set: &ModuleSet) -> bool {
    let is_name = |w: &str| (w.starts_with("Tq") || w.starts_with("vq")) && w.len() > 2 && w[2..].chars().all(|c| c.is_ascii_digit());
    let defined_in = |m: &gen::MModule| -> BTreeSet<String> { m.assigns.iter().map(|a| a.name().to_string()).collect() };
    for m in &set.modules {
        let mut visible = defined_in(m);
        for (from, syms) in &m.imports {
            let Some(src) = set.modules.iter().find(|x| &x.name == from) else { return false };
            let there = defined_in(src);
            for s in syms {
                if !there.contains(s) {
                    return false;
                }
                visible.insert(s.clone());
            }
        }
        let text = set.render_modules(&[set.modules.iter().position(|x| x.name == m.name).unwrap()]).text;
        // the IMPORTS clause itself was checked above; look at the body only
        let body = text.split_once("::= BEGIN").map(|x| x.1).unwrap_or(&text);
        let body = match body.find("IMPORTS") {
            Some(p) => body[p..].split_once(';').map(|x| x.1).unwrap_or(""),
            None => body,
        };
        if !body.split(|c: char| !(c.is_alphanumeric() || c == '_')).filter(|w| is_name(w)).all(|w| visible.contains(w)) {
            return false;
        }
    }
    true
}

/// governing-type closures of every value (value assignments and DEFAULTs): the shrinker must not simplify a type under a
/// value, which would turn the input into ill-typed ASN.1 (outside the property's input space)
fn value_closures(set: &ModuleSet) -> BTreeMap<String, String> {
    use gen::{Addition, Assign, Optionality, Struct, Ty, TyKind};
    let env = set.type_env();
    fn closure(t: &Ty, env: &BTreeMap<String, (usize, Ty)>, seen: &mut Vec<String>, out: &mut String) {
        let mut toks = vec![];
        gen::ty_tokens(t, &mut toks);
        out.push_str(&toks.join(" "));
        for w in toks {
            if w.starts_with("Tq") && !seen.contains(&w) {
                seen.push(w.clone());
                if let Some((_, ty)) = env.get(&w) {
                    out.push_str(" ;; ");
                    closure(ty, env, seen, out);
                }
            }
        }
    }
    fn walk(t: &Ty, env: &BTreeMap<String, (usize, Ty)>, out: &mut BTreeMap<String, String>) {
        let comps = |s: &Struct| -> Vec<gen::Comp> {
            let mut v = s.root.clone();
            for a in s.ext.iter().flatten() {
                match a {
                    Addition::Comp(c) => v.push(c.clone()),
                    Addition::Group { comps, .. } => v.extend(comps.iter().cloned()),
                }
            }
            v.extend(s.root2.iter().cloned());
            v
        };
        match &t.kind {
            TyKind::Sequence(s) | TyKind::Set(s) | TyKind::Choice(s) => {
                for c in comps(s) {
                    if matches!(c.opt, Optionality::Default(_)) {
                        let mut o = String::new();
                        closure(&c.ty, env, &mut vec![], &mut o);
                        out.insert(format!("default:{}", c.name), o);
                    }
                    walk(&c.ty, env, out);
                }
            }
            TyKind::SeqOf(e) | TyKind::SetOf(e) => walk(e, env, out),
            _ => {}
        }
    }
    let mut out = BTreeMap::new();
    for m in &set.modules {
        for a in &m.assigns {
            match a {
                Assign::Value { name, ty, .. } => {
                    let mut o = String::new();
                    closure(ty, &env, &mut vec![], &mut o);
                    out.insert(name.clone(), o);
                    walk(ty, &env, &mut out);
                }
                Assign::Type { ty, .. } => walk(ty, &env, &mut out),
                _ => {}
            }
        }
    }
    out
}

fn shrink_for(set: &ModuleSet, cfg: &Cfg, class: &str, slot: usize) -> ModuleSet {
    let steps = std::cell::Cell::new(0usize);
    let orig = value_closures(set);
    gen::shrink(set, &|s| {
        if steps.get() >= 120 {
            return false;
        }
        if !refs_resolved(s) || !gen::tags_legal(s) || value_closures(s).iter().any(|(k, v)| orig.get(k) != Some(v)) {
            return false;
        }
        steps.set(steps.get() + 1);
        single(s, cfg, slot).map_or(false, |errs| classes_of(&errs).iter().any(|(c, _)| c == class))
    })
}

pub fn debug_one(seed: u64, idx: u64, do_shrink: bool) {
    let slot: usize = std::env::var("VSLOT").ok().and_then(|s| s.parse().ok()).unwrap_or(0);
    let cfg = cfg_for(idx);
    let set = gen::random_set(seed, 100, idx, &opts(idx));
    eprintln!("cfg = {}", cfg.to_json());
    match single(&set, &cfg, slot) {
        None => println!("not eligible"),
        Some(errs) => {
            let cl = classes_of(&errs);
            println!("classes: {cl:#?}");
            let set = if do_shrink && !cl.is_empty() { shrink_for(&set, &cfg, &cl[0].0, slot) } else { set };
            println!("{}", set.render().text);
            if let Some(e) = single(&set, &cfg, slot) {
                for d in e.iter().take(6) {
                    println!("  [{}] {} @{:?} {:?}", d.code, one_line(&d.msg, 300), d.item, d.features);
                }
            }
            let run = comp::rasn(&set.render_each(), &cfg);
            if let comp::Outcome::Ok { generated, .. } = &run.out {
                println!("---- generated ----\n{}", rustfmt(generated));
            }
        }
    }
}

fn rustfmt(text: &str) -> String {
    use std::io::Write;
    let Ok(mut ch) = Command::new("rustfmt").args(["--edition", "2021"]).stdin(Stdio::piped()).stdout(Stdio::piped()).stderr(Stdio::null()).spawn() else { return text.to_string() };
    let _ = ch.stdin.take().unwrap().write_all(text.as_bytes());
    match ch.wait_with_output() {
        Ok(o) if o.status.success() => String::from_utf8_lossy(&o.stdout).to_string(),
        _ => text.to_string(),
    }
}

pub fn debug_file(path: &str, flags: u64, show: bool) {
    let src = std::fs::read_to_string(path).expect("read");
    let cfg = cfg_for(flags);
    let run = comp::rasn(&[src], &cfg);
    match &run.out {
        comp::Outcome::Ok { generated, warnings } => {
            println!("warnings: {warnings:?}");
            match cargo_check_at(&slot_ws(0), &[(0, generated.clone())]) {
                Ok(p) => {
                    for d in p.get(&0).cloned().unwrap_or_default().iter().take(8) {
                        println!("  [{}] {} @{:?} {:?}", d.code, one_line(&d.msg, 400), d.item, d.features);
                    }
                    if p.is_empty() {
                        println!("TYPE-CHECKS");
                    }
                }
                Err(e) => println!("inconclusive: {e}"),
            }
            if show {
                println!("---- generated ----\n{}", rustfmt(generated));
            }
        }
        o => println!("{} {}", o.status(), o.brief()),
    }
}

pub fn debug_legal(seed: u64, n: u64) {
    let mut bad = 0;
    for i in 0..n {
        let set = gen::random_set(seed, 100, i, &opts(i));
        if !gen::tags_legal(&set) || !refs_resolved(&set) {
            bad += 1;
            if bad <= 3 {
                println!("idx {i}:\n{}", set.render().text);
            }
        }
    }
    println!("illegal-or-undecided: {bad} of {n}");
}

#[cfg(test)]
mod tests {
    use super::*;
    #[test]
    fn classes() {
        for (c, m) in [
            ("E0308", "mismatched types [expected `Option<Integer>`, found `Option<Option<_>>`]"),
            ("E0308", "mismatched types [expected `Integer`, found `i32`]"),
            ("E0308", "mismatched types [expected `AnonymousTq6`, found `()`]"),
            ("E0271", "expected `tq1_fq8_default` to return `Option<_>`, but it returns `BitVec<u8, Msb0>` [expected `Option<_>`, found `BitVec<u8, Msb0>`]"),
            ("E0277", "a value of type `case_70::mq2::AnonymousTq7` cannot be built from an iterator over elements of type `bool`"),
            ("E0277", "the trait bound `Box<Tq6ExtGroupFq32>: Constructed<_, _>` is not satisfied"),
            ("E0425", "cannot find type `ENUMERATED` in this scope"),
            ("E0425", "cannot find value `EQ35` in this scope [not found in this scope]"),
            ("E0080", "evaluation panicked: InnerTq2's variants is not unique, ensure that your variants' tags are correct. [evaluation of `<<case_150::mq1::Tq2 as rasn::Decode>::decode::InnerTq2 as rasn::AsnType>::TAG_TREE::{constant#0}::{constant#0}` failed here]"),
            ("no-code", "expected identifier, found `8`"),
            ("E0308", "mismatched types [expected `SetOf<AnonymousTq6>`, found `Vec<bool>`]"),
        ] {
            println!("{}", msg_class(c, m));
        }
    }
}
