//! C10 — no definition is lost silently; warnings are local; Err carries nothing (conservation over the hook event log).
use crate::c08::load_corpus;
use crate::comp::{self, Cfg};
use crate::core::*;
use crate::gen::{self, *};
use crate::oracle::rust_mod_name;
use crate::proj::{self, Module};
use rasn_compiler::verif_hooks::Event;
use serde_json::json;
use std::collections::{BTreeMap, BTreeSet};

pub fn const_name(v: &str) -> String {
    v.to_uppercase().replace('-', "_")
}

/// does generated item `item` belong to definition `def` (unique serial names: `Tq1` must not claim `Tq12…`)?
pub fn belongs(item: &str, def: &str) -> bool {
    let check = |s: &str, d: &str| -> bool {
        if let Some(rest) = s.strip_prefix(d) {
            !rest.chars().next().is_some_and(|c| c.is_ascii_digit())
        } else {
            false
        }
    };
    let stripped = item.strip_prefix("Anonymous").unwrap_or(item);
    check(stripped, def) || check(item, &def.to_lowercase()) || check(item, &const_name(def))
}

pub fn items_of<'a>(m: &'a Module, def: &str) -> Vec<&'a proj::Item> {
    m.items.iter().filter(|i| !matches!(i.kind, proj::Kind::Use(_) | proj::Kind::Other) && belongs(i.name.trim_start_matches("impl ").split(" for ").last().unwrap_or(&i.name), def)).collect()
}

#[derive(Default)]
struct Inventory {
    /// (module, name) -> (kind, parameterized)
    lexed: BTreeMap<(String, String), (String, bool)>,
    outcome: BTreeMap<(String, String), (String, usize)>,
    overwritten: Vec<(String, String, String)>,
}

fn inventory(events: &[Event]) -> Inventory {
    let mut inv = Inventory::default();
    for e in events {
        match e {
            Event::Lexed { module, name, kind, parameterized } => {
                inv.lexed.insert((module.clone(), name.clone()), (kind.to_string(), *parameterized));
            }
            Event::TldOutcome { module, name, outcome, tokens, .. } => {
                inv.outcome.insert((module.clone(), name.clone()), (outcome.to_string(), *tokens));
            }
            Event::Keyed { name, module, replaced_module } => inv.overwritten.push((name.clone(), module.clone(), replaced_module.clone())),
            _ => {}
        }
    }
    inv
}

/// Conservation over one Ok compilation. `model_names`: for G inputs, the names the generator put in (module, name, is_type).
fn conservation(run: &comp::Run, mods: Option<&[Module]>, model: Option<&ModuleSet>, origin: &str, value_kinds: &BTreeMap<String, String>, rep: &mut Report) {
    let inv = inventory(&run.events);
    let warnings = run.out.warnings().join("\n");
    rep.count("hook_events[Lexed]", inv.lexed.len() as u64);
    rep.count("hook_events[TldOutcome]", inv.outcome.len() as u64);
    rep.count("hook_events[Keyed]", inv.overwritten.len() as u64);
    // every failed generation (H5 Err) must surface as one returned generator warning
    let h5_err = inv.outcome.values().filter(|(o, _)| o == "Err").count();
    let returned = run.out.warnings().iter().filter(|w| w.contains("while generating bindings")).count();
    rep.count("generator_warnings_returned", returned as u64);
    if returned < h5_err {
        rep.violations.push(Violation {
            sig: "c10|warnings-dropped".into(),
            what: format!("{h5_err} definitions failed in the generator but only {returned} generator warnings were returned [{origin}]"),
            replay: json!({"origin": origin}),
        });
    }
    // H1 must agree with the model for generated inputs
    if let Some(set) = model {
        let want: BTreeSet<(String, String)> = set.modules.iter().flat_map(|m| m.assigns.iter().map(move |a| (m.name.clone(), a.name().to_string()))).collect();
        let got: BTreeSet<(String, String)> = inv.lexed.keys().cloned().collect();
        if want != got {
            let missing: Vec<_> = want.difference(&got).take(3).collect();
            let extra: Vec<_> = got.difference(&want).take(3).collect();
            rep.violations.push(Violation {
                sig: "c10|parsed-inventory-differs-from-input".into(),
                what: format!("parsed definitions differ from the definitions of the input: missing {missing:?}, extra {extra:?} [{origin}]"),
                replay: json!({"origin": origin}),
            });
        }
    }
    // ... and every definition must have been read as the kind of definition it is (a value that is taken for an information
    // object counts as "silent by documentation" below and would vanish unnoticed)
    if let Some(set) = model {
        let classes: BTreeSet<&str> = set.modules.iter().flat_map(|m| m.assigns.iter()).filter_map(|a| match a {
            Assign::Raw { name, tokens } if tokens.iter().any(|t| t == "CLASS") && tokens.get(1).is_some_and(|t| t == "::=") => Some(name.as_str()),
            _ => None,
        }).collect();
        for m in &set.modules {
            for a in &m.assigns {
                let expected = match a {
                    Assign::Type { .. } => "Type",
                    Assign::Value { .. } => "Value",
                    Assign::Raw { name, tokens } => {
                        let upper = name.starts_with(|c: char| c.is_uppercase());
                        let governed_by_class = tokens.get(1).is_some_and(|t| classes.contains(t.as_str()));
                        if tokens.iter().any(|t| t == "MACRO") {
                            continue;
                        } else if upper && tokens.get(1).is_some_and(|t| t == "::=") && tokens.iter().any(|t| t == "CLASS") {
                            "Class"
                        } else if upper && !governed_by_class {
                            "Type"
                        } else if !upper && !governed_by_class {
                            "Value"
                        } else {
                            continue;
                        }
                    }
                };
                let Some((kind, _)) = inv.lexed.get(&(m.name.clone(), a.name().to_string())) else { continue };
                rep.count("definition_kinds_compared", 1);
                if kind != expected {
                    let governing = match a {
                        Assign::Raw { tokens, .. } => tokens.get(1).cloned().unwrap_or_default(),
                        _ => String::new(),
                    };
                    let gclass = if ["REAL", "RELATIVE-OID", "INTEGER", "BOOLEAN", "NULL", "EXTERNAL"].contains(&governing.as_str()) { "built-in-type-keyword" } else if !governing.is_empty() && governing.chars().all(|c| c.is_ascii_uppercase() || c.is_ascii_digit() || c == '-') { "type-reference-in-capitals" } else { "other" };
                    rep.violations.push(Violation {
                        sig: format!("c10|read-as-other-kind|{expected}-as-{kind}|governing={gclass}"),
                        what: format!("definition {}.{} is a {expected} assignment, the compiler read it as {kind}{} [{origin}]", m.name, a.name(), if governing.is_empty() { String::new() } else { format!(" (governing type `{governing}`)") }),
                        replay: json!({"origin": origin, "definition": a.name()}),
                    });
                }
            }
        }
    }
    for ((module, name), (kind, parameterized)) in &inv.lexed {
        rep.count("definitions_accounted", 1);
        let key = (module.clone(), name.clone());
        let silent_by_doc = *parameterized || matches!(kind.as_str(), "Class" | "Object" | "ObjectSet");
        let out = inv.outcome.get(&key);
        let named_in_warning = warnings.contains(&format!("PDU {name}:")) || warnings.contains(&format!("for {name}:")) || warnings.contains(&format!("'{name}'"));
        let status = match out {
            Some((o, n)) if o == "Tokens" && *n > 0 => "emitted",
            Some((o, _)) if o == "Err" => "warned",
            _ if named_in_warning => "warned",
            _ if silent_by_doc => "silent-by-documentation",
            Some((o, _)) if o == "Empty" => "LOST:empty-output",
            Some(_) => "LOST:empty-output",
            None => "LOST:never-generated",
        };
        rep.count(&format!("definitions[{}]", status.split(':').next().unwrap()), 1);
        // for generated inputs: an "emitted" definition must be present under its own name
        if status == "emitted" {
            if let (Some(mods), Some(_)) = (mods, model) {
                let rm = mods.iter().find(|m| m.name == rust_mod_name(module));
                let present = rm.is_some_and(|m| m.items.iter().any(|i| i.name == *name || i.name == const_name(name)));
                rep.count("emitted_names_checked", 1);
                if !present {
                    rep.violations.push(Violation {
                        sig: format!("c10|emitted-under-other-name|{kind}"),
                        what: format!("definition {module}.{name} produced tokens but no item named `{name}` / `{}` exists [{origin}]", const_name(name)),
                        replay: json!({"origin": origin, "definition": name}),
                    });
                }
            }
        }
        if let Some(lost) = status.strip_prefix("LOST:") {
            let dup = inv.overwritten.iter().any(|(n, a, b)| n == name && (a == module || b == module));
            let detail = if dup {
                "duplicate-name-across-modules".to_string()
            } else if kind == "Value" {
                format!("value:{}", value_kinds.get(name).cloned().unwrap_or_else(|| "unmodelled".into()))
            } else {
                kind.to_string()
            };
            rep.violations.push(Violation {
                sig: format!("c10|lost-silently|{lost}|{detail}"),
                what: format!("definition {module}.{name} ({kind}) is neither emitted, nor warned about, nor of a category documented as silent [{origin}]"),
                replay: json!({"origin": origin, "definition": name, "module": module}),
            });
        }
    }
}

/// conservation for the TypeScript backend: parsed inventory (H1) = emitted (H5 with text) u warned (H5 Err / named in a
/// warning) u documented-silent
fn conservation_ts(run: &comp::Run, set: &ModuleSet, origin: &str, value_kinds: &BTreeMap<String, String>, rep: &mut Report) {
    let inv = inventory(&run.events);
    let warnings = run.out.warnings().join("\n");
    let n_warn = run.out.warnings().len();
    let h5_err = inv.outcome.values().filter(|(o, _)| o == "Err").count();
    rep.count("typescript_hook_events[TldOutcome]", inv.outcome.len() as u64);
    if n_warn < h5_err {
        rep.violations.push(Violation { sig: "c10|typescript|warnings-dropped".into(), what: format!("{h5_err} definitions failed in the TypeScript generator but only {n_warn} warnings were returned [{origin}]"), replay: json!({"origin": origin, "asn1": set.render().text}) });
    }
    for ((module, name), (kind, parameterized)) in &inv.lexed {
        rep.count("typescript_definitions_accounted", 1);
        let key = (module.clone(), name.clone());
        let silent_by_doc = *parameterized || matches!(kind.as_str(), "Class" | "Object" | "ObjectSet");
        let named_in_warning = warnings.contains(&format!("PDU {name}:")) || warnings.contains(&format!("for {name}:")) || warnings.contains(&format!("'{name}'"));
        let status = match inv.outcome.get(&key) {
            Some((o, n)) if o == "Tokens" && *n > 0 => "emitted",
            Some((o, _)) if o == "Err" => "warned",
            _ if named_in_warning => "warned",
            _ if silent_by_doc => "silent-by-documentation",
            Some(_) => "LOST:empty-output",
            None => "LOST:never-generated",
        };
        rep.count(&format!("typescript_definitions[{}]", status.split(':').next().unwrap()), 1);
        if let Some(lost) = status.strip_prefix("LOST:") {
            let dup = inv.overwritten.iter().any(|(n, a, b)| n == name && (a == module || b == module));
            let detail = if dup {
                "duplicate-name-across-modules".to_string()
            } else if kind == "Value" {
                format!("value:{}", value_kinds.get(name).cloned().unwrap_or_else(|| "unmodelled".into()))
            } else {
                kind.to_string()
            };
            rep.violations.push(Violation {
                sig: format!("c10|typescript|lost-silently|{lost}|{detail}"),
                what: format!("TypeScript backend: definition {module}.{name} ({kind}) is neither emitted, nor warned about, nor of a category documented as silent [{origin}]"),
                replay: json!({"origin": origin, "definition": name, "module": module, "asn1": set.render().text}),
            });
        }
    }
}

fn value_kind(ty: &Ty, val: &Val, env: &BTreeMap<String, (usize, Ty)>) -> String {
    let t = resolve(env, ty).map(|t| crate::oracle::model_kind_name(&t.kind)).unwrap_or("?");
    let v = match val {
        Val::Int(_) => "int",
        Val::Bool(_) => "bool",
        Val::Null => "null",
        Val::Str(_) => "cstring",
        Val::BitsB(_) => "bstring",
        Val::BitsH(_) | Val::OctetsH(_) => "hstring",
        Val::NamedBits(_) => "named-bits",
        Val::Ident(_) => "identifier",
        Val::Oid(_) => "oid",
        Val::Choice(..) => "choice",
        Val::Seq(_) => "sequence",
        Val::List(_) => "list",
    };
    format!("{t}/{v}{}", if matches!(ty.kind, TyKind::Ref { .. }) { "/via-reference" } else { "" })
}

fn opts() -> GenOpts {
    GenOpts { modules: (1, 4), assigns: (1, 12), max_depth: 3, max_comps: 5, structured_values: true, ..GenOpts::default() }
}

const FAULTS: [&str; 6] = ["REAL", "VideotexString", "inverted-range", "real-value", "MACRO", "time-type"];

fn fault_assign(kind: usize, serial: usize) -> Assign {
    match kind {
        0 => Assign::Raw { name: format!("Tq{serial}"), tokens: format!("Tq{serial} ::= REAL").split(' ').map(String::from).collect() },
        1 => Assign::Raw { name: format!("Tq{serial}"), tokens: format!("Tq{serial} ::= VideotexString").split(' ').map(String::from).collect() },
        2 => Assign::Raw { name: format!("Tq{serial}"), tokens: format!("Tq{serial} ::= INTEGER ( 10 .. 0 )").split(' ').map(String::from).collect() },
        3 => Assign::Raw { name: format!("vq{serial}"), tokens: format!("vq{serial} REAL ::= 3.14").split(' ').map(String::from).collect() },
        4 => Assign::Raw {
            name: format!("MQ{serial}"),
            tokens: format!("MQ{serial} MACRO ::= BEGIN TYPE NOTATION ::= \"X\" VALUE NOTATION ::= value (VALUE INTEGER) END").split(' ').map(String::from).collect(),
        },
        _ => Assign::Raw { name: format!("Tq{serial}"), tokens: format!("Tq{serial} ::= TIME").split(' ').map(String::from).collect() },
    }
}

/// names that (transitively) depend on any of `roots` in the model's reference graph (types and values)
fn dependents(set: &ModuleSet, roots: &BTreeSet<String>) -> BTreeSet<String> {
    // identifiers anywhere inside a value (lists, records, CHOICE values): a value reference, a named number or an enumeral —
    // counting the latter two as "uses" only enlarges the dependency cone, which is the safe direction
    fn names_in_val(v: &Val, out: &mut BTreeSet<String>) {
        match v {
            Val::Ident(x) => {
                out.insert(x.clone());
            }
            Val::Choice(_, inner) => names_in_val(inner, out),
            Val::Seq(fs) => fs.iter().for_each(|(_, x)| names_in_val(x, out)),
            Val::List(xs) => xs.iter().for_each(|x| names_in_val(x, out)),
            _ => {}
        }
    }
    fn names_in_ty(t: &Ty, out: &mut BTreeSet<String>) {
        match &t.kind {
            TyKind::Ref { name, .. } => {
                out.insert(name.clone());
            }
            TyKind::Sequence(s) | TyKind::Set(s) | TyKind::Choice(s) => {
                for c in crate::oracle::all_comps(s) {
                    names_in_ty(&c.ty, out);
                    if let Optionality::Default(v) = &c.opt {
                        names_in_val(v, out);
                    }
                }
            }
            TyKind::SeqOf(e) | TyKind::SetOf(e) => names_in_ty(e, out),
            _ => {}
        }
    }
    let mut uses: BTreeMap<String, BTreeSet<String>> = BTreeMap::new();
    for m in &set.modules {
        for a in &m.assigns {
            let mut u = BTreeSet::new();
            match a {
                Assign::Type { ty, .. } => names_in_ty(ty, &mut u),
                Assign::Value { ty, val, .. } => {
                    names_in_ty(ty, &mut u);
                    names_in_val(val, &mut u);
                }
                Assign::Raw { .. } => {}
            }
            uses.insert(a.name().to_string(), u);
        }
    }
    let mut dep: BTreeSet<String> = roots.clone();
    loop {
        let before = dep.len();
        for (n, u) in &uses {
            if u.iter().any(|x| dep.contains(x)) {
                dep.insert(n.clone());
            }
        }
        if dep.len() == before {
            break;
        }
    }
    dep
}

fn check_g(seed: u64, idx: u64, rep: &mut Report) {
    let set = gen::random_set(seed, 1000, idx, &opts());
    let origin = format!("G(seed={seed},salt=1000,idx={idx})");
    let env = set.type_env();
    let mut vk = BTreeMap::new();
    for m in &set.modules {
        for a in &m.assigns {
            if let Assign::Value { name, ty, val } = a {
                vk.insert(name.clone(), value_kind(ty, val, &env));
            }
        }
    }
    let cfg = Cfg::default_cfg();
    let base = comp::rasn(&[set.render().text], &cfg);
    rep.evaluations += 1;
    rep.count(&format!("g_compilations[{}]", base.out.status()), 1);
    let comp::Outcome::Ok { generated, .. } = &base.out else { return };
    let Ok(base_mods) = proj::project(generated) else { return };
    rep.nontrivial.insert(hash_of(&set));
    conservation(&base, Some(&base_mods), Some(&set), &origin, &vk, rep);
    // ---- delivery: the same sources, in the same order, handed over through other chains of the builder API (literals,
    // single paths, lists of paths, output mode set before / between / after). Nothing may get lost on the way: the parsed
    // inventory and the bindings must be those of the all-literals chain.
    if idx % 2 == 0 {
        let srcs = set.render_each();
        let lit = comp::rasn(&srcs, &cfg);
        rep.evaluations += 1;
        for trial in 0..2u64 {
            let mut rng = Rng::for_case(seed, 1010 + trial, idx);
            let mut plan = vec![];
            let mut i = 0;
            while i < srcs.len() {
                match rng.below(4) {
                    0 => {
                        plan.push(comp::Step::Literal(i));
                        i += 1;
                    }
                    1 => {
                        plan.push(comp::Step::Path(i));
                        i += 1;
                    }
                    _ => {
                        let k = 1 + rng.below(3).min(srcs.len() - i - 1);
                        plan.push(comp::Step::Paths((i..i + k).collect()));
                        i += k;
                    }
                }
            }
            if rng.chance(2, 3) {
                let at = rng.below(plan.len() + 1);
                plan.insert(at, comp::Step::SetOutput);
            }
            let ts = trial == 1 && idx % 4 == 0;
            let reference = if ts { comp::ts(&srcs) } else { comp::rasn(&srcs, &cfg) };
            let run = comp::delivered(&srcs, &cfg, &plan, ts);
            rep.evaluations += 1;
            rep.count("delivery_chains_compared", 1);
            let shape: Vec<&str> = plan
                .iter()
                .map(|s| match s {
                    comp::Step::Literal(_) => "literal",
                    comp::Step::Path(_) => "path",
                    comp::Step::Paths(_) => "paths",
                    comp::Step::SetOutput => "output",
                })
                .collect();
            rep.note("delivery_chain_shapes", shape.join(">"));
            let inv = |r: &comp::Run| inventory(&r.events).lexed.len();
            let same = match (&reference.out, &run.out) {
                (comp::Outcome::Ok { generated: a, warnings: wa }, comp::Outcome::Ok { generated: b, warnings: wb }) => a == b && wa.len() == wb.len(),
                (a, b) => a.status() == b.status(),
            };
            if !same || inv(&reference) != inv(&run) {
                let lost = inv(&run) < inv(&reference);
                // the step after which something differs is part of the signature: the pair (previous step kind, this step kind)
                rep.violations.push(Violation {
                    sig: format!("c10|delivery|{}|{}", if lost { "definitions-never-parsed" } else { "result-differs" }, if ts { "typescript" } else { "rasn" }),
                    what: format!("chain {} yields {} ({} parsed definitions), the all-literals chain {} ({} parsed definitions) [{origin}]", shape.join(">"), run.out.brief(), inv(&run), reference.out.brief(), inv(&reference)),
                    replay: json!({"origin": origin, "plan": format!("{plan:?}"), "sources": srcs}),
                });
            }
        }
        let _ = lit;
    }
    // ---- definitions the generator never spells: two names that mangle to the same Rust identifier (types and values),
    // and a value governed by a fixed-type class field; every one of them must still be emitted or warned about
    if idx % 3 == 0 {
        let mut extra = set.clone();
        let raw = |name: &str, text: &str| Assign::Raw { name: name.to_string(), tokens: text.split(' ').map(String::from).collect() };
        let m0 = &mut extra.modules[0].assigns;
        m0.push(raw("Speed-Limit", "Speed-Limit ::= INTEGER ( 0 .. 300 )"));
        m0.push(raw("SpeedLimit", "SpeedLimit ::= BOOLEAN"));
        m0.push(raw("max-retries", "max-retries INTEGER ::= 3"));
        m0.push(raw("maxRetries", "maxRetries INTEGER ::= 4"));
        m0.push(raw("CLSX9", "CLSX9 ::= CLASS { &id INTEGER UNIQUE } WITH SYNTAX { ID &id }"));
        m0.push(raw("vcf9", "vcf9 CLSX9.&id ::= 5"));
        // braced values whose governing type is spelled in capitals (a keyword, a user type): they are values, not objects
        m0.push(raw("vro9", "vro9 RELATIVE-OID ::= { 1 2 }"));
        m0.push(raw("vre9", "vre9 REAL ::= { mantissa 1 , base 10 , exponent 0 }"));
        m0.push(raw("PDUX9", "PDUX9 ::= SEQUENCE { a INTEGER , b BOOLEAN }"));
        m0.push(raw("vpd9", "vpd9 PDUX9 ::= { a 1 , b TRUE }"));
        let run = comp::rasn(&[extra.render().text], &cfg);
        rep.evaluations += 1;
        rep.count(&format!("extra_definition_compilations[{}]", run.out.status()), 1);
        if matches!(run.out, comp::Outcome::Ok { .. }) {
            conservation(&run, None, Some(&extra), &format!("{origin}+homonyms-after-mangling+class-field-value"), &vk, rep);
        }
    }
    // ---- the TypeScript backend: same accounting on its own hook log (H1 + H5 of that backend), on the input as it is and
    // with one parseable-but-unsupported definition appended
    {
        let mut with_fault = set.clone();
        let k = (idx % FAULTS.len() as u64) as usize;
        with_fault.modules[0].assigns.push(fault_assign(k, 900_000 + idx as usize));
        for (s, o) in [(&set, format!("{origin}+typescript")), (&with_fault, format!("{origin}+typescript+{}", FAULTS[k]))] {
            let run = comp::ts(&[s.render().text]);
            rep.evaluations += 1;
            rep.count(&format!("typescript_compilations[{}]", run.out.status()), 1);
            if matches!(run.out, comp::Outcome::Ok { .. }) {
                conservation_ts(&run, s, &o, &vk, rep);
            }
        }
    }
    if rep.samples.len() < 3 && idx % 131 == 3 {
        rep.sample(json!({"origin": origin, "definitions": set.modules.iter().map(|m| m.assigns.len()).sum::<usize>(), "warnings": base.out.warnings().len()}));
    }
    // ---- the same name in two modules (every fifth multi-module input): a copy of a self-contained definition of module 1 is added to module 2
    if set.modules.len() >= 2 && idx % 5 == 0 {
        if let Some(a) = set.modules[0].assigns.iter().find(|a| matches!(a, Assign::Type { ty, .. } if matches!(ty.kind, TyKind::Boolean | TyKind::Null | TyKind::Integer { .. } | TyKind::OctetString))) {
            let mut dup = set.clone();
            dup.modules[1].assigns.push(a.clone());
            let run = comp::rasn(&[dup.render().text], &cfg);
            rep.evaluations += 1;
            rep.count(&format!("duplicate_name_compilations[{}]", run.out.status()), 1);
            if let comp::Outcome::Ok { generated: g3, .. } = &run.out {
                if let Ok(m3) = proj::project(g3) {
                    conservation(&run, Some(&m3), Some(&dup), &format!("{origin}+same-name-in-two-modules"), &vk, rep);
                }
            }
        }
    }
    // ---- locality under 1..3 replacements by parseable-but-unsupported definitions
    let mut rng = Rng::for_case(seed, 1001, idx);
    let all: Vec<(usize, usize)> = set.modules.iter().enumerate().flat_map(|(mi, m)| (0..m.assigns.len()).map(move |ai| (mi, ai))).collect();
    if all.is_empty() {
        return;
    }
    for trial in 0..3 {
        let k = 1 + rng.below(3.min(all.len()));
        let mut picks = all.clone();
        rng.shuffle(&mut picks);
        picks.truncate(k);
        let mut faulted = set.clone();
        let mut replaced = BTreeSet::new();
        let mut fault_names = vec![];
        for (j, (mi, ai)) in picks.iter().enumerate() {
            replaced.insert(set.modules[*mi].assigns[*ai].name().to_string());
            let fk = rng.below(FAULTS.len());
            let mut fa = fault_assign(fk, 9000 + trial * 10 + j);
            // half of the type faults keep the name of the type they replace: its users then refer to a definition the
            // compiler rejects (they are dependents, exempt from the locality comparison, but must still be accounted for)
            if let (Assign::Type { name: old, .. }, Assign::Raw { name, tokens }, true) = (&set.modules[*mi].assigns[*ai], &mut fa, matches!(fk, 0 | 1 | 2 | 5) && rng.chance(1, 2)) {
                tokens[0] = old.clone();
                *name = old.clone();
                rep.count("faults_that_keep_the_name_of_a_referenced_type", 1);
            }
            faulted.modules[*mi].assigns[*ai] = fa;
            fault_names.push(FAULTS[fk]);
        }
        // imports of replaced symbols would now dangle: drop them from the import lists (the importing definitions are dependents anyway)
        for m in faulted.modules.iter_mut() {
            for (_, syms) in m.imports.iter_mut() {
                syms.retain(|s| !replaced.contains(s));
            }
            m.imports.retain(|(_, s)| !s.is_empty());
        }
        let dep = dependents(&set, &replaced);
        let run = comp::rasn(&[faulted.render().text], &cfg);
        rep.evaluations += 1;
        rep.count(&format!("faulted_compilations[{}]", run.out.status()), 1);
        let comp::Outcome::Ok { generated: g2, .. } = &run.out else { continue };
        let Ok(mods2) = proj::project(g2) else { continue };
        conservation(&run, Some(&mods2), Some(&faulted), &format!("{origin}+faults{fault_names:?}"), &vk, rep);
        // every independent definition keeps identical items
        for (mi, m) in set.modules.iter().enumerate() {
            let rn = rust_mod_name(&m.name);
            let (Some(b), Some(f)) = (base_mods.iter().find(|x| x.name == rn), mods2.iter().find(|x| x.name == rn)) else {
                // a module may legitimately disappear only if all its definitions were replaced / dependent
                let indep: Vec<&str> = m.assigns.iter().map(|a| a.name()).filter(|n| !dep.contains(*n)).collect();
                if !indep.is_empty() && base_mods.iter().any(|x| x.name == rn) {
                    rep.violations.push(Violation {
                        sig: "c10|locality|module-vanished".into(),
                        what: format!("module {} vanished after replacing {replaced:?} by {fault_names:?} although {indep:?} do not depend on them [{origin}]", m.name),
                        replay: json!({"origin": origin, "faulted": faulted.render().text}),
                    });
                }
                let _ = mi;
                continue;
            };
            for a in &m.assigns {
                let n = a.name();
                if dep.contains(n) {
                    continue;
                }
                rep.count("independent_definitions_compared", 1);
                let tb: Vec<&str> = items_of(b, n).iter().map(|i| i.text.as_str()).collect();
                let tf: Vec<&str> = items_of(f, n).iter().map(|i| i.text.as_str()).collect();
                if tb != tf {
                    let kind = if tf.is_empty() { "removed" } else { "altered" };
                    rep.violations.push(Violation {
                        sig: format!("c10|locality|{kind}"),
                        what: format!("bindings of {}.{n} {kind} after replacing {replaced:?} by {fault_names:?} (it does not depend on them) [{origin}]", m.name),
                        replay: json!({"origin": origin, "faulted": faulted.render().text, "definition": n, "before": tb, "after": tf}),
                    });
                }
            }
        }
    }
}

pub fn run(ctx: &Ctx) -> Report {
    let mut rep = Report::new(
        "exploration",
        "inputs: grammar-G module sets (1..4 modules, 1..12 assignments each incl. value assignments of every generated form) and the 892 real-world modules. Conservation per Ok compilation over the hook log: every parsed top-level assignment (H1) is emitted with tokens (H5, and for generated inputs present under its own name in the syn projection), or produced a warning (H5 Err outcome / named by a linker warning), or is of a kind documented as silent (class, object, object set, parameterized template); the parsed inventory must equal the generator's inventory. Delivery: for every second input the modules are also handed over, in the same order, through two random chains of the builder API (add_asn_literal / add_asn_by_path / add_asn_sources_by_path in any mixture, set_output_mode(NoOutput) before, between or after; both backends) and the parsed inventory and the bindings must equal those of the all-literals chain. Locality: 3 fault trials per input replace 1..3 assignments by parseable-but-unsupported definitions {REAL, VideotexString, inverted range, REAL value, MACRO, TIME}; every definition that does not depend (model reference graph incl. DEFAULT value references) on a replaced one must keep byte-identical token-normalised items. Non-trivial = Ok compilation with its hook log judged; distinct by model hash / corpus file.",
    );
    rep.must_observe = vec!["hook_events[Lexed]".into(), "hook_events[TldOutcome]".into(), "independent_definitions_compared".into(), "definitions[warned]".into(), "delivery_chains_compared".into()];
    rep.assumptions = vec!["hooks H1/H2/H5 (feature verif-hooks) report faithfully".into(), "items are attributed to definitions by the unique serial names".into()];
    if let Some(path) = &ctx.replay {
        let doc: serde_json::Value = serde_json::from_str(&std::fs::read_to_string(path).expect("replay")).expect("json");
        let origin = doc["case"]["origin"].as_str().unwrap_or("").to_string();
        let nums: Vec<u64> = origin.split(|c: char| !c.is_ascii_digit()).filter(|s| !s.is_empty()).filter_map(|s| s.parse().ok()).collect();
        if origin.starts_with("G(") && nums.len() >= 3 {
            check_g(nums[0], nums[2], &mut rep);
        } else {
            rep.inconclusive.push(format!("corpus case `{origin}`: re-run the check"));
        }
        return rep;
    }
    let seed = ctx.seed;
    let n = ctx.pick(1200u64, 40_000);
    let acc = Acc::new(rep);
    par_for(n, |i| {
        let mut local = Report::default();
        check_g(seed, i, &mut local);
        acc.with(|r| r.merge(local));
    });
    // corpus: conservation only
    let corpus = load_corpus();
    let files: Vec<&(String, String)> = corpus.files.iter().filter(|f| f.1.len() <= ctx.pick(30_000usize, 400_000)).collect();
    par_for(files.len() as u64, |i| {
        let (name, src) = files[i as usize];
        let mut local = Report::default();
        let run = comp::rasn(&[src.clone()], &Cfg::default_cfg());
        local.evaluations += 1;
        local.count(&format!("corpus_compilations[{}]", run.out.status()), 1);
        if run.out.is_ok() {
            local.nontrivial.insert(hash_str(name));
            conservation(&run, None, None, name, &BTreeMap::new(), &mut local);
        }
        acc.with(|r| r.merge(local));
    });
    acc.into_inner()
}
