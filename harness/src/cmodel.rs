//! Shared driver for the reference-model checks over grammar G (C02, C03 random part, C05).
use crate::comp::{self, Cfg};
use crate::core::*;
use crate::gen::{self, GenOpts, ModuleSet};
use crate::oracle::{Disc, Oracle};
use crate::proj;
use serde_json::json;
use std::collections::BTreeMap;
use std::sync::Mutex;

pub struct Judged {
    pub discs: Vec<Disc>,
    pub counters: BTreeMap<&'static str, u64>,
    pub status: String,
}

/// compile + project + run the oracle; None when the case is not a claim (not Ok / warnings / unparsable)
pub fn judge(set: &ModuleSet, cfg: &Cfg) -> Judged {
    let text = set.render().text;
    let run = comp::rasn(&[text], cfg);
    match &run.out {
        comp::Outcome::Ok { generated, warnings } if warnings.is_empty() => match proj::project(generated) {
            Ok(mods) => {
                let mut o = Oracle::new(set, &mods);
                o.run();
                Judged { discs: o.out, counters: o.counters, status: "Ok".into() }
            }
            Err(e) => Judged { discs: vec![], counters: BTreeMap::new(), status: format!("unparsable: {e}") },
        },
        comp::Outcome::Ok { .. } => Judged { discs: vec![], counters: BTreeMap::new(), status: "warnings".into() },
        o => Judged { discs: vec![], counters: BTreeMap::new(), status: o.status().to_string() },
    }
}

pub fn sig_of(prop: &str, d: &Disc) -> String {
    format!("{}|{}|{}", prop.to_lowercase(), d.kind, d.key)
}

/// Run `n` random sets; collect discrepancies of property `prop`.
pub fn run_random(ctx: &Ctx, prop: &'static str, salt: u64, n: u64, opts: &GenOpts, rep: Report) -> Report {
    let acc = Acc::new(rep);
    let seed = ctx.seed;
    let shrunk: Mutex<std::collections::BTreeSet<String>> = Mutex::new(Default::default());
    par_for(n, |i| {
        let set = gen::random_set(seed, salt, i, opts);
        let mut local = Report::default();
        check_one(&set, prop, &format!("G(seed={seed},salt={salt},idx={i})"), &shrunk, &mut local);
        acc.with(|r| r.merge(local));
    });
    acc.into_inner()
}

pub fn check_one(set: &ModuleSet, prop: &'static str, origin: &str, shrunk: &Mutex<std::collections::BTreeSet<String>>, rep: &mut Report) {
    let cfg = Cfg::default_cfg();
    let t0 = std::time::Instant::now();
    let j = judge(set, &cfg);
    if t0.elapsed().as_secs() >= 3 {
        eprintln!("SLOW-CASE {origin}: {:.1}s", t0.elapsed().as_secs_f64());
        rep.count("slow_compilations(>3s)", 1);
    }
    rep.evaluations += 1;
    rep.count(&format!("compilations[{}]", j.status.split(':').next().unwrap_or("")), 1);
    if j.status != "Ok" {
        return;
    }
    for (k, v) in &j.counters {
        rep.count(k, *v);
    }
    rep.nontrivial.insert(hash_of(set));
    if hash_of(set) % 40 == 0 {
        rep.sample(json!({"origin": origin, "asn1": one_line(&set.render().text, 500), "observations": j.counters}));
    }
    let mine: Vec<&Disc> = j.discs.iter().filter(|d| d.prop == prop).collect();
    let mut seen = std::collections::BTreeSet::new();
    for d in mine {
        let sig = sig_of(prop, d);
        if !seen.insert(sig.clone()) {
            continue;
        }
        // minimal witness for the first occurrence of each signature in this run
        let first = shrunk.lock().map(|mut s| s.insert(sig.clone())).unwrap_or(false);
        let (wit, detail) = if first {
            let (kind, key) = (d.kind.clone(), d.key.clone());
            let m = gen::shrink(set, &|s| judge(s, &cfg).discs.iter().any(|x| x.prop == prop && x.kind == kind && x.key == key));
            let dj = judge(&m, &cfg);
            let det = dj.discs.iter().find(|x| x.prop == prop && x.kind == kind && x.key == key).map(|x| x.detail.clone()).unwrap_or_else(|| d.detail.clone());
            (m.render().text, det)
        } else {
            (set.render().text, d.detail.clone())
        };
        rep.violations.push(Violation { sig, what: format!("{detail} :: {}", one_line(&wit, 400)), replay: json!({"origin": origin, "asn1": wit, "detail": detail, "prop": prop}) });
    }
}

/// Replay: recompile the recorded ASN.1 text is not possible without the model; the replay file stores the generator
/// coordinates in `origin`, so the case is regenerated and re-judged.
pub fn replay(ctx: &Ctx, prop: &'static str, opts_for_salt: &dyn Fn(u64) -> GenOpts, special: &dyn Fn(&str) -> Option<ModuleSet>, mut rep: Report) -> Report {
    let path = ctx.replay.as_ref().unwrap();
    let doc: serde_json::Value = serde_json::from_str(&std::fs::read_to_string(path).expect("replay")).expect("json");
    let origin = doc["case"]["origin"].as_str().unwrap_or("").to_string();
    let set = if let Some(s) = special(&origin) {
        Some(s)
    } else if let Some(rest) = origin.strip_prefix("G(seed=") {
        let nums: Vec<u64> = rest.trim_end_matches(')').split(|c: char| !c.is_ascii_digit()).filter(|s| !s.is_empty()).filter_map(|s| s.parse().ok()).collect();
        if nums.len() == 3 {
            Some(gen::random_set(nums[0], nums[1], nums[2], &opts_for_salt(nums[1])))
        } else {
            None
        }
    } else {
        None
    };
    match set {
        Some(set) => {
            let shrunk = Mutex::new(Default::default());
            check_one(&set, prop, &origin, &shrunk, &mut rep);
        }
        None => rep.inconclusive.push(format!("cannot regenerate case from origin `{origin}`")),
    }
    rep
}
