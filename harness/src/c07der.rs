//! C07, DER level (observation channel O6): generated constants and DEFAULT values are DER-encoded *by the compiled
//! bindings* (rasn 0.27 runtime) and the bytes are decoded by a small primitive-type DER reader of the harness back into an
//! abstract value, which must equal the value the source denotes. Independent of the symbolic evaluator of c07.rs: it sees
//! what the emitted expression really evaluates to (constructor semantics of the runtime, panics on first use, ...).
use crate::c01;
use crate::c07::{equal, gen_case, Case, AV};
use crate::comp;
use crate::core::*;
use crate::proj::{self, Kind};
use serde_json::json;
use std::collections::BTreeMap;

const RUNNER: &str = r#"
fn hex(b: &[u8]) -> String {
    b.iter().map(|x| format!("{x:02x}")).collect()
}
fn emit<T: rasn::Encode>(id: &str, f: impl FnOnce() -> T + std::panic::UnwindSafe) {
    let r = std::panic::catch_unwind(move || match rasn::der::encode(&f()) {
        Ok(b) => format!("der|{}", hex(&b)),
        Err(e) => format!("encode-error|{}", format!("{e}").replace('\n', " ")),
    });
    println!("R|{id}|{}", r.unwrap_or_else(|_| "panic|".into()));
}
"#;

/// forms whose values the primitive DER reader can read back
fn claimable(c: &Case) -> bool {
    matches!(c.expected, AV::Int(_) | AV::Bool(_) | AV::Unit | AV::Str(_) | AV::Bits(_) | AV::Bytes(_) | AV::Oid(_) | AV::Enum(_)) && !c.form.starts_with("enumerated/same-named")
}

/// one primitive DER value -> abstract value (None: not a primitive this reader knows, or malformed)
fn read_der(b: &[u8], enum_names: &[(String, i128)]) -> Option<AV> {
    if b.len() < 2 {
        return None;
    }
    let tag = b[0];
    let (len, off) = if b[1] < 0x80 {
        (b[1] as usize, 2)
    } else {
        let n = (b[1] & 0x7f) as usize;
        if n == 0 || n > 4 || b.len() < 2 + n {
            return None;
        }
        (b[2..2 + n].iter().fold(0usize, |a, x| a << 8 | *x as usize), 2 + n)
    };
    if b.len() != off + len {
        return None;
    }
    let c = &b[off..];
    let int = |c: &[u8]| -> Option<i128> {
        if c.is_empty() || c.len() > 17 {
            return None;
        }
        let mut v: i128 = if c[0] & 0x80 != 0 { -1 } else { 0 };
        for x in c.iter().skip(if c.len() == 17 { 1 } else { 0 }) {
            v = (v << 8) | *x as i128;
        }
        Some(v)
    };
    Some(match tag {
        0x01 => AV::Bool(*c.first()? != 0),
        0x02 => AV::Int(int(c)?),
        0x03 => {
            let unused = *c.first()? as usize;
            let mut bits: Vec<bool> = c[1..].iter().flat_map(|x| (0..8).map(move |i| x & (0x80 >> i) != 0)).collect();
            bits.truncate(bits.len().checked_sub(unused)?);
            AV::Bits(bits)
        }
        0x04 => AV::Bytes(c.to_vec()),
        0x05 => AV::Unit,
        0x06 => {
            let mut arcs: Vec<u128> = vec![];
            let mut cur: u128 = 0;
            for x in c {
                cur = (cur << 7) | (*x & 0x7f) as u128;
                if x & 0x80 == 0 {
                    if arcs.is_empty() {
                        let first = if cur < 40 { 0 } else if cur < 80 { 1 } else { 2 };
                        arcs.push(first);
                        arcs.push(cur - 40 * first);
                    } else {
                        arcs.push(cur);
                    }
                    cur = 0;
                }
            }
            AV::Oid(arcs)
        }
        0x0a => {
            let n = int(c)?;
            AV::Enum(enum_names.iter().find(|(_, v)| *v == n).map(|(s, _)| s.clone()).unwrap_or_else(|| format!("#{n}")))
        }
        // character strings: UTF-8 / ASCII based types, BMPString (UTF-16BE), UniversalString (UTF-32BE)
        0x0c | 0x12 | 0x13 | 0x16 | 0x19 | 0x1a | 0x1b | 0x14 => AV::Str(String::from_utf8(c.to_vec()).ok()?),
        0x1e => AV::Str(String::from_utf16(&c.chunks(2).map(|p| if p.len() == 2 { Some(u16::from_be_bytes([p[0], p[1]])) } else { None }).collect::<Option<Vec<u16>>>()?).ok()?),
        // rasn 0.27 defines `UniversalString = Implicit<UNIVERSAL 28, String>`: its content octets are the UTF-8 bytes of the
        // string, not UCS-4 (a property of the runtime, measured; nothing the compiler's choice of constructor could change)
        0x1c => AV::Str(String::from_utf8(c.to_vec()).ok()?),
        _ => return None,
    })
}

/// numbers of the enumerals of `Te<n> ::= ENUMERATED { .. }` in the case's type text (X.680 20: explicit numbers kept,
/// identifier-only items take the successive unused values from 0)
fn enum_numbers(types: &str, ty: &str) -> Vec<(String, i128)> {
    let Some(line) = types.lines().find(|l| l.starts_with(&format!("{ty} ::= ENUMERATED"))) else { return vec![] };
    let Some(body) = line.split_once('{').and_then(|x| x.1.rsplit_once('}')).map(|x| x.0) else { return vec![] };
    let items: Vec<(String, Option<i128>)> = body.split(',').map(|i| i.trim()).filter(|i| !i.is_empty()).map(|i| match i.split_once('(') { Some((n, v)) => (n.trim().to_string(), v.trim_end_matches(')').trim().parse().ok()), None => (i.to_string(), None) }).collect();
    let used: Vec<i128> = items.iter().filter_map(|i| i.1).collect();
    let mut next = 0i128;
    items
        .into_iter()
        .map(|(n, v)| match v {
            Some(v) => (n, v),
            None => {
                while used.contains(&next) {
                    next += 1;
                }
                next += 1;
                (n, next - 1)
            }
        })
        .collect()
}

pub fn run(ctx: &Ctx, rep: &mut Report) {
    let files = ctx.pick(24usize, 160);
    let per_file = 8usize;
    let seed = ctx.seed;
    // cases: the generator of the symbolic check with its own salt, only the primitive value forms
    let mut cases: Vec<(usize, Case)> = vec![];
    let mut i = 0u64;
    while cases.len() < files * per_file && i < 20 * (files * per_file) as u64 {
        let n = 900_000 + i as usize;
        let c = gen_case(&mut Rng::for_case(seed, 707, i), n);
        if claimable(&c) {
            cases.push((n, c));
        }
        i += 1;
    }
    // two modules (two files of the batch crate) per group of cases: the literal sites alone, and all four sites - value
    // references of some types do not type-check on the pinned tree (C01's findings) and would take the literal sites with them
    struct File {
        k: usize,
        with_refs: bool,
        cases: Vec<(usize, Case)>,
        text: String,
    }
    let mut batch: Vec<File> = vec![];
    for (g, group) in cases.chunks(per_file).enumerate() {
        for with_refs in [false, true] {
            let k = 2 * g + with_refs as usize;
            let mut src = format!("Mder{k} DEFINITIONS AUTOMATIC TAGS ::= BEGIN\n");
            for (n, c) in group {
                src.push_str(&c.types);
                src.push_str(&format!("vq{n}a {} ::= {}\n", c.ty, c.val));
                if with_refs {
                    src.push_str(&format!("vq{n}r {} ::= vq{n}a\n", c.ty));
                }
                if c.as_default {
                    if with_refs {
                        src.push_str(&format!("Td{n} ::= SEQUENCE {{ dq{n}r {} DEFAULT vq{n}a }}\n", c.ty));
                    } else {
                        src.push_str(&format!("Td{n} ::= SEQUENCE {{ dq{n}a {} DEFAULT {} }}\n", c.ty, c.val));
                    }
                }
            }
            src.push_str("END\n");
            let run = comp::rasn1(&src);
            rep.evaluations += 1;
            match &run.out {
                comp::Outcome::Ok { generated, .. } if syn::parse_file(generated).is_ok() => batch.push(File { k, with_refs, cases: group.to_vec(), text: generated.clone() }),
                _ => rep.count("der_files_not_compiled(not a claim)", 1),
            }
        }
    }
    // runner: every constant and every DEFAULT (obtained by decoding an empty SEQUENCE) is encoded by the bindings
    let main = |live: &[usize]| -> String {
        let mut s = String::from(RUNNER);
        s.push_str("fn main() {\n    std::panic::set_hook(Box::new(|_| {}));\n");
        for f in batch.iter().filter(|f| live.contains(&f.k)) {
            let Ok(mods) = proj::project(&f.text) else { continue };
            let m = &mods[0];
            let path = format!("case_{}::{}", f.k, m.name);
            for (n, c) in &f.cases {
                for sfx in if f.with_refs { ["R"] } else { ["A"] } {
                    if let Some(Kind::Const { lazy, .. }) = m.find_const(&format!("VQ{n}{sfx}")).map(|i| &i.kind) {
                        let e = if *lazy { format!("(*{path}::VQ{n}{sfx}).clone()") } else { format!("{path}::VQ{n}{sfx}.clone()") };
                        s.push_str(&format!("    emit(\"{n}/{}\", || {e});\n", if sfx == "A" { "assignment" } else { "value-reference" }));
                    }
                }
                if c.as_default && m.find(&format!("Td{n}")).is_some() {
                    for (sfx, site) in if f.with_refs { [("r", "default-via-value-reference")] } else { [("a", "default")] } {
                        s.push_str(&format!("    emit(\"{n}/{site}\", || rasn::der::decode::<{path}::Td{n}>(&[0x30, 0x00]).expect(\"empty SEQUENCE\").dq{n}{sfx});\n"));
                    }
                }
            }
        }
        s.push_str("}\n");
        s
    };
    let dir = std::path::PathBuf::from(format!("{VERIF_DIR}/gen-ws/c03der"));
    let files_in: Vec<(usize, String)> = batch.iter().map(|f| (f.k, f.text.clone())).collect();
    let (failing, stdout) = match c01::check_and_run(&dir, &files_in, &main) {
        Ok(x) => x,
        Err(e) => {
            rep.inconclusive.push(format!("C07 DER batch inconclusive: {}", one_line(&e, 300)));
            return;
        }
    };
    rep.count("der_files_not_type_checking(C01's subject)", failing.len() as u64);
    let mut results: BTreeMap<String, String> = BTreeMap::new();
    for l in stdout.lines() {
        if let Some((id, r)) = l.strip_prefix("R|").and_then(|x| x.split_once('|')) {
            results.insert(id.to_string(), r.to_string());
        }
    }
    for f in batch.iter().filter(|f| !failing.contains(&f.k)) {
        for (n, c) in &f.cases {
            let names = if c.form.starts_with("enumerated") { enum_numbers(&c.types, &c.ty) } else { vec![] };
            for site in ["assignment", "value-reference", "default", "default-via-value-reference"] {
                let Some(r) = results.get(&format!("{n}/{site}")) else { continue };
                rep.evaluations += 1;
                let (kind, payload) = r.split_once('|').unwrap_or((r.as_str(), ""));
                let bytes: Vec<u8> = (0..payload.len() / 2).filter_map(|i| u8::from_str_radix(&payload[2 * i..2 * i + 2], 16).ok()).collect();
                let got = if kind == "der" { read_der(&bytes, &names) } else { None };
                let verdict: Option<(String, String)> = match (kind, &got) {
                    ("der", Some(g)) => {
                        rep.count("der_values_compared", 1);
                        rep.count(&format!("der_values_compared[{}]", c.form), 1);
                        rep.nontrivial.insert(hash_str(&format!("der|{}|{}|{site}", c.ty, c.val)));
                        if equal(&c.expected, g, c.trailing_zeros_insignificant) {
                            None
                        } else {
                            Some(("der-value-differs".into(), format!("the bindings encode it as {payload}, i.e. {}", g.show())))
                        }
                    }
                    ("der", None) => {
                        rep.count("der_values_unreadable(inconclusive)", 1);
                        rep.inconclusive.push(format!("{}: DER {payload} not readable by the primitive reader", c.form));
                        None
                    }
                    ("panic", _) => {
                        rep.count("der_values_compared", 1);
                        Some(("der-panic-on-first-use".into(), "evaluating the constant / default panics".into()))
                    }
                    _ => {
                        rep.count("der_values_compared", 1);
                        Some(("der-encode-error".into(), one_line(payload, 120)))
                    }
                };
                if let Some((kind, detail)) = verdict {
                    rep.violations.push(Violation {
                        sig: format!("c07|{kind}|{}|{site}", c.form),
                        what: format!("`{} ::= {}` ({site}): source denotes {}, {detail}", c.ty, c.val, c.expected.show()),
                        replay: json!({"types": c.types, "type": c.ty, "value": c.val, "site": site, "result": r}),
                    });
                }
            }
        }
    }
}
