//! C17 — syntax errors are reported at the malformed definition, consistently (fault injection + model).
use crate::core::*;
use crate::gen::{self, GenOpts};
use rasn_compiler::prelude::*;
use serde_json::json;

#[derive(Clone, Debug)]
struct Layout {
    text: String,
    /// byte span of every token
    spans: Vec<(usize, usize)>,
}

/// Lay tokens out with known positions. style: 0 = LF, 1 = CRLF, 2 = LF with comments, 3 = CRLF with comments,
/// 4 / 5 = like 2 / 3 with non-ASCII text in the comments (positions are byte offsets: a character count would drift)
fn layout(tokens: &[String], line_ends: &[usize], style: u8, rng: &mut Rng) -> Layout {
    let nl = if style & 1 == 1 { "\r\n" } else { "\n" };
    let mut text = String::new();
    let mut spans = vec![];
    for (i, t) in tokens.iter().enumerate() {
        let s = text.len();
        text.push_str(t);
        spans.push((s, text.len()));
        let next = tokens.get(i + 1).map(|s| s.as_str());
        if line_ends.contains(&(i + 1)) {
            if style >= 2 && rng.chance(1, 3) {
                text.push_str(if style >= 4 { " -- trailing comment ±5 µs" } else { " -- trailing comment" });
            }
            text.push_str(nl);
            if style >= 2 && rng.chance(1, 6) {
                text.push_str(if style >= 4 { "-- a comment line: größer, 中文, €" } else { "-- a comment line" });
                text.push_str(nl);
            }
            if rng.chance(1, 8) {
                text.push_str(nl);
            }
            // a closed comment at the start of the next line, followed by code on the same line
            if style >= 2 && next.is_some() && rng.chance(1, 10) {
                text.push_str(if rng.chance(1, 2) { "/* since v2 */ " } else { "-- since v2 -- " });
            }
        } else if next == Some(",") || next == Some(";") {
        } else if style >= 2 && rng.chance(1, 40) && t != "..." {
            text.push_str(if style >= 4 { " /* ç */ " } else { " /* c */ " });
        } else {
            text.push(' ');
        }
    }
    Layout { text, spans }
}

const GARBAGE: [&str; 4] = ["?", "$", "~", "\u{1}"];
const REPLACEMENTS: [&str; 10] = ["::=", "}", "{", ")", "(", "SEQUENCE", "OF", ",", "42", "\"x\""];

#[derive(Clone, Debug)]
enum Corruption {
    InsertGarbage(usize, usize), // before token i, garbage index
    ReplaceGarbage(usize, usize),
    Delete(usize),
    Replace(usize, usize),
}

struct Built {
    text: String,
    /// lower bound of the admissible error position
    lo: usize,
    /// exact upper bound (garbage corruptions) or None
    hi: Option<usize>,
    desc: String,
    kind: &'static str,
}

/// Apply a corruption to the token list and lay it out; bounds are computed on the corrupted layout.
fn build(tokens: &[String], line_ends: &[usize], extents: &[(usize, usize, usize, usize)], c: &Corruption, style: u8, lrng: &Rng) -> Option<Built> {
    let ti = match c {
        Corruption::InsertGarbage(i, _) | Corruption::ReplaceGarbage(i, _) | Corruption::Delete(i) | Corruption::Replace(i, _) => *i,
    };
    // extent containing token ti, and the end token of the preceding extent
    let ei = extents.iter().position(|e| e.2 <= ti && ti <= e.3)?;
    let prev_last_tok: Option<usize> = if ei == 0 { None } else { Some(extents[ei - 1].3) };
    let mut toks: Vec<String> = tokens.to_vec();
    let mut ends: Vec<usize> = line_ends.to_vec();
    let shift = |ends: &mut Vec<usize>, from: usize, d: i64| {
        for e in ends.iter_mut() {
            if *e > from {
                *e = (*e as i64 + d) as usize;
            }
        }
    };
    let (garbage_tok, kind, desc): (Option<usize>, &'static str, String) = match c {
        Corruption::InsertGarbage(i, g) => {
            toks.insert(*i, GARBAGE[*g].to_string());
            shift(&mut ends, *i, 1);
            (Some(*i), "insert-garbage", format!("insert {:?} before token {} `{}`", GARBAGE[*g], i, tokens[*i]))
        }
        Corruption::ReplaceGarbage(i, g) => {
            toks[*i] = GARBAGE[*g].to_string();
            (Some(*i), "replace-garbage", format!("replace token {} `{}` by {:?}", i, tokens[*i], GARBAGE[*g]))
        }
        Corruption::Delete(i) => {
            toks.remove(*i);
            shift(&mut ends, *i, -1);
            (None, "delete", format!("delete token {} `{}`", i, tokens[*i]))
        }
        Corruption::Replace(i, r) => {
            if tokens[*i] == REPLACEMENTS[*r] {
                return None;
            }
            toks[*i] = REPLACEMENTS[*r].to_string();
            (None, "replace", format!("replace token {} `{}` by `{}`", i, tokens[*i], REPLACEMENTS[*r]))
        }
    };
    let mut rng = lrng.clone();
    let l = layout(&toks, &ends, style, &mut rng);
    // tokens before ti keep their index in the corrupted list
    let lo = prev_last_tok.map_or(0, |t| l.spans[t].1);
    let hi = garbage_tok.map(|g| l.spans[g].0);
    Some(Built { text: l.text, lo, hi, desc, kind })
}

struct Observed {
    offset: usize,
    line: usize,
    column: usize,
    src_file: Option<String>,
    display: String,
    context: String,
}

fn observe(err: &CompilerError, input: &str) -> Option<Observed> {
    if let CompilerError::Lexer(LexerError { kind: LexerErrorType::MatchingError(r) }) = err {
        let display = err.to_string();
        let context = std::panic::catch_unwind(std::panic::AssertUnwindSafe(|| err.contextualize(input))).unwrap_or_else(|_| "<panic in contextualize>".into());
        Some(Observed { offset: r.offset, line: r.line, column: r.column, src_file: r.src_file.clone(), display, context })
    } else {
        None
    }
}

fn first_number_after(s: &str, marker: &str) -> Option<usize> {
    let i = s.find(marker)? + marker.len();
    let d: String = s[i..].chars().take_while(|c| c.is_ascii_digit()).collect();
    d.parse().ok()
}

/// line number shown by Display: "... line N, column M." or "source file <path>:N:M."
fn display_line(display: &str, path: Option<&str>) -> Option<usize> {
    match path {
        Some(p) => first_number_after(display, &format!("{p}:")),
        None => first_number_after(display, "line "),
    }
}

fn context_marked_line(ctx: &str) -> Option<usize> {
    for l in ctx.lines() {
        if l.contains("FAILED AT THIS LINE") {
            let d: String = l.trim_start().chars().take_while(|c| c.is_ascii_digit()).collect();
            return d.parse().ok();
        }
    }
    None
}

fn context_header_line(ctx: &str, path: Option<&str>) -> Option<usize> {
    match path {
        Some(p) => first_number_after(ctx, &format!("Source file: {p}:")),
        None => first_number_after(ctx, "[line "),
    }
}

fn judge(b: &Built, o: &Observed, path: Option<&str>) -> Vec<(String, String)> {
    let mut out = vec![];
    let input = &b.text;
    if o.offset > input.len() || !input.is_char_boundary(o.offset) {
        out.push(("offset-outside-input".to_string(), format!("offset {} for input of {} bytes", o.offset, input.len())));
        return out;
    }
    let expect_line = 1 + input[..o.offset].matches('\n').count();
    if o.line != expect_line {
        out.push(("line-vs-offset".into(), format!("line {} but offset {} lies on line {}", o.line, o.offset, expect_line)));
    }
    if o.offset < b.lo {
        out.push(("before-malformed-definition".into(), format!("offset {} < {} (end of the preceding definition)", o.offset, b.lo)));
    }
    if let Some(hi) = b.hi {
        if o.offset > hi {
            out.push(("after-offending-character".into(), format!("offset {} > {} (the character that cannot continue any notation)", o.offset, hi)));
        }
    }
    let dl = display_line(&o.display, path);
    let ml = context_marked_line(&o.context);
    let hl = context_header_line(&o.context, path);
    match dl {
        Some(d) if d == o.line => {}
        other => out.push(("display-line".into(), format!("Display shows line {other:?}, report says {} (`{}`)", o.line, one_line(&o.display, 120)))),
    }
    match ml {
        Some(m) if m == o.line => {}
        Some(m) => out.push(("context-marked-line".into(), format!("contextualize marks line {m}, report says {}", o.line))),
        None => {
            // contextualize omits blank lines by design: a blank (or absent, at end of input) error line cannot carry the marker
            let blank = input.lines().nth(o.line.saturating_sub(1)).map_or(true, |l| l.trim().is_empty());
            if !blank {
                // where the reported line lies relative to the numbered lines of the excerpt
                let shown: Vec<usize> = o.context.lines().filter_map(|l| l.trim_start().split('│').next().and_then(|n| n.trim().parse::<usize>().ok())).collect();
                let place = match (shown.iter().min(), shown.iter().max()) {
                    (None, _) | (_, None) => "empty-excerpt",
                    (Some(_), Some(hi)) if o.line > *hi => "excerpt-ends-before-the-reported-line",
                    (Some(lo), Some(_)) if o.line < *lo => "excerpt-starts-after-the-reported-line",
                    _ => "reported-line-left-out-of-the-excerpt",
                };
                out.push((format!("context-no-marked-line|{place}"), format!("contextualize marks no line (report line {}; excerpt shows lines {:?}..{:?})", o.line, shown.iter().min(), shown.iter().max())));
            }
        }
    }
    match hl {
        Some(h) if h == o.line => {}
        other => out.push(("context-header-line".into(), format!("contextualize header shows {other:?}, report says {}", o.line))),
    }
    match (path, &o.src_file) {
        (Some(p), Some(f)) if f == p => {}
        (None, None) => {}
        (p, f) => out.push(("src-file".into(), format!("source given as {p:?}, report says {f:?}"))),
    }
    let _ = o.column;
    out
}

fn opts() -> GenOpts {
    GenOpts { modules: (1, 3), assigns: (1, 10), max_depth: 2, max_comps: 4, ..GenOpts::default() }
}

/// Hand-written inputs with notation grammar G does not produce (user-defined / contents / inner-type constraints, classes
/// with WITH SYNTAX, objects and object sets, table constraints, parameter lists, EXPORTS / IMPORTS): the lexer scans several
/// of these with its balanced-delimiter helper instead of token by token. One string per assignment (= one extent).
const TEMPLATES: &[&[&str]] = &[
    &[
        "Mt1 DEFINITIONS AUTOMATIC TAGS ::= BEGIN",
        "Sealed ::= OCTET STRING (CONSTRAINED BY { INTEGER })",
        "Wrapped ::= OCTET STRING (CONTAINING INTEGER)",
        "Inner ::= SEQUENCE { a INTEGER OPTIONAL, b BOOLEAN } (WITH COMPONENTS { ..., a PRESENT })",
        "Sealed2 ::= SEQUENCE { f OCTET STRING (CONSTRAINED BY { BOOLEAN, INTEGER }), g NULL }",
        "Last ::= INTEGER (0..5)",
        "END",
    ],
    &[
        "Mt2 DEFINITIONS AUTOMATIC TAGS ::= BEGIN",
        "CLQ ::= CLASS { &id INTEGER UNIQUE, &Type } WITH SYNTAX { &Type IDENTIFIED BY &id }",
        "oa CLQ ::= { INTEGER IDENTIFIED BY 1 }",
        "SetQ CLQ ::= { oa | { BOOLEAN IDENTIFIED BY 2 } }",
        "Holder ::= SEQUENCE { id CLQ.&id ({SetQ}), val CLQ.&Type ({SetQ}{@id}) }",
        "Tail ::= BOOLEAN",
        "END",
    ],
    &[
        "Mt3 DEFINITIONS IMPLICIT TAGS ::= BEGIN",
        "EXPORTS Pair, limit;",
        "IMPORTS Ext, ext-value FROM Mt3b;",
        "Pair {First, Second} ::= SEQUENCE { a First, b Second }",
        "Bounded {INTEGER: lo, INTEGER: hi} ::= INTEGER (lo..hi)",
        "Use ::= Pair {INTEGER, Ext}",
        "Small ::= Bounded {0, 15}",
        "limit INTEGER ::= 5",
        "END",
        "Mt3b DEFINITIONS AUTOMATIC TAGS ::= BEGIN",
        "Ext ::= ENUMERATED { red, green, ..., blue }",
        "ext-value Ext ::= green",
        "END",
    ],
];

/// tokens, line ends and extents of a template (tokenised with the harness's own X.680 tokenizer)
fn template_tokens(t: usize) -> (Vec<String>, Vec<usize>, Vec<(usize, usize, usize, usize)>) {
    let mut tokens = vec![];
    let mut extents = vec![];
    let mut module = 0;
    for (ai, line) in TEMPLATES[t].iter().enumerate() {
        let first = tokens.len();
        let lx = crate::tok::tokenize(line);
        tokens.extend(lx.toks.iter().map(|k| k.text(line).to_string()));
        extents.push((module, ai, first, tokens.len() - 1));
        if *line == "END" {
            module += 1;
        }
    }
    let line_ends = extents.iter().map(|e| e.3 + 1).collect();
    (tokens, line_ends, extents)
}

struct Toks {
    tokens: Vec<String>,
    extents: Vec<(usize, usize, usize, usize)>,
}

fn check_input(seed: u64, idx: u64, tmpdir: &std::path::Path, rep: &mut Report, max_corruptions: usize) {
    check_input_t(seed, idx, None, tmpdir, rep, max_corruptions)
}

fn check_input_t(seed: u64, idx: u64, template: Option<usize>, tmpdir: &std::path::Path, rep: &mut Report, max_corruptions: usize) {
    let mut rng = Rng::for_case(seed, 17, idx);
    let (r, line_ends) = match template {
        Some(t) => {
            let (tokens, line_ends, extents) = template_tokens(t);
            (Toks { tokens, extents }, line_ends)
        }
        None => {
            let set = gen::random_set(seed, 1700, idx, &opts());
            let r = set.render();
            // line ends from the default rendering: after every extent
            let line_ends: Vec<usize> = r.extents.iter().map(|e| e.3 + 1).collect();
            (Toks { tokens: r.tokens, extents: r.extents }, line_ends)
        }
    };
    if template.is_some() {
        rep.count("template_inputs", 1);
    }
    let style = (idx % 6) as u8;
    // baseline must compile (otherwise the corruption is not the first malformation)
    let lrng = Rng::for_case(seed, 1717, idx);
    let base = layout(&r.tokens, &line_ends, style, &mut lrng.clone());
    let ok = Compiler::<RasnBackend, _>::new().add_asn_literal(base.text.clone()).compile_to_string().is_ok();
    if !ok {
        rep.count("baseline_not_ok_skipped", 1);
        return;
    }
    // candidate corruptions: every token position, each kind
    let n = r.tokens.len();
    let mut cands: Vec<Corruption> = vec![];
    for i in 0..n {
        cands.push(Corruption::InsertGarbage(i, rng.below(4)));
        cands.push(Corruption::ReplaceGarbage(i, rng.below(4)));
        cands.push(Corruption::Delete(i));
        cands.push(Corruption::Replace(i, rng.below(REPLACEMENTS.len())));
    }
    let exhaustive = cands.len() <= max_corruptions;
    if !exhaustive {
        rng.shuffle(&mut cands);
        cands.truncate(max_corruptions);
    } else {
        rep.count("inputs_with_every_token_position_corrupted", 1);
    }
    for (ci, c) in cands.iter().enumerate() {
        let Some(b) = build(&r.tokens, &line_ends, &r.extents, c, style, &lrng) else { continue };
        rep.evaluations += 1;
        // as literal and (for a sample) as file
        let as_file = ci % 8 == 0;
        let path = tmpdir.join(format!("c17-{idx}-{ci}.asn1"));
        let path_s = path.to_string_lossy().to_string();
        let res = if as_file {
            if std::fs::write(&path, &b.text).is_err() {
                rep.inconclusive.push("cannot write temp file".into());
                continue;
            }
            let r = std::panic::catch_unwind(|| Compiler::<RasnBackend, _>::new().add_asn_by_path(path.clone()).compile_to_string());
            let _ = std::fs::remove_file(&path);
            r
        } else {
            let t = b.text.clone();
            std::panic::catch_unwind(move || Compiler::<RasnBackend, _>::new().add_asn_literal(t).compile_to_string())
        };
        let res = match res {
            Ok(r) => r,
            Err(_) => {
                rep.count("panicked(C08's subject)", 1);
                continue;
            }
        };
        match res {
            Ok(_) => rep.count(&format!("still_valid[{}]", b.kind), 1),
            Err(e) => {
                let Some(o) = observe(&e, &b.text) else {
                    rep.count("non_matching_error_kind", 1);
                    continue;
                };
                rep.count(&format!("syntax_errors_judged[{}]", b.kind), 1);
                rep.count(if as_file { "given_as_file" } else { "given_as_literal" }, 1);
                rep.count("positions_checked", 1);
                rep.nontrivial.insert(hash_str(&b.text));
                let ds = judge(&b, &o, if as_file { Some(path_s.as_str()) } else { None });
                if rep.samples.len() < 4 && rep.evaluations % 1499 == 5 {
                    rep.sample(json!({"corruption": b.desc, "bounds": [b.lo, b.hi], "reported": {"offset": o.offset, "line": o.line, "column": o.column}, "display": o.display, "input_head": one_line(&b.text, 200)}));
                }
                for (kind, detail) in ds {
                    let style_s = if style & 1 == 1 { "crlf" } else { "lf" };
                    let sig = match kind.as_str() {
                        // position findings are keyed by corruption kind; rendering findings are global
                        "before-malformed-definition" | "after-offending-character" | "line-vs-offset" | "offset-outside-input" => format!("c17|{kind}|{}|{style_s}", b.kind),
                        _ => format!("c17|{kind}"),
                    };
                    rep.violations.push(Violation {
                        sig,
                        what: format!("{detail} :: {}", b.desc),
                        replay: json!({"seed": seed, "idx": idx, "template": template, "corruption": format!("{c:?}"), "as_file": as_file, "input": b.text,
                            "bounds": [b.lo, b.hi], "reported": {"offset": o.offset, "line": o.line, "column": o.column, "src_file": o.src_file},
                            "display": o.display, "contextualize": o.context}),
                    });
                }
            }
        }
    }
}

pub fn run(ctx: &Ctx) -> Report {
    let mut rep = Report::new(
        "fault_enumeration",
        "inputs: grammar-G module sets (1..3 modules, 1..10 assignments each, depth<=2) laid out with LF / CRLF / comments, plus three hand-written module texts with notation G does not produce (CONSTRAINED BY, CONTAINING, WITH COMPONENTS, CLASS .. WITH SYNTAX, objects, object sets, table constraints, parameter lists, EXPORTS, IMPORTS) in all six layouts with every token position corrupted; faults: for every token position (exhaustive for inputs whose 4*tokens corruptions fit the per-input budget, sampled otherwise) insertion of a character that starts no ASN.1 token (? $ ~ U+0001), replacement by such a character, deletion, replacement by another token; every 8th corrupted input is given as a file path, the rest as literals. Non-trivial = the compiler returned a syntax error and all position/rendering facts were judged; distinct by corrupted text.",
    );
    rep.must_observe = vec!["positions_checked".into(), "given_as_file".into(), "template_inputs".into()];
    rep.assumptions = vec!["token positions known by construction (own layout)".into(), "message shapes of Display/contextualize parsed by fixed patterns".into()];
    let tmp = std::env::temp_dir().join(format!("vcheck-c17-{}", std::process::id()));
    let _ = std::fs::create_dir_all(&tmp);
    if let Some(path) = &ctx.replay {
        let doc: serde_json::Value = serde_json::from_str(&std::fs::read_to_string(path).expect("replay")).expect("json");
        let c = &doc["case"];
        check_input_t(c["seed"].as_u64().unwrap(), c["idx"].as_u64().unwrap(), c["template"].as_u64().map(|t| t as usize), &tmp, &mut rep, usize::MAX);
        let _ = std::fs::remove_dir_all(&tmp);
        return rep;
    }
    let n_inputs = ctx.pick(400u64, 6000);
    let budget = ctx.pick(480usize, 900);
    let acc = Acc::new(rep);
    let seed = ctx.seed;
    par_for(n_inputs, |i| {
        let mut local = Report::default();
        check_input(seed, i, &tmp, &mut local, budget);
        acc.with(|r| r.merge(local));
    });
    // the hand-written templates: every token position, all six layouts
    par_for((TEMPLATES.len() * 6) as u64, |i| {
        let mut local = Report::default();
        check_input_t(seed, i, Some(i as usize / 6), &tmp, &mut local, usize::MAX);
        acc.with(|r| r.merge(local));
    });
    let _ = std::fs::remove_dir_all(&tmp);
    acc.into_inner()
}
