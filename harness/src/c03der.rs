//! C03, DER level (observation channel O6): the generated bindings are compiled together with a runner that decodes
//! model-made DER bytes of sample values into the generated types and encodes them back. A tag (class, number), tagging
//! mode (explicit wrapper or not, incl. CHOICE-typed components), automatic tag numbering, component order or optionality
//! that differs from the X.680 / X.690 model makes `rasn::der::decode` fail or the re-encoding differ.
use crate::c01;
use crate::comp::{self, Cfg};
use crate::core::*;
use crate::der::Sampler;
use crate::gen::{self, Assign, GenOpts, ModuleSet, Tagging};
use crate::oracle::rust_mod_name;
use serde_json::json;
use std::collections::{BTreeMap, BTreeSet};

fn opts(i: u64) -> GenOpts {
    let mut o = GenOpts { modules: (1, 2), assigns: (2, 6), max_depth: 3, max_comps: 5, qualified_refs: false, structured_values: false, ..GenOpts::default() };
    // modules without TAGS clause are a known finding of their own (treated as IMPLICIT): not mixed into this workload
    o.taggings = match i % 4 {
        0 => vec![Tagging::Automatic],
        1 => vec![Tagging::Explicit],
        2 => vec![Tagging::Implicit],
        _ => vec![Tagging::Automatic, Tagging::Explicit, Tagging::Implicit],
    };
    o
}

fn hex(b: &[u8]) -> String {
    b.iter().map(|x| format!("{x:02x}")).collect()
}

#[derive(Clone)]
struct Claim {
    case: usize,
    module: String,
    ty: String,
    variant: u32,
    hex: String,
}

const RUNNER: &str = r#"
fn unhex(s: &str) -> Vec<u8> {
    (0..s.len() / 2).map(|i| u8::from_str_radix(&s[2 * i..2 * i + 2], 16).unwrap()).collect()
}
fn hex(b: &[u8]) -> String {
    b.iter().map(|x| format!("{x:02x}")).collect()
}
fn check<T: rasn::Decode + rasn::Encode>(id: &str, h: &str) {
    let bytes = unhex(h);
    let r = std::panic::catch_unwind(std::panic::AssertUnwindSafe(|| match rasn::der::decode::<T>(&bytes) {
        Err(e) => format!("decode-error|{}", format!("{e}").replace('\n', " ")),
        Ok(v) => match rasn::der::encode(&v) {
            Ok(b) if b == bytes => "ok".to_string(),
            Ok(b) => format!("reencode-differs|{}", hex(&b)),
            Err(e) => format!("encode-error|{}", format!("{e}").replace('\n', " ")),
        },
    }));
    println!("R|{id}|{}", r.unwrap_or_else(|_| "panic".into()));
}
"#;

fn runner_main(claims: &[Claim], live: &[usize]) -> String {
    let mut s = String::from(RUNNER);
    s.push_str("fn main() {\n    std::panic::set_hook(Box::new(|_| {}));\n");
    for c in claims.iter().filter(|c| live.contains(&c.case)) {
        s.push_str(&format!("    check::<case_{}::{}::{}>(\"{}/{}/{}/{}\", \"{}\");\n", c.case, rust_mod_name(&c.module), c.ty, c.case, c.module, c.ty, c.variant, c.hex));
    }
    s.push_str("}\n");
    s
}

fn claims_of(set: &ModuleSet, case: usize, skipped: &mut BTreeMap<String, u64>) -> Vec<Claim> {
    let sampler = Sampler::new(set);
    let mut out = vec![];
    for (mi, m) in set.modules.iter().enumerate() {
        for a in &m.assigns {
            if let Assign::Type { name, ty } = a {
                let mut seen = BTreeSet::new();
                for variant in 0..3u32 {
                    match sampler.sample(ty, mi, variant) {
                        Ok(bytes) => {
                            let h = hex(&bytes);
                            if seen.insert(h.clone()) {
                                out.push(Claim { case, module: m.name.clone(), ty: name.clone(), variant, hex: h });
                            }
                        }
                        Err(why) => {
                            *skipped.entry(why).or_default() += 1;
                            break;
                        }
                    }
                }
            }
        }
    }
    out
}

/// normalised rasn error text: digits and hex runs abstracted
fn err_class(s: &str) -> String {
    let mut out = String::new();
    let mut prev_digit = false;
    for c in s.chars() {
        if c.is_ascii_digit() {
            if !prev_digit {
                out.push('#');
            }
            prev_digit = true;
        } else {
            prev_digit = false;
            out.push(c);
        }
    }
    one_line(&out, 90)
}

struct Case {
    n: usize,
    set: ModuleSet,
    text: String,
    origin: String,
}

/// runs one batch: returns (per claim result lines, cases that did not type-check)
fn run_batch(dir: &std::path::PathBuf, cases: &[Case], claims: &[Claim]) -> Result<(BTreeMap<String, String>, Vec<usize>), String> {
    let files: Vec<(usize, String)> = cases.iter().map(|c| (c.n, c.text.clone())).collect();
    let (failing, stdout) = c01::check_and_run(dir, &files, &|live| runner_main(claims, live))?;
    let mut res = BTreeMap::new();
    for l in stdout.lines() {
        if let Some(rest) = l.strip_prefix("R|") {
            if let Some((id, r)) = rest.split_once('|') {
                res.insert(id.to_string(), r.to_string());
            }
        }
    }
    Ok((res, failing))
}

/// builds the dependency graph of the DER runner workspace
pub fn warm() -> Result<(), String> {
    let dir = std::path::PathBuf::from(format!("{VERIF_DIR}/gen-ws/c03der"));
    c01::check_and_run(&dir, &[], &|_| format!("{RUNNER}fn main() {{}}\n")).map(|_| ())
}

pub fn run(ctx: &Ctx, rep: &mut Report) {
    let want = ctx.pick(40usize, 600);
    let batch = ctx.pick(40usize, 150);
    let seed = ctx.seed;
    let cfg = Cfg::default_cfg();
    let found: std::sync::Mutex<Vec<Case>> = std::sync::Mutex::new(vec![]);
    par_for(want as u64 * 2, |i| {
        let set = gen::random_set(seed, 300, i, &opts(i));
        if let comp::Outcome::Ok { generated, warnings } = &comp::rasn(&set.render_each(), &cfg).out {
            if warnings.is_empty() && syn::parse_file(generated).is_ok() {
                found.lock().unwrap().push(Case { n: i as usize, set, text: generated.clone(), origin: format!("G(seed={seed},salt=300,idx={i})") });
            }
        }
    });
    let mut cases = found.into_inner().unwrap();
    cases.sort_by_key(|c| c.n);
    cases.truncate(want);
    let dir = std::path::PathBuf::from(format!("{VERIF_DIR}/gen-ws/c03der"));
    let mut skipped: BTreeMap<String, u64> = BTreeMap::new();
    let mut shrunk: BTreeSet<String> = BTreeSet::new();
    let findings = Findings::load();
    for chunk in cases.chunks(batch) {
        let mut claims = vec![];
        for c in chunk {
            claims.extend(claims_of(&c.set, c.n, &mut skipped));
        }
        rep.count("der_batches", 1);
        match run_batch(&dir, chunk, &claims) {
            Err(e) => rep.inconclusive.push(format!("DER batch inconclusive: {}", one_line(&e, 300))),
            Ok((res, failing)) => {
                rep.count("der_cases_not_type_checking(C01's subject)", failing.len() as u64);
                for cl in claims.iter().filter(|c| !failing.contains(&c.case)) {
                    let id = format!("{}/{}/{}/{}", cl.case, cl.module, cl.ty, cl.variant);
                    let Some(r) = res.get(&id) else {
                        rep.count("der_claims_without_result(inconclusive)", 1);
                        continue;
                    };
                    rep.evaluations += 1;
                    rep.count("der_round_trips", 1);
                    rep.nontrivial.insert(hash_str(&format!("der|{}", cl.hex)));
                    if r == "ok" {
                        rep.count("der_round_trips_ok", 1);
                        continue;
                    }
                    let case = chunk.iter().find(|c| c.n == cl.case).unwrap();
                    let tagging = case.set.modules.iter().find(|m| m.name == cl.module).map(|m| format!("{:?}", m.tagging)).unwrap_or_default();
                    let (kind, detail) = r.split_once('|').unwrap_or((r.as_str(), ""));
                    let sig = format!("c03|der-{kind}|default={tagging}|{}", if kind == "reencode-differs" { String::new() } else { err_class(detail) });
                    let known = findings.known.contains_key(&("C03".to_string(), sig.clone()));
                    let want_class = if kind == "reencode-differs" { String::new() } else { err_class(detail) };
                    let wit = if !known && shrunk.insert(sig.clone()) { Some(shrink(&dir, case, cl, kind, &want_class)) } else { None };
                    rep.violations.push(Violation {
                        sig,
                        what: format!("{}.{} (variant {}): model DER {} -> {} [{}] :: {}", cl.module, cl.ty, cl.variant, cl.hex, one_line(r, 160), case.origin, one_line(wit.as_deref().unwrap_or(&case.set.render().text), 500)),
                        replay: json!({"origin": case.origin, "asn1": case.set.render().text, "minimised": wit, "type": cl.ty, "module": cl.module, "model_der": cl.hex, "result": r,
                            "generated_items": crate::proj::project(&case.text).ok().map(|ms| ms.iter().flat_map(|m| m.items.iter().filter(|i| i.name.contains(&cl.ty)).map(|i| i.text.clone()).collect::<Vec<_>>()).collect::<Vec<_>>())}),
                    });
                }
            }
        }
    }
    for (why, n) in skipped {
        rep.count(&format!("der_types_not_claimed[{}]", one_line(&why, 70)), n);
    }
}

/// minimise a failing set with the runner in the loop (same failure kind for the same type name)
fn shrink(dir: &std::path::PathBuf, case: &Case, cl: &Claim, kind: &str, want_class: &str) -> String {
    let cfg = Cfg::default_cfg();
    let steps = std::cell::Cell::new(0usize);
    let m = gen::shrink(&case.set, &|s| {
        if steps.get() >= 30 || !gen::tags_legal(s) {
            return false;
        }
        // the type under test must still exist
        if !s.modules.iter().any(|m| m.name == cl.module && m.assigns.iter().any(|a| a.name() == cl.ty)) {
            return false;
        }
        steps.set(steps.get() + 1);
        let comp::Outcome::Ok { generated, warnings } = comp::rasn(&s.render_each(), &cfg).out else { return false };
        if !warnings.is_empty() || syn::parse_file(&generated).is_err() {
            return false;
        }
        let mut skipped = BTreeMap::new();
        let claims: Vec<Claim> = claims_of(s, 0, &mut skipped).into_iter().filter(|c| c.module == cl.module && c.ty == cl.ty).collect();
        if claims.is_empty() {
            return false;
        }
        let one = Case { n: 0, set: s.clone(), text: generated, origin: String::new() };
        match run_batch(dir, std::slice::from_ref(&one), &claims) {
            Ok((res, failing)) => {
                failing.is_empty()
                    && res.values().any(|r| {
                        let (k, d) = r.split_once('|').unwrap_or((r.as_str(), ""));
                        k == kind && (kind == "reencode-differs" || err_class(d) == want_class)
                    })
            }
            Err(_) => false,
        }
    });
    m.render().text
}
