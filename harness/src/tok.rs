//! Harness-side ASN.1 tokenizer (X.680 §12) used by mutators and layout transformers.
//! Independent of the compiler's lexer.

#[derive(Clone, Debug, PartialEq, Eq)]
pub enum TKind {
    Word,   // identifiers, references, keywords (letters, digits, hyphens, may start with &)
    Number, // digits (optionally with . for realnumber)
    CStr,   // "..."
    BHStr,  // '...'B / '...'H
    Punct,  // ::= ... .. [[ ]] and single characters
}

#[derive(Clone, Debug, PartialEq, Eq)]
pub struct Tok {
    pub kind: TKind,
    pub start: usize,
    pub end: usize,
}

impl Tok {
    pub fn text<'a>(&self, src: &'a str) -> &'a str {
        &src[self.start..self.end]
    }
}

#[derive(Clone, Debug, PartialEq, Eq)]
pub struct Comment {
    pub start: usize,
    pub end: usize,
}

pub struct Lexed {
    pub toks: Vec<Tok>,
    pub comments: Vec<Comment>,
    /// false when something could not be tokenized cleanly (unterminated string/comment, odd char)
    pub clean: bool,
}

pub fn tokenize(src: &str) -> Lexed {
    let b = src.as_bytes();
    let mut i = 0;
    let mut toks = vec![];
    let mut comments = vec![];
    let mut clean = true;
    while i < b.len() {
        let c = b[i];
        if c.is_ascii_whitespace() || c == 0x0b || c == 0x0c {
            i += 1;
            continue;
        }
        // comments
        if c == b'-' && i + 1 < b.len() && b[i + 1] == b'-' {
            let start = i;
            i += 2;
            loop {
                if i >= b.len() {
                    break;
                }
                if b[i] == b'\n' || b[i] == b'\r' {
                    break;
                }
                if b[i] == b'-' && i + 1 < b.len() && b[i + 1] == b'-' {
                    i += 2;
                    break;
                }
                i += 1;
            }
            comments.push(Comment { start, end: i });
            continue;
        }
        if c == b'/' && i + 1 < b.len() && b[i + 1] == b'*' {
            let start = i;
            let mut depth = 1;
            i += 2;
            while i < b.len() && depth > 0 {
                if b[i] == b'/' && i + 1 < b.len() && b[i + 1] == b'*' {
                    depth += 1;
                    i += 2;
                } else if b[i] == b'*' && i + 1 < b.len() && b[i + 1] == b'/' {
                    depth -= 1;
                    i += 2;
                } else {
                    i += 1;
                }
            }
            if depth > 0 {
                clean = false;
            }
            comments.push(Comment { start, end: i.min(b.len()) });
            continue;
        }
        let start = i;
        if c == b'"' {
            i += 1;
            let mut closed = false;
            while i < b.len() {
                if b[i] == b'"' {
                    if i + 1 < b.len() && b[i + 1] == b'"' {
                        i += 2;
                        continue;
                    }
                    i += 1;
                    closed = true;
                    break;
                }
                i += 1;
            }
            if !closed {
                clean = false;
            }
            toks.push(Tok { kind: TKind::CStr, start, end: i });
            continue;
        }
        if c == b'\'' {
            i += 1;
            while i < b.len() && b[i] != b'\'' {
                i += 1;
            }
            if i < b.len() {
                i += 1;
                if i < b.len() && (b[i] == b'B' || b[i] == b'H') {
                    i += 1;
                } else {
                    clean = false;
                }
            } else {
                clean = false;
            }
            toks.push(Tok { kind: TKind::BHStr, start, end: i });
            continue;
        }
        if c.is_ascii_alphabetic() || c == b'&' {
            i += 1;
            while i < b.len() {
                if b[i].is_ascii_alphanumeric() {
                    i += 1;
                } else if b[i] == b'-' && i + 1 < b.len() && b[i + 1].is_ascii_alphanumeric() {
                    i += 1;
                } else {
                    break;
                }
            }
            toks.push(Tok { kind: TKind::Word, start, end: i });
            continue;
        }
        if c.is_ascii_digit() || (c == b'-' && i + 1 < b.len() && b[i + 1].is_ascii_digit()) {
            // a sign directly in front of digits is kept with the number (X.680 SignedNumber is written without blank in practice)
            if c == b'-' {
                i += 1;
            }
            while i < b.len() && b[i].is_ascii_digit() {
                i += 1;
            }
            // realnumber fraction: digits '.' digits (but not '..')
            if i + 1 < b.len() && b[i] == b'.' && b[i + 1].is_ascii_digit() {
                i += 1;
                while i < b.len() && b[i].is_ascii_digit() {
                    i += 1;
                }
            }
            toks.push(Tok { kind: TKind::Number, start, end: i });
            continue;
        }
        // punctuation
        let rest = &src[i..];
        let len = if rest.starts_with("::=") || rest.starts_with("...") {
            3
        } else if rest.starts_with("..") || rest.starts_with("[[") || rest.starts_with("]]") {
            2
        } else if c < 0x80 {
            1
        } else {
            clean = false;
            rest.chars().next().map_or(1, |ch| ch.len_utf8())
        };
        i += len;
        toks.push(Tok { kind: TKind::Punct, start, end: i });
    }
    Lexed { toks, comments, clean }
}

/// Whether two adjacent token texts stay separate tokens when written without whitespace between them.
pub fn separable_without_space(a: &str, b: &str) -> bool {
    let joined = format!("{a}{b}");
    let l = tokenize(&joined);
    l.clean && l.comments.is_empty() && l.toks.len() == 2 && l.toks[0].end == a.len() && l.toks[1].start == a.len()
}

#[cfg(test)]
mod tests {
    use super::*;
    #[test]
    fn basic() {
        let s = "A ::= SEQUENCE { a-b INTEGER (0..5, ...), -- c\n b [[ c BOOLEAN ]] } /* x /* y */ */ v ::= '01'B \"a\"\"b\"";
        let l = tokenize(s);
        assert!(l.clean);
        let t: Vec<&str> = l.toks.iter().map(|t| t.text(s)).collect();
        assert_eq!(t, vec!["A", "::=", "SEQUENCE", "{", "a-b", "INTEGER", "(", "0", "..", "5", ",", "...", ")", ",", "b", "[[", "c", "BOOLEAN", "]]", "}", "v", "::=", "'01'B", "\"a\"\"b\""]);
        assert_eq!(l.comments.len(), 2);
        assert!(separable_without_space("a", "::="));
        assert!(!separable_without_space("a", "b"));
        assert!(!separable_without_space("-", "-"));
        assert!(!separable_without_space(".", ".."));
    }
}
