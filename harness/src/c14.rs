//! C14 — ENUMERATED numbering per X.680 §20 (reference model vs O1 projection).
use crate::comp;
use crate::core::*;
use crate::proj::{self, Kind};
use serde_json::json;

const ALPHA: [Option<i64>; 6] = [None, Some(-1), Some(0), Some(1), Some(2), Some(5)];

#[derive(Clone, Debug, PartialEq, Eq, Hash)]
pub struct EnumCase {
    pub root: Vec<Option<i64>>,
    /// None = no extension marker
    pub adds: Option<Vec<Option<i64>>>,
    /// 0 = top-level assignment, 1 = anonymous SEQUENCE component, 2 = CHOICE alternative
    pub ctx: u8,
    /// use hyphenated enumeral names (forces identifier annotations)
    pub hyphen: bool,
}

impl EnumCase {
    pub fn key(&self) -> String {
        let f = |v: &Vec<Option<i64>>| v.iter().map(|x| x.map_or("_".to_string(), |n| n.to_string())).collect::<Vec<_>>().join(",");
        format!(
            "r:{}|a:{}|c{}{}",
            f(&self.root),
            self.adds.as_ref().map_or("none".to_string(), f),
            self.ctx,
            if self.hyphen { "h" } else { "" }
        )
    }
    pub fn parse(s: &str) -> Option<EnumCase> {
        let mut parts = s.split('|');
        let r = parts.next()?.strip_prefix("r:")?;
        let a = parts.next()?.strip_prefix("a:")?;
        let c = parts.next()?.strip_prefix('c')?;
        let f = |s: &str| -> Vec<Option<i64>> {
            if s.is_empty() {
                vec![]
            } else {
                s.split(',').map(|x| if x == "_" { None } else { x.parse().ok() }).collect()
            }
        };
        Some(EnumCase {
            root: f(r),
            adds: if a == "none" { None } else { Some(f(a)) },
            ctx: c.trim_end_matches('h').parse().ok()?,
            hyphen: c.ends_with('h'),
        })
    }
    fn names(&self) -> (Vec<String>, Vec<String>) {
        // hostile-name mode: hyphenated names and Rust keywords (both force an identifier annotation)
        const KW: [&str; 24] = [
            "final", "static", "in", "abstract", "virtual", "type", "match", "loop", "self", "try", "fn", "let", "mut", "ref", "use", "mod", "pub", "impl", "for", "if",
            "else", "while", "move", "box",
        ];
        let nm = |i: usize| {
            if self.hyphen && i % 3 == 1 {
                format!("eq-x{i}")
            } else if self.hyphen && i % 3 == 2 && i < 3 * KW.len() {
                KW[i / 3].to_string()
            } else {
                format!("eq{i}")
            }
        };
        let r = (0..self.root.len()).map(nm).collect();
        let a = (0..self.adds.as_ref().map_or(0, |a| a.len())).map(|i| nm(i + self.root.len())).collect();
        (r, a)
    }
    pub fn body(&self) -> String {
        let (rn, an) = self.names();
        let item = |n: &String, v: &Option<i64>| match v {
            Some(x) => format!("{n}({x})"),
            None => n.clone(),
        };
        let mut parts: Vec<String> = self.root.iter().zip(&rn).map(|(v, n)| item(n, v)).collect();
        if let Some(adds) = &self.adds {
            parts.push("...".into());
            parts.extend(adds.iter().zip(&an).map(|(v, n)| item(n, v)));
        }
        format!("ENUMERATED {{ {} }}", parts.join(", "))
    }
    /// (text of assignment, name of the Rust item that must be the enum)
    pub fn assignment(&self, idx: usize) -> (String, String) {
        match self.ctx {
            0 => (format!("Tq{idx} ::= {}", self.body()), format!("Tq{idx}")),
            1 => (format!("Tq{idx} ::= SEQUENCE {{ fq1 BOOLEAN, fq2 {} }}", self.body()), format!("Tq{idx}Fq2")),
            _ => (format!("Tq{idx} ::= CHOICE {{ cq1 NULL, cq2 {} }}", self.body()), format!("Tq{idx}Cq2")),
        }
    }
    /// X.680 §20 numbering; None when the input is not legal ASN.1 (not a claim).
    pub fn expected(&self) -> Option<(Vec<i64>, Vec<i64>)> {
        let explicit_root: Vec<i64> = self.root.iter().flatten().copied().collect();
        let mut d = explicit_root.clone();
        d.sort();
        d.dedup();
        if d.len() != explicit_root.len() || self.root.is_empty() {
            return None;
        }
        let mut next = 0i64;
        let mut root = vec![];
        for v in &self.root {
            match v {
                Some(n) => root.push(*n),
                None => {
                    while explicit_root.contains(&next) {
                        next += 1;
                    }
                    root.push(next);
                    next += 1;
                }
            }
        }
        let mut adds = vec![];
        if let Some(a) = &self.adds {
            for v in a {
                let last: Option<i64> = adds.last().copied();
                match v {
                    Some(n) => {
                        // §20.4 distinct from everything before, §20.5 ascending among additions
                        if root.contains(n) || last.is_some_and(|l| *n <= l) {
                            return None;
                        }
                        adds.push(*n);
                    }
                    None => {
                        // §20.6 smallest value not in root with all preceding additions smaller
                        let mut c = last.map_or(0, |l| l + 1).max(0);
                        while root.contains(&c) {
                            c += 1;
                        }
                        adds.push(c);
                    }
                }
            }
        }
        Some((root, adds))
    }
}

fn enumerate(max_root: usize, max_add: usize) -> Vec<EnumCase> {
    fn seqs(len: usize) -> Vec<Vec<Option<i64>>> {
        let mut out = vec![vec![]];
        for _ in 0..len {
            let mut n = vec![];
            for s in &out {
                for a in ALPHA {
                    let mut t = s.clone();
                    t.push(a);
                    n.push(t);
                }
            }
            out = n;
        }
        out
    }
    let mut cases = vec![];
    for rl in 1..=max_root {
        for r in seqs(rl) {
            let ex: Vec<i64> = r.iter().flatten().copied().collect();
            let mut d = ex.clone();
            d.sort();
            d.dedup();
            if d.len() != ex.len() {
                continue;
            }
            cases.push(EnumCase { root: r.clone(), adds: None, ctx: 0, hyphen: false });
            for al in 0..=max_add {
                for a in seqs(al) {
                    cases.push(EnumCase { root: r.clone(), adds: Some(a), ctx: 0, hyphen: false });
                }
            }
        }
    }
    cases
}

fn random_case(rng: &mut Rng) -> EnumCase {
    let rl = 1 + rng.below(14);
    let mut used = std::collections::BTreeSet::new();
    let gen = |rng: &mut Rng, used: &mut std::collections::BTreeSet<i64>, lo: i64| -> Option<i64> {
        if rng.chance(1, 2) {
            None
        } else {
            for _ in 0..8 {
                let v = if rng.chance(1, 6) { rng.range(-1000, 100000) } else { rng.range(lo.max(-3), lo.max(-3) + 24) };
                if used.insert(v) {
                    return Some(v);
                }
            }
            None
        }
    };
    let root: Vec<Option<i64>> = (0..rl).map(|_| gen(rng, &mut used, -3)).collect();
    let adds = if rng.chance(1, 3) {
        None
    } else {
        let al = rng.below(7);
        // ascending explicit additions starting above a base so that most cases are legal
        let mut base = 20 + rng.range(0, 10);
        let mut v = vec![];
        for _ in 0..al {
            if rng.chance(1, 2) {
                v.push(None);
                base += 1 + rng.range(0, 1);
            } else {
                base += 1 + rng.range(0, 4);
                v.push(Some(base));
            }
        }
        // sometimes small explicit first addition
        if al > 0 && rng.chance(1, 4) {
            v[0] = Some(rng.range(0, 12));
        }
        Some(v)
    };
    EnumCase { root, adds, ctx: rng.below(3) as u8, hyphen: rng.chance(1, 3) }
}

/// Compare one projected enum with the model. Returns (kind, detail) discrepancies.
fn judge(case: &EnumCase, item: &proj::Item) -> Vec<(String, String)> {
    let mut out = vec![];
    let (er, ea) = match case.expected() {
        Some(x) => x,
        None => return out,
    };
    let Kind::Enum { variants } = &item.kind else {
        out.push(("not-an-enum".into(), "item is not an enum".into()));
        return out;
    };
    let (rn, an) = case.names();
    let all_names: Vec<String> = rn.iter().chain(an.iter()).cloned().collect();
    let all_exp: Vec<i64> = er.iter().chain(ea.iter()).copied().collect();
    if variants.len() != all_names.len() {
        out.push(("count".into(), format!("{} variants for {} enumerals", variants.len(), all_names.len())));
        return out;
    }
    let mut seen = std::collections::BTreeSet::new();
    for (i, v) in variants.iter().enumerate() {
        // names preserved in order: either the Rust ident equals the ASN.1 name or identifier annotation carries it
        let asn = &all_names[i];
        let ok_name = &v.name == asn || v.attrs.kv("identifier") == Some(asn.as_str());
        if !ok_name {
            out.push(("names".into(), format!("variant {i} is `{}` (identifier={:?}) for enumeral `{asn}`", v.name, v.attrs.kv("identifier"))));
        }
        let got: Option<i64> = v.discr.as_ref().and_then(|d| d.replace(' ', "").parse().ok());
        let Some(got) = got else {
            out.push(("no-discriminant".into(), format!("variant {} has discriminant {:?}", v.name, v.discr)));
            continue;
        };
        if !seen.insert(got) {
            out.push(("duplicate".into(), format!("number {got} used twice (variant {})", v.name)));
        }
        if got != all_exp[i] {
            let is_root = i < er.len();
            let explicit = if is_root { case.root[i].is_some() } else { case.adds.as_ref().unwrap()[i - er.len()].is_some() };
            let kind = match (explicit, is_root) {
                (true, _) => "explicit-not-kept",
                (false, true) => "root-auto-number",
                (false, false) => "addition-number",
            };
            out.push((kind.into(), format!("enumeral {asn}: got {got}, X.680 gives {}", all_exp[i])));
        }
        let ext_marked = v.attrs.has("extension_addition");
        if ext_marked != (i >= er.len()) {
            out.push(("addition-marking".into(), format!("enumeral {asn}: extension_addition={ext_marked}")));
        }
    }
    out
}

fn compile_batch(cases: &[EnumCase]) -> (String, Vec<String>) {
    let mut src = String::from("Mq1 DEFINITIONS AUTOMATIC TAGS ::= BEGIN\n");
    let mut names = vec![];
    for (i, c) in cases.iter().enumerate() {
        let (t, n) = c.assignment(i);
        src.push_str(&t);
        src.push('\n');
        names.push(n);
    }
    src.push_str("END\n");
    (src, names)
}

fn check_batch(cases: &[EnumCase], rep: &mut Report) {
    let (src, names) = compile_batch(cases);
    let run = comp::rasn1(&src);
    let mods = match &run.out {
        comp::Outcome::Ok { generated, warnings } if warnings.is_empty() => proj::project(generated).ok(),
        _ => None,
    };
    let Some(mods) = mods else {
        if cases.len() == 1 {
            rep.evaluations += 1;
            // legal input that does not compile cleanly: not a C14 claim, but record
            if cases[0].expected().is_some() {
                rep.count("legal_input_not_compiled_cleanly", 1);
                rep.inconclusive.push(format!("{} -> {}", cases[0].key(), run.out.brief()));
            }
            return;
        }
        for c in cases {
            check_batch(std::slice::from_ref(c), rep);
        }
        return;
    };
    let m = &mods[0];
    for (c, n) in cases.iter().zip(&names) {
        rep.evaluations += 1;
        if c.expected().is_none() {
            rep.count("illegal_input_skipped", 1);
            continue;
        }
        let Some(item) = m.find(n) else {
            rep.violations.push(Violation {
                sig: "c14|missing-item".into(),
                what: format!("no enum item `{n}` generated for {}", c.body()),
                replay: json!({"case": c.key(), "asn1": c.assignment(0).0}),
            });
            continue;
        };
        let ds = judge(c, item);
        rep.nontrivial.insert(hash_str(&c.key()));
        rep.count("enums_compared", 1);
        if let Kind::Enum { variants } = &item.kind {
            rep.count("discriminants_compared", variants.len() as u64);
        }
        if c.root.iter().any(|x| x.is_some()) && c.root.iter().any(|x| x.is_none()) {
            rep.count("mixed_root_numbering_cases", 1);
        }
        if rep.samples.len() < 4 && rep.evaluations % 977 == 1 {
            rep.sample(json!({"asn1": c.assignment(0).0, "generated_enum": item.text, "expected_numbers": c.expected()}));
        }
        for (kind, detail) in ds {
            rep.violations.push(Violation {
                sig: format!("c14|{kind}"),
                what: format!("{} :: {detail}", c.body()),
                replay: json!({"case": c.key(), "asn1": c.assignment(0).0, "generated": item.text, "expected": c.expected()}),
            });
        }
    }
}

pub fn run(ctx: &Ctx) -> Report {
    let mut rep = Report::new(
        "fault_enumeration",
        "exhaustive: every ENUMERATED with <=R root items and <=A additions, each item identifier-only or numbered from {-1,0,1,2,5}, explicit root numbers distinct (quick R=4,A=2; thorough R=5,A=3), as top-level assignment; plus the <=3/<=2 sub-space nested in SEQUENCE / CHOICE and with hyphenated names; plus seeded random larger enumerations (<=14 root, <=6 additions). Non-trivial = legal by X.680 20.3-20.6, compiled without warning and its discriminants compared; distinct by case key.",
    );
    rep.must_observe = vec!["enums_compared".into(), "mixed_root_numbering_cases".into()];
    rep.assumptions = vec!["X.680 20.3-20.6 numbering as implemented in c14.rs::expected (40 lines)".into(), "syn projection of discriminants".into()];
    if let Some(path) = &ctx.replay {
        let doc: serde_json::Value = serde_json::from_str(&std::fs::read_to_string(path).expect("replay file")).expect("json");
        let key = doc["case"]["case"].as_str().expect("case key");
        let c = EnumCase::parse(key).expect("parse case key");
        check_batch(&[c], &mut rep);
        return rep;
    }
    let (r, a) = ctx.pick((4, 2), (5, 3));
    let mut cases = enumerate(r, a);
    rep.exhaustive = Some(true);
    // nested / hyphen variants of the small sub-space
    for c in enumerate(3, 2) {
        for (cx, hy) in [(1u8, false), (2, false), (0, true), (1, true)] {
            let mut n = c.clone();
            n.ctx = cx;
            n.hyphen = hy;
            cases.push(n);
        }
    }
    let nrand = ctx.pick(20_000u64, 300_000);
    for i in 0..nrand {
        let mut rng = Rng::for_case(ctx.seed, 14, i);
        cases.push(random_case(&mut rng));
    }
    let acc = Acc::new(rep);
    let chunks: Vec<&[EnumCase]> = cases.chunks(64).collect();
    par_for(chunks.len() as u64, |i| {
        let mut local = Report::default();
        check_batch(chunks[i as usize], &mut local);
        acc.with(|r| r.merge(local));
    });
    acc.into_inner()
}
