//! C13 — whitespace, line endings and comments between tokens do not matter (metamorphic).
use crate::c08::{load_corpus, Corpus};
use crate::comp::{self, Cfg};
use crate::core::*;
use crate::gen::{self, GenOpts};
use crate::proj;
use crate::tok::{self, TKind};
use serde_json::json;

pub const FORMS: [(&str, &str, &str); 20] = [
    // a comment directly after the left token, no blank in between (`Wind-Speed-- km/h`): `--` cannot be part of a
    // reference or number, so it starts a comment (X.680 12.6.1)
    ("line-comment-glued", "-- c\n", "comment"),
    ("inline-comment-glued", "--c--", "comment"),
    ("tab", "\t", "ws"),
    ("lf", "\n", "ws"),
    ("crlf", "\r\n", "ws"),
    ("spaces", "   \n  ", "ws"),
    ("none", "", "none"),
    ("line-comment", " -- c\n", "comment"),
    ("line-comment-crlf", " -- c\r\n", "comment"),
    ("inline-comment", " -- c -- ", "comment"),
    ("block-comment", " /* c */ ", "comment"),
    ("block-comment-tight", "/* c */", "comment"),
    ("nested-block-comment", " /* a /* b */ c */ ", "comment"),
    ("block-comment-hostile", " /* \"q\" { } END SEQUENCE ::= é中 */ ", "comment"),
    ("line-comment-hostile", " -- \"x\" END { é\n", "comment"),
    ("block-comment-multiline", " /* a\n b */ ", "comment"),
    ("block-comment-lone-quote", " /* 3.5\" drive */ ", "comment"),
    // empty comments: `--` closed by the very next `--` (X.680 12.6.3), once and twice in a row
    ("empty-comment", " ---- ", "comment"),
    ("empty-comments-run", " -------- ", "comment"),
    // comment text that happens to read like the doc text the compiler gives to the types it makes up itself (last entry)
    ("line-comment-marker-words", " -- Anonymous inner type\n", "comment"),
];

const RESERVED: &[&str] = &[
    "ABSENT", "ABSTRACT-SYNTAX", "ALL", "APPLICATION", "AUTOMATIC", "BEGIN", "BIT", "BMPString", "BOOLEAN", "BY", "CHARACTER", "CHOICE", "CLASS", "COMPONENT",
    "COMPONENTS", "CONSTRAINED", "CONTAINING", "DATE", "DATE-TIME", "DEFAULT", "DEFINITIONS", "DURATION", "EMBEDDED", "ENCODED", "ENCODING-CONTROL", "END",
    "ENUMERATED", "EXCEPT", "EXPLICIT", "EXPORTS", "EXTENSIBILITY", "EXTERNAL", "FALSE", "FROM", "GeneralizedTime", "GeneralString", "GraphicString", "IA5String",
    "IDENTIFIER", "IMPLICIT", "IMPLIED", "IMPORTS", "INCLUDES", "INSTANCE", "INSTRUCTIONS", "INTEGER", "INTERSECTION", "ISO646String", "MAX", "MIN",
    "MINUS-INFINITY", "NOT-A-NUMBER", "NULL", "NumericString", "OBJECT", "ObjectDescriptor", "OCTET", "OF", "OID-IRI", "OPTIONAL", "PATTERN", "PDV",
    "PLUS-INFINITY", "PRESENT", "PrintableString", "PRIVATE", "REAL", "RELATIVE-OID", "RELATIVE-OID-IRI", "SEQUENCE", "SET", "SETTINGS", "SIZE", "STRING",
    "SYNTAX", "T61String", "TAGS", "TeletexString", "TIME", "TIME-OF-DAY", "TRUE", "TYPE-IDENTIFIER", "UNION", "UNIQUE", "UNIVERSAL", "UniversalString",
    "UTCTime", "UTF8String", "VideotexString", "VisibleString", "WITH", "ANY", "DEFINED", "MACRO", "SUCCESSORS", "DESCENDANTS",
];

fn tclass(kind: &TKind, text: &str) -> String {
    match kind {
        TKind::Word => {
            if RESERVED.contains(&text) {
                text.to_string()
            } else if text.chars().all(|c| c.is_ascii_uppercase() || c.is_ascii_digit() || c == '-') && text.len() > 1 {
                "CLASSREF".into()
            } else if text.starts_with(|c: char| c.is_ascii_uppercase()) {
                "Typeref".into()
            } else {
                "ident".into()
            }
        }
        TKind::Number => "number".into(),
        TKind::CStr => "cstring".into(),
        TKind::BHStr => "bhstring".into(),
        TKind::Punct => text.to_string(),
    }
}

/// outcome digest: status + doc-free token-normalised bindings
fn digest(run: &comp::Run) -> (String, Option<String>) {
    match &run.out {
        comp::Outcome::Ok { generated, warnings } => match proj::project(generated) {
            Ok(mods) => {
                let mut s = String::new();
                for m in &mods {
                    s.push_str(&format!("mod {}{{", m.name));
                    for it in &m.items {
                        s.push_str(&it.text);
                        s.push('\n');
                    }
                    s.push('}');
                }
                (format!("Ok/{}w", warnings.len()), Some(s))
            }
            Err(_) => (format!("Ok/{}w/unparsable", warnings.len()), Some(generated.clone())),
        },
        comp::Outcome::Err { .. } => ("Err".into(), None),
        comp::Outcome::Panic(_) => ("Panic".into(), None),
    }
}

struct Input {
    origin: String,
    toks: Vec<(TKind, String)>,
    /// separators of the baseline layout (empty = one blank everywhere); templates keep the layout they are written in
    gaps: Vec<String>,
}

fn join(inp: &Input, at: Option<(usize, &str)>) -> String {
    let toks = &inp.toks;
    let mut s = String::new();
    for (i, (_, t)) in toks.iter().enumerate() {
        s.push_str(t);
        if i + 1 < toks.len() {
            match at {
                Some((b, sep)) if b == i => s.push_str(sep),
                _ => s.push_str(inp.gaps.get(i).map_or(" ", |g| g.as_str())),
            }
        }
    }
    s.push('\n');
    s
}

/// boundaries we do not touch: `-` directly before a number (X.680 treats the sign as part of the literal in practice)
fn skip_boundary(toks: &[(TKind, String)], b: usize) -> bool {
    let (_, l) = &toks[b];
    let (rk, _) = &toks[b + 1];
    l == "-" && *rk == TKind::Number
}

fn check_input(inp: &Input, forms: &[usize], max_boundaries: usize, rng: &mut Rng, rep: &mut Report) {
    check_input_part(inp, forms, max_boundaries, rng, rep, None)
}

/// `part` = (k, n): only the boundaries b with b % n == k (lets several workers share one large input)
fn check_input_part(inp: &Input, forms: &[usize], max_boundaries: usize, rng: &mut Rng, rep: &mut Report, part: Option<(usize, usize)>) {
    let cfg = Cfg::default_cfg();
    let base_text = join(&inp, None);
    let base = comp::rasn(&[base_text.clone()], &cfg);
    let (bstatus, bdigest) = digest(&base);
    if bstatus == "Panic" {
        rep.count("baseline_panics(C08's subject)", 1);
        return;
    }
    rep.count(&format!("baseline[{}]", if bstatus.starts_with("Ok") { "Ok" } else { "Err" }), 1);
    if inp.origin.starts_with("T(") && part.map_or(true, |(k, _)| k == 0) {
        rep.count(&format!("template_baseline[{} {}]", inp.origin, one_line(&base.out.brief(), 150)), 1);
    }
    if !bstatus.starts_with("Ok") && inp.origin.starts_with("G(") && std::env::var("VERIF_DEBUG").is_ok() {
        eprintln!("G baseline Err: {} :: {}\n{}", inp.origin, base.out.brief(), base_text);
    }
    let nb = inp.toks.len().saturating_sub(1);
    let mut bs: Vec<usize> = (0..nb).filter(|b| !skip_boundary(&inp.toks, *b) && part.map_or(true, |(k, n)| b % n == k)).collect();
    if bs.len() > max_boundaries {
        rng.shuffle(&mut bs);
        bs.truncate(max_boundaries);
    } else {
        rep.count("inputs_with_every_boundary_tried", 1);
    }
    for &b in &bs {
        for &fi in forms {
            let (fname, sep, fclass) = FORMS[fi];
            let (lk, lt) = &inp.toks[b];
            let (rk, rt) = &inp.toks[b + 1];
            if fclass == "none" && !tok::separable_without_space(lt, rt) {
                continue;
            }
            // tight block comment must not glue into `/` or `*` neighbours, nor let two words run together — it separates tokens by itself
            let text = join(&inp, Some((b, sep)));
            // guard: our own tokenizer must see the same token sequence in the transformed text
            let re = tok::tokenize(&text);
            if !re.clean || re.toks.len() != inp.toks.len() || re.toks.iter().zip(&inp.toks).any(|(a, b)| a.text(&text) != b.1) {
                rep.count("transform_rejected_by_own_tokenizer", 1);
                continue;
            }
            rep.evaluations += 1;
            let run = comp::rasn(&[text.clone()], &cfg);
            let (status, dg) = digest(&run);
            rep.count(&format!("relayouts[{fclass}]"), 1);
            rep.note("forms_tried", fname);
            rep.nontrivial.insert(hash_str(&text));
            let kind = if status.split('/').next() != bstatus.split('/').next() {
                Some(format!("status:{}->{}", bstatus.split('/').next().unwrap(), status.split('/').next().unwrap()))
            } else if status != bstatus {
                Some("warnings-changed".to_string())
            } else if dg != bdigest {
                Some("bindings-changed".to_string())
            } else {
                None
            };
            if rep.samples.len() < 4 && rep.evaluations % 7919 == 11 {
                rep.sample(json!({"origin": inp.origin, "boundary": format!("`{lt}` | `{rt}`"), "form": fname, "baseline": bstatus, "relayout": status}));
            }
            if let Some(kind) = kind {
                let fam = if fclass == "comment" { if sep.contains("/*") { "block-comment" } else { "line-comment" } } else { fclass };
                // is the boundary inside the body of a user-defined constraint, `CONSTRAINED BY { ... }`?
                let in_constrained_by = {
                    let mut depth = 0i32;
                    let mut found = false;
                    for k in (0..=b).rev() {
                        match inp.toks[k].1.as_str() {
                            "}" => depth += 1,
                            "{" => {
                                if depth == 0 {
                                    found = k >= 2 && inp.toks[k - 1].1 == "BY" && inp.toks[k - 2].1 == "CONSTRAINED";
                                    break;
                                }
                                depth -= 1;
                            }
                            _ => {}
                        }
                    }
                    found
                };
                let sig = if fname == "line-comment-marker-words" && kind == "bindings-changed" {
                    // root cause named by the form: the generator tells its own synthetic types by their doc text
                    "c13|bindings-changed|comment-reads-like-the-doc-text-of-a-synthetic-type|line-comment".to_string()
                } else if in_constrained_by && sep.contains(['{', '}']) {
                    format!("c13|{kind}|brace-in-comment-inside-CONSTRAINED-BY-body|{fam}")
                } else if inp.origin.starts_with("G(") || inp.origin.starts_with("T(") {
                    format!("c13|{kind}|{} {}|{fam}", tclass(lk, lt), tclass(rk, rt))
                } else {
                    // real-world modules exercise notation outside the supported-notation grammar (information objects, MACRO,
                    // parameter lists, WITH SYNTAX bodies, ENCODING-CONTROL): one coarse signature per outcome kind and separator family
                    format!("c13|{kind}|corpus|{fam}")
                };
                rep.violations.push(Violation {
                    sig,
                    what: format!("{} between `{lt}` and `{rt}` ({fname}): baseline {bstatus}, after re-layout {status} [{}]", kind, inp.origin),
                    replay: json!({"origin": inp.origin, "boundary": b, "form": fname, "baseline_text": base_text, "relayout_text": text,
                        "baseline": base.out.brief(), "relayout": run.out.brief()}),
                });
            }
        }
    }
}

fn join_multi(inp: &Input, seps: &[Option<&str>]) -> String {
    let toks = &inp.toks;
    let mut s = String::new();
    for (i, (_, t)) in toks.iter().enumerate() {
        s.push_str(t);
        if i + 1 < toks.len() {
            s.push_str(seps[i].unwrap_or(inp.gaps.get(i).map_or(" ", |g| g.as_str())));
        }
    }
    s.push('\n');
    s
}

/// random subsets of boundaries, each with its own random form (mixed line endings, several comment kinds at once)
fn check_multi(inp: &Input, n: usize, rng: &mut Rng, rep: &mut Report) {
    let cfg = Cfg::default_cfg();
    let base_text = join(&inp, None);
    let base = comp::rasn(&[base_text.clone()], &cfg);
    let (bstatus, bdigest) = digest(&base);
    if bstatus == "Panic" {
        return;
    }
    let nb = inp.toks.len().saturating_sub(1);
    for _ in 0..n {
        let density = 1 + rng.below(6) as u32;
        let mut seps: Vec<Option<&str>> = vec![None; nb];
        for b in 0..nb {
            if skip_boundary(&inp.toks, b) || !rng.chance(1, density) {
                continue;
            }
            // (the marker-words comment is a single-boundary form with a signature of its own)
            let fi = rng.below(FORMS.len() - 1);
            let (_fname, sep, fclass) = FORMS[fi];
            if fclass == "none" && !tok::separable_without_space(&inp.toks[b].1, &inp.toks[b + 1].1) {
                continue;
            }
            seps[b] = Some(sep);
        }
        let text = join_multi(&inp, &seps);
        let re = tok::tokenize(&text);
        if !re.clean || re.toks.len() != inp.toks.len() || re.toks.iter().zip(&inp.toks).any(|(a, b)| a.text(&text) != b.1) {
            rep.count("transform_rejected_by_own_tokenizer", 1);
            continue;
        }
        rep.evaluations += 1;
        rep.count("relayouts[multi-boundary]", 1);
        rep.nontrivial.insert(hash_str(&text));
        let run = comp::rasn(&[text.clone()], &cfg);
        let (status, dg) = digest(&run);
        let kind = if status.split('/').next() != bstatus.split('/').next() {
            Some(format!("status:{}->{}", bstatus.split('/').next().unwrap(), status.split('/').next().unwrap()))
        } else if status != bstatus {
            Some("warnings-changed".to_string())
        } else if dg != bdigest {
            Some("bindings-changed".to_string())
        } else {
            None
        };
        if let Some(kind) = kind {
            // minimise the set of re-laid boundaries (greedy, deterministic); only for the first few violations of a run
            let mut cur: Vec<Option<&str>> = seps.clone();
            let budget_ok = MINIMISED.fetch_add(1, std::sync::atomic::Ordering::Relaxed) < 8 && inp.toks.len() <= 1500;
            let violates = |sp: &[Option<&str>]| -> bool {
                let t = join_multi(&inp, sp);
                let (st, d) = digest(&comp::rasn(&[t], &cfg));
                let k = if st.split('/').next() != bstatus.split('/').next() {
                    Some(format!("status:{}->{}", bstatus.split('/').next().unwrap(), st.split('/').next().unwrap()))
                } else if st != bstatus {
                    Some("warnings-changed".to_string())
                } else if d != bdigest {
                    Some("bindings-changed".to_string())
                } else {
                    None
                };
                k.as_deref() == Some(kind.as_str())
            };
            if budget_ok {
                // chunked removal first, then single removal
                let mut chunk = cur.iter().filter(|x| x.is_some()).count() / 2;
                while chunk >= 1 {
                    let idxs: Vec<usize> = (0..nb).filter(|b| cur[*b].is_some()).collect();
                    let mut progressed = false;
                    for c in idxs.chunks(chunk) {
                        let mut cand = cur.clone();
                        for b in c {
                            cand[*b] = None;
                        }
                        if cand.iter().any(|x| x.is_some()) && violates(&cand) {
                            cur = cand;
                            progressed = true;
                        }
                    }
                    if !progressed {
                        chunk /= 2;
                    }
                }
            }
            let rest: Vec<usize> = (0..nb).filter(|b| cur[*b].is_some()).collect();
            let key = if budget_ok && rest.len() <= 3 {
                rest.iter()
                    .map(|b| {
                        let (lk, lt) = &inp.toks[*b];
                        let (rk, rt) = &inp.toks[*b + 1];
                        let sep = cur[*b].unwrap();
                        let fam = FORMS.iter().find(|f| f.1 == sep).map(|f| if f.2 == "comment" { if sep.contains("/*") { "block-comment" } else { "line-comment" } } else { f.2 }).unwrap_or("?");
                        format!("{} {}|{fam}", tclass(lk, lt), tclass(rk, rt))
                    })
                    .collect::<Vec<_>>()
                    .join(" + ")
            } else {
                "multi-boundary".to_string()
            };
            let min_text = join_multi(&inp, &cur);
            rep.violations.push(Violation {
                sig: if inp.origin.starts_with("G(") { format!("c13|{kind}|{key}") } else { format!("c13|{kind}|corpus|multi-boundary") },
                what: format!("{kind} after re-laying out {} boundaries (minimal set {}): baseline {bstatus}, after {status} [{}]", seps.iter().filter(|s| s.is_some()).count(), rest.len(), inp.origin),
                replay: json!({"origin": inp.origin, "baseline_text": base_text, "relayout_text": min_text, "baseline": base.out.brief(), "relayout": run.out.brief()}),
            });
        }
    }
}

static MINIMISED: std::sync::atomic::AtomicUsize = std::sync::atomic::AtomicUsize::new(0);

fn g_input(seed: u64, idx: u64) -> Input {
    let o = GenOpts { modules: (1, 2), assigns: (1, 7), max_depth: 2, max_comps: 4, ..GenOpts::default() };
    let set = gen::random_set(seed, 1300, idx, &o);
    let r = set.render();
    let lx = tok::tokenize(&r.text);
    Input { origin: format!("G(seed={seed},idx={idx})"), toks: lx.toks.iter().map(|t| (t.kind.clone(), t.text(&r.text).to_string())).collect(), gaps: vec![] }
}

/// Hand-written inputs for notation grammar G does not spell: IMPORTS clauses with several SymbolsFromModule (value
/// references first, object identifiers, WITH SUCCESSORS), external references `Module.Type` / `Module.value`, EXPORTS,
/// information object classes with WITH SYNTAX, objects, object sets and table constraints, parameterized types, the value
/// notations, the constraint notations and the less common type notations. Every boundary of every template is tried.
pub const TEMPLATES: [&str; 6] = [
    // 0: module headers, IMPORTS / EXPORTS, external references
    r#"Base-Mod {iso standard(0) 9999 base(1)} DEFINITIONS AUTOMATIC TAGS ::= BEGIN
EXPORTS Flag, Length, limit;
Flag ::= BOOLEAN
Length ::= INTEGER (0..255)
limit INTEGER ::= 5
END
Extra-Mod DEFINITIONS IMPLICIT TAGS EXTENSIBILITY IMPLIED ::= BEGIN
EXPORTS ALL;
Mark ::= ENUMERATED {low, high}
top INTEGER ::= 9
END
Third-Mod DEFINITIONS EXPLICIT TAGS ::= BEGIN
floor INTEGER ::= 1
Cell ::= OCTET STRING
END
User-Mod DEFINITIONS EXPLICIT TAGS ::= BEGIN
IMPORTS Flag, Length FROM Base-Mod {iso standard(0) 9999 base(1)} WITH SUCCESSORS
top, Mark FROM Extra-Mod
floor, Cell FROM Third-Mod;
Rec ::= SEQUENCE {a Flag, b Length DEFAULT 5, c Mark OPTIONAL, d Base-Mod.Flag, e INTEGER (floor..top), f Third-Mod.Cell}
v1 Base-Mod.Length ::= 7
v2 INTEGER ::= Extra-Mod.top
END
"#,
    // 1: information object classes, objects, object sets, table constraints
    r#"Obj-Mod DEFINITIONS AUTOMATIC TAGS ::= BEGIN
OPERATION ::= CLASS {&code INTEGER UNIQUE, &Arg OPTIONAL, &name PrintableString DEFAULT "op"} WITH SYNTAX {CODE &code [ARGUMENT &Arg] [NAMED &name]}
add OPERATION ::= {CODE 1 ARGUMENT INTEGER NAMED "add"}
neg OPERATION ::= {CODE 2 ARGUMENT BOOLEAN}
Ops OPERATION ::= {add | neg, ...}
Invoke ::= SEQUENCE {code OPERATION.&code ({Ops}), arg OPERATION.&Arg ({Ops}{@code}) OPTIONAL}
PLAIN ::= CLASS {&id INTEGER UNIQUE, &Type}
pa PLAIN ::= {&id 1, &Type NULL}
PSet PLAIN ::= {pa}
Holder ::= SEQUENCE {id PLAIN.&id ({PSet}), val PLAIN.&Type ({PSet}{@id})}
END
"#,
    // 2: parameterized types and values
    r#"Par-Mod DEFINITIONS AUTOMATIC TAGS ::= BEGIN
Bounded {INTEGER:lo, INTEGER:hi} ::= INTEGER (lo..hi)
Pair {First, Second} ::= SEQUENCE {first First, second Second OPTIONAL}
List {Elem, INTEGER:max} ::= SEQUENCE (SIZE (1..max)) OF Elem
Small ::= Bounded {0, 15}
Both ::= Pair {BOOLEAN, Small}
Some-List ::= List {Both, 4}
END
"#,
    // 3: value notation
    r#"Val-Mod DEFINITIONS AUTOMATIC TAGS ::= BEGIN
Colour ::= ENUMERATED {red(0), green(1), ..., blue(5)}
Bits ::= BIT STRING {first(0), last(7)}
Count ::= INTEGER {none(0), many(100)}
Ch ::= CHOICE {num INTEGER, text UTF8String, flag BOOLEAN}
Rec ::= SEQUENCE {n INTEGER, s IA5String OPTIONAL, b BOOLEAN DEFAULT TRUE}
Nums ::= SEQUENCE OF INTEGER
v-int INTEGER ::= -42
v-named Count ::= many
v-bool BOOLEAN ::= FALSE
v-null NULL ::= NULL
v-enum Colour ::= blue
v-bits Bits ::= {first, last}
v-bstr BIT STRING ::= '1010'B
v-hstr OCTET STRING ::= 'CAFE'H
v-str IA5String ::= "say ""hi"" -- not a comment"
v-oid OBJECT IDENTIFIER ::= {iso standard(0) 8571 2}
v-roid RELATIVE-OID ::= {3 4 5}
v-choice Ch ::= num:7
v-rec Rec ::= {n 1, b FALSE}
v-nums Nums ::= {1, 2, 3}
Use ::= SEQUENCE {c Colour DEFAULT green, k Count DEFAULT none, x Bits DEFAULT {first}, r INTEGER DEFAULT v-int}
END
"#,
    // 4: constraint notation
    r#"Con-Mod DEFINITIONS AUTOMATIC TAGS ::= BEGIN
A1 ::= INTEGER (1..10 | 20..30, ..., 40..50)
A2 ::= INTEGER (0..100) (5..MAX)
A3 ::= INTEGER (ALL EXCEPT 5)
A4 ::= INTEGER (MIN..-1 UNION 1..MAX)
A5 ::= INTEGER ((1..10) INTERSECTION (5..20))
A6 ::= INTEGER (0..7, ...)
S1 ::= IA5String (SIZE (1..8)) (FROM ("a".."f" | "0".."9"))
S2 ::= PrintableString (FROM ("AB") ^ SIZE (2))
S3 ::= OCTET STRING (SIZE (4 | 8, ...))
S4 ::= OCTET STRING (CONTAINING A1)
S5 ::= UTF8String (PATTERN "[a-z]+")
S6 ::= OCTET STRING (CONSTRAINED BY {A1, A2})
L1 ::= SEQUENCE (SIZE (0..3)) OF A1
L2 ::= SET SIZE (2) OF BOOLEAN
L3 ::= SEQUENCE OF INTEGER (0..9)
R1 ::= SEQUENCE {a INTEGER OPTIONAL, b BOOLEAN OPTIONAL}
R2 ::= R1 (WITH COMPONENTS {..., a PRESENT, b ABSENT})
R3 ::= SEQUENCE OF R1 (WITH COMPONENT (WITH COMPONENTS {a (0..5)}))
R4 ::= A1 (INCLUDES A2)
END
"#,
    // 5: type notation
    r#"Typ-Mod DEFINITIONS IMPLICIT TAGS ::= BEGIN
T1 ::= [APPLICATION 3] EXPLICIT INTEGER
T2 ::= [PRIVATE 4] IMPLICIT OCTET STRING
T3 ::= [5] BOOLEAN
T4 ::= [UNIVERSAL 30] IMPLICIT BMPString
Ch ::= CHOICE {one [0] INTEGER, two [1] BOOLEAN, ..., three [2] NULL}
Sel ::= one < Ch
Base ::= SEQUENCE {x [0] INTEGER, y [1] BOOLEAN OPTIONAL}
Ext ::= SEQUENCE {z [7] NULL, COMPONENTS OF Base}
Grp ::= SEQUENCE {r [0] INTEGER, ..., [[2: g1 [1] BOOLEAN, g2 [2] NULL OPTIONAL]], [[h1 [3] INTEGER]]}
En ::= ENUMERATED {a(-1), b, ..., c(10), d}
St ::= SET {p [0] INTEGER, q [1] UTF8String DEFAULT "q"}
Many ::= SEQUENCE {t1 [0] UTCTime, t2 [1] GeneralizedTime, o [2] OBJECT IDENTIFIER, ro [3] RELATIVE-OID, re [4] REAL, ex [5] EXTERNAL, ep [6] EMBEDDED PDV, n [8] NumericString, v [9] VisibleString, g [10] GeneralString, an [15] ANY}
Inner ::= SEQUENCE {anon [0] SEQUENCE {deep [0] CHOICE {l [0] NULL, m [1] SET OF INTEGER}}, e [1] ENUMERATED {u, w}, bs [2] BIT STRING {flag(0)} (SIZE (8))}
END
"#,
];

fn template_input(i: usize) -> Option<Input> {
    let s = TEMPLATES[i];
    let lx = tok::tokenize(s);
    if !lx.clean {
        return None;
    }
    if !lx.comments.is_empty() {
        return None;
    }
    let gaps = lx.toks.windows(2).map(|w| s[w[0].end..w[1].start].to_string()).collect();
    Some(Input { origin: format!("T(template={i})"), toks: lx.toks.iter().map(|t| (t.kind.clone(), t.text(s).to_string())).collect(), gaps })
}

fn corpus_input(c: &Corpus, i: usize) -> Option<Input> {
    let (name, s) = &c.files[i];
    let lx = tok::tokenize(s);
    if !lx.clean {
        return None;
    }
    Some(Input { origin: name.clone(), toks: lx.toks.iter().map(|t| (t.kind.clone(), t.text(s).to_string())).collect(), gaps: vec![] })
}

pub fn run(ctx: &Ctx) -> Report {
    let mut rep = Report::new(
        "exploration",
        "inputs: grammar-G module sets re-tokenised by the harness's own X.680 tokenizer (all boundaries when <= budget, else a random subset) and real-world corpus modules (only those whose single-space re-join reproduces the original outcome; sampled boundaries); transformation: the separator at ONE token boundary replaced by tab / LF / CRLF / mixed blanks / nothing (only where the two tokens stay separable) / `-- c` to end of line (LF and CRLF) / `-- c --` / `/* c */` (spaced and tight) / nested block comment / multi-line block comment / comments containing quotes, braces, keywords, non-ASCII / empty comments `----` and `--------`. Additionally N random multi-boundary re-layouts per input (each boundary independently re-laid with a random form, density 1/1..1/6: mixed line endings and comment kinds). Verdict: same Ok/Err status, same number of warnings, identical token-normalised bindings with #[doc] removed. Non-trivial = a re-layout that our tokenizer confirms to have the same token sequence; distinct by text.",
    );
    rep.must_observe = vec!["templates_used".into(), "relayouts[multi-boundary]".into(), "relayouts[ws]".into(), "relayouts[comment]".into(), "relayouts[none]".into(), "baseline[Ok]".into()];
    rep.assumptions = vec!["harness tokenizer (tok.rs) decides token boundaries; `-` directly before a number is not separated".into()];
    if let Some(path) = &ctx.replay {
        let doc: serde_json::Value = serde_json::from_str(&std::fs::read_to_string(path).expect("replay")).expect("json");
        let c = &doc["case"];
        let cfg = Cfg::default_cfg();
        let a = comp::rasn(&[c["baseline_text"].as_str().unwrap().to_string()], &cfg);
        let b = comp::rasn(&[c["relayout_text"].as_str().unwrap().to_string()], &cfg);
        rep.evaluations = 1;
        let (sa, da) = digest(&a);
        let (sb, db) = digest(&b);
        println!("baseline: {sa}; relayout: {sb}; bindings equal: {}", da == db);
        if sa != sb || da != db {
            rep.violations.push(Violation { sig: doc["sig"].as_str().unwrap_or("c13|replay").to_string(), what: format!("replayed: baseline {sa}, relayout {sb}"), replay: c.clone() });
        }
        return rep;
    }
    let corpus = load_corpus();
    let n_g = ctx.pick(90u64, 1500);
    let n_c = ctx.pick(50usize, 200);
    let quick_forms: Vec<usize> = vec![0, 1, 2, 4, 6, 7, 9, 10, 13, 14, 16, 17, 19];
    let all_forms: Vec<usize> = (0..FORMS.len()).collect();
    let forms = if ctx.quick() { quick_forms } else { all_forms };
    let max_b = ctx.pick(90usize, 300);
    let max_b_corpus = ctx.pick(24usize, 60);
    let n_multi = ctx.pick(12usize, 120);
    let seed = ctx.seed;
    let acc = Acc::new(rep);
    par_for(n_g, |i| {
        let mut local = Report::default();
        let mut rng = Rng::for_case(seed, 13, i);
        let inp = g_input(seed, i);
        if inp.toks.len() >= 2 {
            check_input(&inp, &forms, max_b, &mut rng, &mut local);
            check_multi(&inp, n_multi, &mut rng, &mut local);
        }
        acc.with(|r| r.merge(local));
    });
    // hand-written templates: every boundary, every form of the tier
    let tmpl_jobs: Vec<(usize, usize)> = (0..TEMPLATES.len()).flat_map(|t| (0..8).map(move |part| (t, part))).collect();
    par_for(tmpl_jobs.len() as u64, |k| {
        let (t, part) = tmpl_jobs[k as usize];
        let mut local = Report::default();
        let mut rng = Rng::for_case(seed, 133, k);
        match template_input(t) {
            Some(inp) => {
                check_input_part(&inp, &forms, usize::MAX, &mut rng, &mut local, Some((part, 8)));
                if part == 0 {
                    local.count("templates_used", 1);
                    check_multi(&inp, n_multi, &mut rng, &mut local);
                }
            }
            None => local.inconclusive.push(format!("template {t} is not tokenised cleanly by the harness tokenizer")),
        }
        acc.with(|r| r.merge(local));
    });
    // corpus: spread over sizes (files up to 40 kB), deterministic choice by seed
    let eligible: Vec<usize> = (0..corpus.files.len()).filter(|i| corpus.files[*i].1.len() <= 40_000).collect();
    let mut pick = eligible.clone();
    Rng::for_case(seed, 131, 0).shuffle(&mut pick);
    pick.truncate(n_c);
    par_for(pick.len() as u64, |k| {
        let mut local = Report::default();
        let mut rng = Rng::for_case(seed, 132, k);
        if let Some(inp) = corpus_input(&corpus, pick[k as usize]) {
            // use the file only if the single-space re-join reproduces the original outcome
            let orig = comp::rasn(&[corpus.files[pick[k as usize]].1.clone()], &Cfg::default_cfg());
            let rej = comp::rasn(&[join(&inp, None)], &Cfg::default_cfg());
            let (so, d_o) = digest(&orig);
            let (sr, d_r) = digest(&rej);
            if so == sr && d_o == d_r && inp.toks.len() >= 2 {
                local.count("corpus_files_used", 1);
                check_input(&inp, &forms, max_b_corpus, &mut rng, &mut local);
                if corpus.files[pick[k as usize]].1.len() <= 10_000 {
                    check_multi(&inp, n_multi / 2, &mut rng, &mut local);
                }
            } else {
                local.count("corpus_files_skipped(rejoin differs: comments carry docs or tokenizer suspect)", 1);
            }
        } else {
            local.count("corpus_files_skipped(unclean tokenisation)", 1);
        }
        acc.with(|r| r.merge(local));
    });
    acc.into_inner()
}
