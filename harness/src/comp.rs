//! Boundary wrappers around the real compiler (call/return events, panic capture).
use rasn_compiler::prelude::*;
use rasn_compiler::verif_hooks::{self, Event};
use std::cell::RefCell;
use std::panic::{catch_unwind, AssertUnwindSafe};

thread_local! {
    static LAST_PANIC: RefCell<Option<String>> = const { RefCell::new(None) };
    /// set while the code under observation runs; panics elsewhere are harness bugs and are printed
    pub static OBSERVING: std::cell::Cell<bool> = const { std::cell::Cell::new(false) };
}

pub fn observing<R>(f: impl FnOnce() -> R) -> R {
    let prev = OBSERVING.with(|o| o.replace(true));
    let r = f();
    OBSERVING.with(|o| o.set(prev));
    r
}

pub fn install_panic_hook() {
    std::panic::set_hook(Box::new(|info| {
        let loc = info.location().map(|l| format!("{}:{}", l.file(), l.line())).unwrap_or_default();
        let msg = if let Some(s) = info.payload().downcast_ref::<&str>() {
            s.to_string()
        } else if let Some(s) = info.payload().downcast_ref::<String>() {
            s.clone()
        } else {
            "<non-string panic>".into()
        };
        if !OBSERVING.with(|o| o.get()) && !loc.contains("/repo/") {
            eprintln!("HARNESS PANIC at {loc}: {msg}");
        }
        LAST_PANIC.with(|p| *p.borrow_mut() = Some(format!("{loc}|{msg}")));
    }));
}

pub fn take_panic() -> Option<String> {
    LAST_PANIC.with(|p| p.borrow_mut().take())
}

#[derive(Clone, Debug, Default, PartialEq, Eq, Hash)]
pub struct Cfg {
    pub opaque_open_types: bool,
    pub default_wildcard_imports: bool,
    pub generate_from_impls: bool,
    pub no_std: bool,
    pub custom_imports: Vec<String>,
    /// None = compiler default
    pub type_annotations: Option<Vec<String>>,
}
impl Cfg {
    pub fn default_cfg() -> Self {
        Cfg { opaque_open_types: true, ..Default::default() }
    }
    pub fn to_rasn(&self) -> RasnConfig {
        let d = RasnConfig::default();
        RasnConfig {
            opaque_open_types: self.opaque_open_types,
            default_wildcard_imports: self.default_wildcard_imports,
            generate_from_impls: self.generate_from_impls,
            no_std_compliant_bindings: self.no_std,
            custom_imports: self.custom_imports.clone(),
            type_annotations: self.type_annotations.clone().unwrap_or(d.type_annotations),
        }
    }
    pub fn to_json(&self) -> serde_json::Value {
        serde_json::json!({
            "opaque_open_types": self.opaque_open_types, "default_wildcard_imports": self.default_wildcard_imports,
            "generate_from_impls": self.generate_from_impls, "no_std": self.no_std,
            "custom_imports": self.custom_imports, "type_annotations": self.type_annotations})
    }
}

#[derive(Debug, Clone)]
pub enum Outcome {
    Ok { generated: String, warnings: Vec<String> },
    Err { display: String, err: CompilerError },
    Panic(String),
}
impl Outcome {
    pub fn is_ok(&self) -> bool {
        matches!(self, Outcome::Ok { .. })
    }
    pub fn status(&self) -> &'static str {
        match self {
            Outcome::Ok { .. } => "Ok",
            Outcome::Err { .. } => "Err",
            Outcome::Panic(_) => "Panic",
        }
    }
    pub fn generated(&self) -> Option<&str> {
        match self {
            Outcome::Ok { generated, .. } => Some(generated),
            _ => None,
        }
    }
    pub fn warnings(&self) -> &[String] {
        match self {
            Outcome::Ok { warnings, .. } => warnings,
            _ => &[],
        }
    }
    pub fn brief(&self) -> String {
        match self {
            Outcome::Ok { warnings, generated } => format!("Ok({} bytes, {} warnings)", generated.len(), warnings.len()),
            Outcome::Err { display, .. } => format!("Err({})", crate::core::one_line(display, 160)),
            Outcome::Panic(p) => format!("Panic({})", crate::core::one_line(p, 160)),
        }
    }
}

pub struct Run {
    pub out: Outcome,
    pub events: Vec<Event>,
}

fn wrap(f: impl FnOnce() -> Result<CompileResult, CompilerError>) -> Run {
    let _ = verif_hooks::drain();
    let _ = take_panic();
    let r = catch_unwind(AssertUnwindSafe(f));
    let events = verif_hooks::drain();
    let out = match r {
        Ok(Ok(res)) => Outcome::Ok { generated: res.generated, warnings: res.warnings.iter().map(|w| w.to_string()).collect() },
        Ok(Err(e)) => Outcome::Err { display: e.to_string(), err: e },
        Err(_) => Outcome::Panic(take_panic().unwrap_or_else(|| "<unknown>".into())),
    };
    Run { out, events }
}

pub fn rasn(srcs: &[String], cfg: &Cfg) -> Run {
    wrap(|| {
        let mut c = Compiler::<RasnBackend, _>::new_with_config(cfg.to_rasn()).add_asn_literal(srcs[0].clone());
        for s in &srcs[1..] {
            c = c.add_asn_literal(s.clone());
        }
        c.compile_to_string()
    })
}

pub fn rasn1(src: &str) -> Run {
    rasn(&[src.to_string()], &Cfg::default_cfg())
}

pub fn ts(srcs: &[String]) -> Run {
    wrap(|| {
        let mut c = Compiler::<TypescriptBackend, _>::new().add_asn_literal(srcs[0].clone());
        for s in &srcs[1..] {
            c = c.add_asn_literal(s.clone());
        }
        c.compile_to_string()
    })
}

pub fn rasn_paths(paths: &[String], cfg: &Cfg) -> Run {
    wrap(|| Compiler::<RasnBackend, _>::new_with_config(cfg.to_rasn()).add_asn_sources_by_path(paths.iter().cloned()).compile_to_string())
}

/// One step of a builder chain: how the next source(s) reach the compiler, or the point where the output mode is set.
#[derive(Clone, Debug, PartialEq, Eq, Hash)]
pub enum Step {
    /// `add_asn_literal(text of source i)`
    Literal(usize),
    /// `add_asn_by_path(file holding source i)`
    Path(usize),
    /// `add_asn_sources_by_path(files holding these sources)`
    Paths(Vec<usize>),
    /// `set_output_mode(OutputMode::NoOutput)` (moves the builder into the other half of its typestate machine)
    SetOutput,
}

enum AnyState<B: Backend> {
    M(Compiler<B, CompilerMissingParams>),
    S(Compiler<B, CompilerSourcesSet>),
    O(Compiler<B, CompilerOutputSet>),
    R(Compiler<B, CompilerReady>),
}

fn deliver<B: Backend>(start: Compiler<B, CompilerMissingParams>, files: &[std::path::PathBuf], srcs: &[String], plan: &[Step]) -> Result<CompileResult, CompilerError> {
    use rasn_compiler::OutputMode;
    let mut st = AnyState::M(start);
    for step in plan {
        st = match (st, step) {
            (AnyState::M(c), Step::Literal(i)) => AnyState::S(c.add_asn_literal(srcs[*i].clone())),
            (AnyState::M(c), Step::Path(i)) => AnyState::S(c.add_asn_by_path(files[*i].clone())),
            (AnyState::M(c), Step::Paths(v)) => AnyState::S(c.add_asn_sources_by_path(v.iter().map(|i| files[*i].clone()))),
            (AnyState::M(c), Step::SetOutput) => AnyState::O(c.set_output_mode(OutputMode::NoOutput)),
            (AnyState::S(c), Step::Literal(i)) => AnyState::S(c.add_asn_literal(srcs[*i].clone())),
            (AnyState::S(c), Step::Path(i)) => AnyState::S(c.add_asn_by_path(files[*i].clone())),
            (AnyState::S(c), Step::Paths(v)) => AnyState::S(c.add_asn_sources_by_path(v.iter().map(|i| files[*i].clone()))),
            (AnyState::S(c), Step::SetOutput) => AnyState::R(c.set_output_mode(OutputMode::NoOutput)),
            (AnyState::O(c), Step::Literal(i)) => AnyState::R(c.add_asn_literal(srcs[*i].clone())),
            (AnyState::O(c), Step::Path(i)) => AnyState::R(c.add_asn_by_path(files[*i].clone())),
            (AnyState::O(c), Step::Paths(v)) => AnyState::R(c.add_asn_sources_by_path(v.iter().map(|i| files[*i].clone()))),
            (AnyState::O(c), Step::SetOutput) => AnyState::O(c),
            (AnyState::R(c), Step::Literal(i)) => AnyState::R(c.add_asn_literal(srcs[*i].clone())),
            (AnyState::R(c), Step::Path(i)) => AnyState::R(c.add_asn_by_path(files[*i].clone())),
            (AnyState::R(c), Step::Paths(v)) => AnyState::R(c.add_asn_sources_by_path(v.iter().map(|i| files[*i].clone()))),
            (AnyState::R(c), Step::SetOutput) => AnyState::R(c),
        };
    }
    match st {
        AnyState::S(c) => c.compile_to_string(),
        AnyState::R(c) => c.compile_to_string(),
        _ => panic!("harness: delivery plan adds no source"),
    }
}

/// A random builder chain over `n` sources in ascending order (literals, single paths, lists of 1..3 paths; the output mode
/// set before, between or after them in two of three chains).
pub fn random_plan(rng: &mut crate::core::Rng, n: usize) -> Vec<Step> {
    let mut plan = vec![];
    let mut i = 0;
    while i < n {
        match rng.below(4) {
            0 => {
                plan.push(Step::Literal(i));
                i += 1;
            }
            1 => {
                plan.push(Step::Path(i));
                i += 1;
            }
            _ => {
                let k = 1 + rng.below(3).min(n - i - 1);
                plan.push(Step::Paths((i..i + k).collect()));
                i += k;
            }
        }
    }
    if rng.chance(2, 3) {
        let at = rng.below(plan.len() + 1);
        plan.insert(at, Step::SetOutput);
    }
    plan
}

/// Compile `srcs` handed over by the builder chain `plan` (every source index must occur exactly once, in ascending order, so
/// that the order of sources equals that of `rasn(srcs)`); `ts` selects the TypeScript backend.
pub fn delivered(srcs: &[String], cfg: &Cfg, plan: &[Step], ts: bool) -> Run {
    static N: std::sync::atomic::AtomicU64 = std::sync::atomic::AtomicU64::new(0);
    let dir = std::path::PathBuf::from(format!("/verif/gen-ws/delivery/{}-{}", std::process::id(), N.fetch_add(1, std::sync::atomic::Ordering::Relaxed)));
    std::fs::create_dir_all(&dir).expect("harness: delivery dir");
    let files: Vec<std::path::PathBuf> = srcs
        .iter()
        .enumerate()
        .map(|(i, s)| {
            let f = dir.join(format!("src{i}.asn1"));
            std::fs::write(&f, s).expect("harness: write source");
            f
        })
        .collect();
    let run = wrap(|| if ts { deliver(Compiler::<TypescriptBackend, _>::new(), &files, srcs, plan) } else { deliver(Compiler::<RasnBackend, _>::new_with_config(cfg.to_rasn()), &files, srcs, plan) });
    let _ = std::fs::remove_dir_all(&dir);
    run
}

/// Abstract a panic message: digits and quoted text removed, so that the signature
/// is stable under unrelated edits but distinguishes sites/messages.
pub fn panic_template(p: &str) -> String {
    let (loc, msg) = p.split_once('|').unwrap_or(("", p));
    let file = loc.rsplit_once(':').map(|x| x.0).unwrap_or(loc);
    let file = file.rsplit("/src/").next().unwrap_or(file);
    // message template: text up to the first quoted fragment, digits abstracted
    let mut out = String::new();
    let mut last_hash = false;
    for c in msg.chars().take(90) {
        if c == '`' || c == '"' || c == '\'' {
            break;
        }
        if c.is_ascii_digit() {
            if !last_hash {
                out.push('N');
            }
            last_hash = true;
        } else {
            out.push(if c == '\n' { ' ' } else { c });
            last_hash = false;
        }
    }
    format!("{file}|{}", out.trim())
}
