//! C07 — value assignments and DEFAULTs denote the source abstract value (symbolic evaluation of the emitted initialisers).
use crate::comp;
use crate::core::*;
use crate::proj::{self, Kind, Module};
use serde_json::json;
use std::collections::BTreeMap;

/// abstract values
#[derive(Clone, Debug, PartialEq, Eq)]
pub enum AV {
    Int(i128),
    Bool(bool),
    Unit,
    Str(String),
    Bits(Vec<bool>),
    Bytes(Vec<u8>),
    Oid(Vec<u128>),
    Enum(String),
    Choice(String, Box<AV>),
    Record(Vec<AV>),
    List(Vec<AV>),
    Absent,
}

impl AV {
    pub fn show(&self) -> String {
        match self {
            AV::Bits(b) => format!("bits'{}'", b.iter().map(|x| if *x { '1' } else { '0' }).collect::<String>()),
            AV::Bytes(b) => format!("bytes'{}'", b.iter().map(|x| format!("{x:02X}")).collect::<String>()),
            AV::Oid(a) => format!("oid{{{}}}", a.iter().map(|x| x.to_string()).collect::<Vec<_>>().join(" ")),
            other => format!("{other:?}"),
        }
    }
}

// ------------------------------------------------------------------------------------------------ evaluator
struct Eval<'a> {
    m: &'a Module,
    depth: usize,
}

fn lit_int(l: &syn::LitInt, neg: bool) -> Option<i128> {
    let d = l.base10_digits();
    if neg {
        format!("-{d}").parse().ok()
    } else {
        d.parse().ok()
    }
}

impl<'a> Eval<'a> {
    fn path_str(p: &syn::Path) -> String {
        proj::norm(p)
    }

    fn elems(&mut self, es: impl Iterator<Item = &'a syn::Expr>) -> Result<Vec<AV>, String> {
        es.map(|e| self.eval(e)).collect()
    }

    /// interpret a list of evaluated elements as the target kind
    fn collect_kind(vals: Vec<AV>) -> AV {
        if !vals.is_empty() && vals.iter().all(|v| matches!(v, AV::Bool(_))) {
            AV::Bits(vals.iter().map(|v| matches!(v, AV::Bool(true))).collect())
        } else {
            AV::List(vals)
        }
    }

    fn eval(&mut self, e: &'a syn::Expr) -> Result<AV, String> {
        self.depth += 1;
        if self.depth > 64 {
            return Err("evaluation too deep".into());
        }
        let r = self.eval_inner(e);
        self.depth -= 1;
        r
    }

    fn eval_inner(&mut self, e: &'a syn::Expr) -> Result<AV, String> {
        use syn::Expr::*;
        match e {
            Lit(l) => match &l.lit {
                syn::Lit::Int(i) => lit_int(i, false).map(AV::Int).ok_or_else(|| format!("integer literal {} out of i128", i.base10_digits())),
                syn::Lit::Bool(b) => Ok(AV::Bool(b.value)),
                syn::Lit::Str(s) => Ok(AV::Str(s.value())),
                syn::Lit::Byte(b) => Ok(AV::Int(b.value() as i128)),
                other => Err(format!("literal {}", proj::norm(other))),
            },
            Unary(u) if matches!(u.op, syn::UnOp::Neg(_)) => {
                if let Lit(syn::ExprLit { lit: syn::Lit::Int(i), .. }) = &*u.expr {
                    lit_int(i, true).map(AV::Int).ok_or_else(|| "negative literal out of i128".to_string())
                } else {
                    match self.eval(&u.expr)? {
                        AV::Int(v) => Ok(AV::Int(-v)),
                        o => Err(format!("negation of {o:?}")),
                    }
                }
            }
            Unary(u) if matches!(u.op, syn::UnOp::Deref(_)) => self.eval(&u.expr),
            Reference(r) => self.eval(&r.expr),
            Paren(p) => self.eval(&p.expr),
            Group(p) => self.eval(&p.expr),
            Tuple(t) if t.elems.is_empty() => Ok(AV::Unit),
            Block(b) => match b.block.stmts.last() {
                Some(syn::Stmt::Expr(x, None)) => self.eval(x),
                _ => Err("block without tail expression".into()),
            },
            Array(a) => {
                let v = self.elems(a.elems.iter())?;
                Ok(AV::List(v))
            }
            Macro(m) => {
                let name = Self::path_str(&m.mac.path);
                if name.ends_with("vec") {
                    let parsed: syn::punctuated::Punctuated<syn::Expr, syn::Token![,]> = m.mac.parse_body_with(syn::punctuated::Punctuated::parse_terminated).map_err(|e| format!("vec! body: {e}"))?;
                    // the parsed expressions are owned: evaluate with a sub-evaluator that leaks nothing to `self`'s lifetime
                    let mut out = vec![];
                    for x in parsed.iter() {
                        let leaked: &'a syn::Expr = Box::leak(Box::new(x.clone()));
                        out.push(self.eval(leaked)?);
                    }
                    Ok(AV::List(out))
                } else {
                    Err(format!("macro {name}!"))
                }
            }
            Path(p) => {
                let s = Self::path_str(&p.path);
                // Enum::variant | CONST | None
                if s == "None" {
                    return Ok(AV::Absent);
                }
                if let Some((ty, var)) = s.rsplit_once("::") {
                    let ty = ty.rsplit("::").next().unwrap_or(ty);
                    if let Some(it) = self.m.find(ty) {
                        if let Kind::Enum { variants } = &it.kind {
                            if let Some(v) = variants.iter().find(|v| v.name == var) {
                                let asn = v.attrs.kv("identifier").unwrap_or(&v.name).to_string();
                                return Ok(if it.attrs.has("enumerated") { AV::Enum(asn) } else { AV::Choice(asn, Box::new(AV::Unit)) });
                            }
                        }
                    }
                    return Err(format!("path {s}"));
                }
                self.constant(&s)
            }
            Call(c) => {
                let f = proj::norm(&c.func);
                let args: Vec<&'a syn::Expr> = c.args.iter().collect();
                match f.as_str() {
                    "Integer::from" | "String::from" | "Some" | "Box::new" | "Utf8String::from" => {
                        if args.len() == 1 {
                            self.eval(args[0])
                        } else {
                            Err(format!("{f} arity"))
                        }
                    }
                    "BitString::new" if args.is_empty() => Ok(AV::Bits(vec![])),
                    "Oid::const_new" | "Oid::new" => match self.eval(args.first().ok_or("Oid arity")?)? {
                        AV::List(v) => flatten_oid(&v).map(AV::Oid),
                        AV::Oid(v) => Ok(AV::Oid(v)),
                        o => Err(format!("Oid from {o:?}")),
                    },
                    x if x.contains("OctetString") && (x.ends_with("::from") || x.ends_with("::from_static") || x.ends_with("::copy_from_slice")) => match self.eval(args.first().ok_or("arity")?)? {
                        AV::List(v) => v.iter().map(|x| if let AV::Int(i) = x { u8::try_from(*i).map_err(|_| "octet out of range".to_string()) } else { Err(format!("octet {x:?}")) }).collect::<Result<Vec<u8>, _>>().map(AV::Bytes),
                        o => Err(format!("octets from {o:?}")),
                    },
                    _ => {
                        // T::try_from("..") | T::new(..) | T::variant(x) | T(x)
                        if let Some((ty, last)) = f.rsplit_once("::") {
                            let tyn = ty.rsplit("::").next().unwrap_or(ty);
                            if last == "try_from" || last == "from" {
                                let v = self.eval(args.first().ok_or("arity")?)?;
                                // rasn 0.27: `TryFrom<&str>` of the string types with a multi-octet character width reads the
                                // UTF-8 bytes of the literal as big-endian code units (BmpString: 2 octets, TeletexString: 4) and
                                // fails when the byte count is not a multiple of the width — the emitted `.unwrap()` then panics
                                let width = match tyn {
                                    "BmpString" => 2,
                                    "TeletexString" => 4,
                                    _ => 1,
                                };
                                if let (true, AV::Str(text)) = (width > 1 && last == "try_from", &v) {
                                    let b = text.as_bytes();
                                    if b.len() % width != 0 {
                                        return Ok(AV::Str(format!("<panics at run time: {} octets are not a multiple of {width}>", b.len())));
                                    }
                                    let units: String = b.chunks(width).map(|c| char::from_u32(c.iter().fold(0u32, |a, x| (a << 8) | *x as u32)).unwrap_or('\u{fffd}')).collect();
                                    return Ok(AV::Str(units));
                                }
                                return Ok(v);
                            }
                            if let Some(it) = self.m.find(tyn) {
                                match &it.kind {
                                    Kind::Enum { variants } => {
                                        if let Some(v) = variants.iter().find(|v| v.name == last) {
                                            let asn = v.attrs.kv("identifier").unwrap_or(&v.name).to_string();
                                            let inner = self.eval(args.first().ok_or("variant arity")?)?;
                                            return Ok(AV::Choice(asn, Box::new(inner)));
                                        }
                                    }
                                    Kind::Struct { tuple: false, fields } if last == "new" => {
                                        if args.len() != fields.len() {
                                            return Err(format!("{f}: {} args for {} fields", args.len(), fields.len()));
                                        }
                                        let v = self.elems(args.into_iter())?;
                                        return Ok(AV::Record(v));
                                    }
                                    _ => {}
                                }
                            }
                            // constructor of a runtime type around one argument (e.g. UniversalString::new(Utf8String::from("..")))
                            if last == "new" && self.m.find(tyn).is_none() && args.len() == 1 {
                                return self.eval(args[0]);
                            }
                            return Err(format!("call {f}"));
                        }
                        // newtype constructor: transparent
                        if let Some(it) = self.m.find(&f) {
                            if let Kind::Struct { tuple: true, fields } = &it.kind {
                                if fields.len() == 1 && args.len() == 1 {
                                    let inner = self.eval(args[0])?;
                                    // a list of booleans wrapped in a BitString newtype
                                    return Ok(inner);
                                }
                            }
                        }
                        // `Name(..)` where Name is no tuple struct of the module: the emitted initialiser is not a value of anything
                        Err(format!("NOT-AN-INITIALISER: `{f}(..)` is neither a newtype constructor nor a known function"))
                    }
                }
            }
            MethodCall(mc) => {
                let name = mc.method.to_string();
                match name.as_str() {
                    "unwrap" | "to_owned" | "clone" | "into" | "to_string" | "into_iter" | "borrow" | "as_ref" | "to_vec" | "parse" | "expect" => self.eval(&mc.receiver),
                    "collect" => match self.eval(&mc.receiver)? {
                        AV::List(v) => Ok(Self::collect_kind(v)),
                        o => Ok(o),
                    },
                    "concat" => match self.eval(&mc.receiver)? {
                        AV::List(parts) => {
                            let mut out = vec![];
                            for p in parts {
                                match p {
                                    AV::List(v) => out.extend(v),
                                    AV::Oid(v) => out.extend(v.into_iter().map(|x| AV::Int(x as i128))),
                                    o => return Err(format!("concat of {o:?}")),
                                }
                            }
                            Ok(AV::List(out))
                        }
                        o => Err(format!("concat on {o:?}")),
                    },
                    other => Err(format!("method {other}")),
                }
            }
            other => Err(format!("expression form `{}`", one_line(&proj::norm(other), 60))),
        }
    }

    fn constant(&mut self, name: &str) -> Result<AV, String> {
        let it = self.m.find_const(name).ok_or_else(|| format!("unknown constant {name}"))?;
        if let Kind::Const { init, .. } = &it.kind {
            // `init` lives as long as the module projection
            let e: &'a syn::Expr = unsafe_extend(init);
            self.eval(e)
        } else {
            Err(format!("{name} is not a constant"))
        }
    }
}

/// the projection outlives the evaluator; tie the lifetimes without cloning the expression tree
fn unsafe_extend<'a>(e: &syn::Expr) -> &'a syn::Expr {
    Box::leak(Box::new(e.clone()))
}

fn flatten_oid(v: &[AV]) -> Result<Vec<u128>, String> {
    let mut out = vec![];
    for x in v {
        match x {
            AV::Int(i) if *i >= 0 => out.push(*i as u128),
            AV::List(l) => out.extend(flatten_oid(l)?),
            AV::Oid(o) => out.extend(o.iter().copied()),
            o => return Err(format!("oid arc {o:?}")),
        }
    }
    Ok(out)
}

// ------------------------------------------------------------------------------------------------ cases
#[derive(Clone, Debug)]
pub struct Case {
    /// ASN.1 text defining supporting types (may be empty)
    pub types: String,
    /// type notation of the value
    pub ty: String,
    /// value notation
    pub val: String,
    pub expected: AV,
    /// compare bit strings modulo trailing zero bits (named-bit types, X.680 22.7)
    pub trailing_zeros_insignificant: bool,
    /// usable as DEFAULT of a component
    pub as_default: bool,
    pub form: &'static str,
}

fn well_known(root: u128, name: &str) -> Option<u128> {
    match (root, name) {
        (0, "recommendation") => Some(0),
        (0, "question") => Some(1),
        (0, "administration") => Some(2),
        (0, "network-operator") => Some(3),
        (0, "identified-organization") => Some(4),
        (1, "standard") => Some(0),
        (1, "registration-authority") => Some(1),
        (1, "member-body") => Some(2),
        (1, "identified-organization") => Some(3),
        _ => None,
    }
}

pub fn gen_case(rng: &mut Rng, n: usize) -> Case {
    let t = |s: &str| s.replace("@", &n.to_string());
    match rng.below(16) {
        0 | 1 => {
            // integers: boundary points and random magnitudes, optionally through a constrained type / alias chain
            let pts = crate::c06::boundary_points();
            let v: i128 = match rng.below(4) {
                0 => *rng.pick(&pts),
                1 => (rng.next() as i128) << 64 | rng.next() as i128,
                2 => -((rng.next() >> 1) as i128),
                _ => rng.range(-1000, 1000) as i128,
            };
            let chain = rng.below(4);
            if chain == 0 {
                Case { types: String::new(), ty: "INTEGER".into(), val: v.to_string(), expected: AV::Int(v), trailing_zeros_insignificant: false, as_default: true, form: "integer/builtin" }
            } else {
                let lo = v.saturating_sub(rng.below(300) as i128);
                let hi = v.saturating_add(rng.below(300) as i128);
                let mut types = t(&format!("Ti@x0 ::= INTEGER ({lo}..{hi})\n"));
                for k in 1..chain {
                    types.push_str(&t(&format!("Ti@x{k} ::= Ti@x{}\n", k - 1)));
                }
                Case { types, ty: t(&format!("Ti@x{}", chain - 1)), val: v.to_string(), expected: AV::Int(v), trailing_zeros_insignificant: false, as_default: true, form: "integer/via-type-reference-chain" }
            }
        }
        2 => {
            let b = rng.chance(1, 2);
            Case { types: String::new(), ty: "BOOLEAN".into(), val: if b { "TRUE" } else { "FALSE" }.into(), expected: AV::Bool(b), trailing_zeros_insignificant: false, as_default: true, form: "boolean" }
        }
        3 => Case { types: String::new(), ty: "NULL".into(), val: "NULL".into(), expected: AV::Unit, trailing_zeros_insignificant: false, as_default: false, form: "null" },
        4 | 5 => {
            let kinds = [("IA5String", false), ("VisibleString", false), ("PrintableString", false), ("UTF8String", true), ("BMPString", true), ("NumericString", false), ("UniversalString", true), ("TeletexString", false)];
            let (k, multi) = *rng.pick(&kinds);
            let len = rng.below(10);
            let alpha: Vec<char> = match k {
                "NumericString" => "0123456789 ".chars().collect(),
                "PrintableString" => "ABCxyz019 '()+,-./:=?".chars().collect(),
                _ if multi => "ABxy09 \"!#é中€".chars().collect(),
                _ => "ABxy09 \"!#$%&;<>@[]^_{}~".chars().collect(),
            };
            let s: String = (0..len).map(|_| *rng.pick(&alpha)).collect();
            // strings that look like numbers or dates are read as time values by the lexer (reported separately): keep a letter in front
            let s = if !s.is_empty() && k != "NumericString" && s.chars().all(|c| c.is_ascii_digit() || c == ' ' || c == '-' || c == ':' || c == '.' || c == '+') { format!("A{s}") } else { s };
            Case { types: String::new(), ty: k.into(), val: format!("\"{}\"", s.replace('"', "\"\"")), expected: AV::Str(s), trailing_zeros_insignificant: false, as_default: true, form: match k { "BMPString" => "cstring/BMPString", "TeletexString" => "cstring/TeletexString", _ if multi => "cstring/multibyte-capable", _ => "cstring" } }
        }
        6 => {
            let len = rng.below(65);
            let bits: Vec<bool> = (0..len).map(|_| rng.chance(1, 2)).collect();
            Case { types: String::new(), ty: "BIT STRING".into(), val: format!("'{}'B", bits.iter().map(|b| if *b { '1' } else { '0' }).collect::<String>()), expected: AV::Bits(bits), trailing_zeros_insignificant: false, as_default: true, form: "bitstring/bstring" }
        }
        7 => {
            let len = rng.below(17);
            let nib: Vec<u8> = (0..len).map(|_| rng.below(16) as u8).collect();
            let mut bits = vec![];
            for x in &nib {
                for k in (0..4).rev() {
                    bits.push((x >> k) & 1 == 1);
                }
            }
            Case { types: String::new(), ty: "BIT STRING".into(), val: format!("'{}'H", nib.iter().map(|x| format!("{x:X}")).collect::<String>()), expected: AV::Bits(bits), trailing_zeros_insignificant: false, as_default: true, form: "bitstring/hstring" }
        }
        8 => {
            let len = rng.below(12);
            let bytes: Vec<u8> = (0..len).map(|_| rng.next() as u8).collect();
            if rng.chance(1, 3) {
                let val = format!("'{}'B", bytes.iter().map(|b| format!("{b:08b}")).collect::<String>());
                Case { types: String::new(), ty: "OCTET STRING".into(), val, expected: AV::Bytes(bytes), trailing_zeros_insignificant: false, as_default: true, form: "octetstring/bstring" }
            } else {
                let val = format!("'{}'H", bytes.iter().map(|b| format!("{b:02X}")).collect::<String>());
                Case { types: String::new(), ty: "OCTET STRING".into(), val, expected: AV::Bytes(bytes), trailing_zeros_insignificant: false, as_default: true, form: "octetstring/hstring" }
            }
        }
        9 => {
            // named-bit list
            let nb = 1 + rng.below(8);
            let mut pos: Vec<u32> = vec![];
            let mut p = 0;
            for _ in 0..nb {
                p += rng.below(3) as u32;
                pos.push(p);
                p += 1;
            }
            let mut decl: Vec<(String, u32)> = pos.iter().enumerate().map(|(i, p)| (t(&format!("bq@x{i}")), *p)).collect();
            if rng.chance(1, 2) {
                rng.shuffle(&mut decl);
            }
            let chosen: Vec<&(String, u32)> = decl.iter().filter(|_| rng.chance(1, 2)).collect();
            let maxbit = chosen.iter().map(|c| c.1).max();
            let mut bits = vec![false; maxbit.map_or(0, |m| m as usize + 1)];
            for c in &chosen {
                bits[c.1 as usize] = true;
            }
            let list = decl.iter().map(|(n, p)| format!("{n}({p})")).collect::<Vec<_>>().join(", ");
            if rng.chance(1, 4) {
                // a bstring / hstring literal governed by the named-bit type, shorter or longer than the named positions reach
                // (a named-bit list does not limit the length; trailing 0 bits are insignificant, X.680 22.7)
                let len = rng.below(20);
                let mut lit: Vec<bool> = (0..len).map(|_| rng.chance(1, 2)).collect();
                let hex = rng.chance(1, 3);
                if hex {
                    while lit.len() % 4 != 0 {
                        lit.push(false);
                    }
                }
                let text = if hex {
                    format!("'{}'H", lit.chunks(4).map(|c| format!("{:X}", c.iter().fold(0u8, |a, b| a * 2 + *b as u8))).collect::<String>())
                } else {
                    format!("'{}'B", lit.iter().map(|b| if *b { '1' } else { '0' }).collect::<String>())
                };
                let inline = rng.chance(1, 3);
                let types = if inline { String::new() } else { t(&format!("Tb@ ::= BIT STRING {{ {list} }}\n")) };
                let ty = if inline { format!("BIT STRING {{ {list} }}") } else { t("Tb@") };
                return Case { types, ty, val: text, expected: AV::Bits(lit), trailing_zeros_insignificant: true, as_default: true, form: "bitstring/literal-governed-by-named-bit-type" };
            }
            let val = format!("{{ {} }}", chosen.iter().map(|c| c.0.clone()).collect::<Vec<_>>().join(", "));
            if rng.chance(1, 3) {
                // the governing type written in line (anonymous): several such types with lists of their own meet in one module
                return Case { types: String::new(), ty: format!("BIT STRING {{ {list} }}"), val, expected: AV::Bits(bits), trailing_zeros_insignificant: true, as_default: !chosen.is_empty(), form: "bitstring/named-bits/inline-type" };
            }
            let types = t(&format!("Tb@ ::= BIT STRING {{ {list} }}\n"));
            Case { types, ty: t("Tb@"), val, expected: AV::Bits(bits), trailing_zeros_insignificant: true, as_default: !chosen.is_empty(), form: "bitstring/named-bits" }
        }
        10 => {
            // enumerated and named numbers
            if rng.chance(1, 2) {
                let k = 1 + rng.below(5);
                let names: Vec<String> = (0..k).map(|i| t(&format!("eq@x{i}"))).collect();
                let pick = rng.below(k);
                let types = t(&format!("Te@ ::= ENUMERATED {{ {} }}\n", names.iter().enumerate().map(|(i, n)| if i % 2 == 1 { format!("{n}({})", 10 + i) } else { n.clone() }).collect::<Vec<_>>().join(", ")));
                // X.680 20.x: inside value notation governed by the ENUMERATED type the identifier denotes the enumeral, even
                // if a value assignment of the same spelling exists
                let shadow = rng.chance(1, 3);
                let types = if shadow { format!("{types}{} INTEGER ::= {}\n", names[pick], 700 + pick) } else { types };
                // another ENUMERATED type, sorting before and after the governing one, has an enumeral of the same spelling with
                // another number: the governing type decides (X.680 20.x)
                let homonym = !shadow && rng.chance(1, 3);
                let types = if homonym { t(&format!("{types}Ta@dec ::= ENUMERATED {{ other@, {} }}\nTz@dec ::= ENUMERATED {{ {}, zother@, zmore@ }}\n", names[pick], names[pick])) } else { types };
                Case { types, ty: t("Te@"), val: names[pick].clone(), expected: AV::Enum(names[pick].clone()), trailing_zeros_insignificant: false, as_default: true, form: if shadow { "enumerated/same-named-value-exists" } else if homonym { "enumerated/homonym-in-another-type" } else { "enumerated" } }
            } else {
                let k = 1 + rng.below(4);
                let nn: Vec<(String, i128)> = (0..k).map(|i| (t(&format!("nq@x{i}")), rng.range(-50, 500) as i128)).collect();
                let pick = rng.below(k);
                let types = t(&format!("Tn@ ::= INTEGER {{ {} }}\n", nn.iter().map(|(n, v)| format!("{n}({v})")).collect::<Vec<_>>().join(", ")));
                let shadow = rng.chance(1, 3);
                let types = if shadow { format!("{types}{} INTEGER ::= {}\n", nn[pick].0, nn[pick].1 + 1000) } else { types };
                let homonym = !shadow && rng.chance(1, 3);
                let types = if homonym { t(&format!("{types}Ta@dec ::= INTEGER {{ {}({}) }}\nTz@dec ::= INTEGER {{ {}({}) }}\n", nn[pick].0, nn[pick].1 + 2000, nn[pick].0, nn[pick].1 + 3000)) } else { types };
                Case { types, ty: t("Tn@"), val: nn[pick].0.clone(), expected: AV::Int(nn[pick].1), trailing_zeros_insignificant: false, as_default: true, form: if shadow { "integer/named-number/same-named-value-exists" } else if homonym { "integer/named-number/homonym-in-another-type" } else { "integer/named-number" } }
            }
        }
        11 | 12 => {
            // OBJECT IDENTIFIER
            // X.660 / X.680 annex: `ccitt` and `joint-iso-ccitt` are synonyms of `itu-t` and `joint-iso-itu-t`
            let roots: [(&str, u128); 5] = [("itu-t", 0), ("iso", 1), ("joint-iso-itu-t", 2), ("ccitt", 0), ("joint-iso-ccitt", 2)];
            let (rn, rv) = *rng.pick(&roots);
            let synonym = rn.contains("ccitt");
            let mut text = vec![];
            let mut arcs = vec![rv];
            text.push(match rng.below(3) {
                0 => rv.to_string(),
                1 => rn.to_string(),
                _ => format!("{rn}({rv})"),
            });
            let seconds: Vec<&str> = match rv {
                0 => vec!["recommendation", "question", "administration", "network-operator", "identified-organization"],
                1 => vec!["standard", "registration-authority", "member-body", "identified-organization"],
                _ => vec![],
            };
            if !seconds.is_empty() && rng.chance(2, 3) {
                let sn = *rng.pick(&seconds);
                let sv = well_known(rv, sn).unwrap();
                arcs.push(sv);
                text.push(match rng.below(3) {
                    0 => sv.to_string(),
                    1 => sn.to_string(),
                    _ => format!("{sn}({sv})"),
                });
            } else {
                let sv = rng.below(40) as u128;
                arcs.push(sv);
                text.push(sv.to_string());
            }
            for i in 0..rng.below(9) {
                let v = *rng.pick(&[0u128, 1, 5, 127, 128, 840, 16383, 16384, 113549, 4294967295]);
                arcs.push(v);
                // name(number): the number counts; one arc in eight borrows a name that is well known further up the tree
                text.push(if rng.chance(1, 8) {
                    format!("{}({v})", rng.pick(&["standard", "identified-organization", "member-body", "recommendation", "iso", "itu-t", "administration"]))
                } else if rng.chance(1, 4) {
                    t(&format!("aq@x{i}({v})"))
                } else {
                    v.to_string()
                });
            }
            Case { types: String::new(), ty: "OBJECT IDENTIFIER".into(), val: format!("{{ {} }}", text.join(" ")), expected: AV::Oid(arcs), trailing_zeros_insignificant: false, as_default: false, form: if synonym { "oid/root-written-as-ccitt-synonym" } else { "oid" } }
        }
        13 => {
            // CHOICE value
            let types = t("Tc@ ::= CHOICE { cq@a INTEGER, cq@b BOOLEAN, cq@c IA5String }\n");
            match rng.below(3) {
                0 => {
                    let v = rng.range(-5000, 5000) as i128;
                    Case { types, ty: t("Tc@"), val: t(&format!("cq@a : {v}")), expected: AV::Choice(t("cq@a"), Box::new(AV::Int(v))), trailing_zeros_insignificant: false, as_default: true, form: "choice" }
                }
                1 => Case { types, ty: t("Tc@"), val: t("cq@b : TRUE"), expected: AV::Choice(t("cq@b"), Box::new(AV::Bool(true))), trailing_zeros_insignificant: false, as_default: true, form: "choice" },
                _ => Case { types, ty: t("Tc@"), val: t("cq@c : \"ab\""), expected: AV::Choice(t("cq@c"), Box::new(AV::Str("ab".into()))), trailing_zeros_insignificant: false, as_default: true, form: "choice" },
            }
        }
        14 => {
            // SEQUENCE OF value
            let k = rng.below(5);
            let vals: Vec<i128> = (0..k).map(|_| rng.range(-300, 70000) as i128).collect();
            let named = rng.chance(1, 2);
            let types = if named { t("Tl@ ::= SEQUENCE OF INTEGER\n") } else { String::new() };
            Case {
                types,
                ty: if named { t("Tl@") } else { "SEQUENCE OF INTEGER".into() },
                val: format!("{{ {} }}", vals.iter().map(|v| v.to_string()).collect::<Vec<_>>().join(", ")),
                expected: AV::List(vals.into_iter().map(AV::Int).collect()),
                trailing_zeros_insignificant: false,
                as_default: false,
                form: if k == 1 { "sequence-of/single-element" } else { "sequence-of" },
            }
        }
        _ if rng.chance(1, 3) => {
            // SET value: the named values may be written in any order (X.680 27); components with DEFAULT may be left out
            let types = t("Tt@ ::= SET { fq@a INTEGER, fq@b BOOLEAN DEFAULT TRUE, fq@c INTEGER DEFAULT 3, fq@d INTEGER }\n");
            let (a, c, d) = (rng.range(-100, 100) as i128, rng.range(4, 99) as i128, rng.range(100, 200) as i128);
            let mut parts = vec![t(&format!("fq@a {a}")), t(&format!("fq@d {d}"))];
            let with_c = rng.chance(2, 3);
            if with_c {
                parts.push(t(&format!("fq@c {c}")));
            }
            let with_b = rng.chance(1, 2);
            if with_b {
                parts.push(t("fq@b FALSE"));
            }
            rng.shuffle(&mut parts);
            let val = format!("{{ {} }}", parts.join(", "));
            Case { types, ty: t("Tt@"), val, expected: AV::Record(vec![AV::Int(a), AV::Bool(!with_b), AV::Int(if with_c { c } else { 3 }), AV::Int(d)]), trailing_zeros_insignificant: false, as_default: false, form: "set/any-order" }
        }
        _ => {
            // SEQUENCE value with an omitted OPTIONAL
            let types = t("Ts@ ::= SEQUENCE { fq@a INTEGER, fq@b BOOLEAN OPTIONAL, fq@c IA5String }\n");
            let a = rng.range(-100, 100) as i128;
            let with_b = rng.chance(1, 2);
            let val = if with_b { t(&format!("{{ fq@a {a}, fq@b FALSE, fq@c \"z\" }}")) } else { t(&format!("{{ fq@a {a}, fq@c \"z\" }}")) };
            Case { types, ty: t("Ts@"), val, expected: AV::Record(vec![AV::Int(a), if with_b { AV::Bool(false) } else { AV::Absent }, AV::Str("z".into())]), trailing_zeros_insignificant: false, as_default: false, form: "sequence" }
        }
    }
}

pub fn equal(expected: &AV, got: &AV, tz: bool) -> bool {
    match (expected, got) {
        (AV::Bits(a), AV::Bits(b)) if tz => {
            let trim = |v: &Vec<bool>| {
                let mut v = v.clone();
                while v.last() == Some(&false) {
                    v.pop();
                }
                v
            };
            trim(a) == trim(b)
        }
        (AV::Bits(a), AV::List(b)) if a.is_empty() && b.is_empty() => true,
        (AV::List(a), AV::Bits(b)) if a.is_empty() && b.is_empty() => true,
        (AV::Choice(n1, v1), AV::Choice(n2, v2)) => n1 == n2 && equal(v1, v2, tz),
        (AV::Record(a), AV::Record(b)) | (AV::List(a), AV::List(b)) => a.len() == b.len() && a.iter().zip(b).all(|(x, y)| equal(x, y, tz)),
        (a, b) => a == b,
    }
}

fn check_batch(cases: &[(usize, Case)], rep: &mut Report) {
    // every case: value assignment, a value reference to it, and (where admissible) a DEFAULT
    let mut src = String::from("Mq1 DEFINITIONS AUTOMATIC TAGS ::= BEGIN\n");
    for (n, c) in cases {
        src.push_str(&c.types);
        src.push_str(&format!("vq{n}a {} ::= {}\n", c.ty, c.val));
        src.push_str(&format!("vq{n}r {} ::= vq{n}a\n", c.ty));
        if c.as_default {
            src.push_str(&format!("Td{n} ::= SEQUENCE {{ dq{n}a {} DEFAULT {}, dq{n}r {} DEFAULT vq{n}a }}\n", c.ty, c.val, c.ty));
        }
    }
    src.push_str("END\n");
    let run = comp::rasn1(&src);
    let mods = match &run.out {
        comp::Outcome::Ok { generated, .. } => proj::project(generated).ok(),
        _ => None,
    };
    let Some(mods) = mods else {
        if cases.len() == 1 {
            rep.evaluations += 1;
            rep.count(&format!("not_compiled[{}]", cases[0].1.form), 1);
            return;
        }
        for c in cases {
            check_batch(std::slice::from_ref(c), rep);
        }
        return;
    };
    let m = &mods[0];
    for (n, c) in cases {
        rep.evaluations += 1;
        let mut sites: Vec<(String, String, Option<&syn::Expr>)> = vec![];
        // value assignment and value reference
        for (suffix, site) in [("a", "assignment"), ("r", "value-reference")] {
            let name = format!("VQ{n}{}", suffix.to_uppercase());
            match m.find_const(&name) {
                Some(it) => {
                    if let Kind::Const { init, ty, .. } = &it.kind {
                        sites.push((site.to_string(), it.text.clone(), Some(init)));
                        // an enumerated constant is of the governing type, not of some other type that has such an enumeral
                        if c.form.starts_with("enumerated") && ty != &c.ty {
                            rep.violations.push(Violation {
                                sig: format!("c07|constant-of-another-type|{}|{site}", c.form),
                                what: format!("`{} ::= {}` ({site}): declared as `{ty}`: `{}`", c.ty, c.val, one_line(&it.text, 160)),
                                replay: json!({"types": c.types, "type": c.ty, "value": c.val, "site": site, "emitted": it.text}),
                            });
                        }
                    }
                }
                None => rep.count(&format!("constant_absent[{site}/{}](warned; C10's subject)", c.form), 1),
            }
        }
        if c.as_default {
            for (suffix, site) in [("a", "default"), ("r", "default-via-value-reference")] {
                let fname = format!("td{n}_dq{n}{suffix}_default");
                match m.find_fn(&fname) {
                    Some(it) => {
                        if let Kind::Fn { body, .. } = &it.kind {
                            if let Some(syn::Stmt::Expr(e, None)) = body.stmts.last() {
                                sites.push((site.to_string(), it.text.clone(), Some(e)));
                            }
                        }
                    }
                    None => rep.count(&format!("default_fn_absent[{site}/{}](warned; C10's subject)", c.form), 1),
                }
            }
        }
        for (site, text, e) in sites {
            let Some(e) = e else { continue };
            let mut ev = Eval { m, depth: 0 };
            // the expression borrows from `mods`, which lives until the end of this function
            let e2: &syn::Expr = unsafe_extend(e);
            match ev.eval(e2) {
                Ok(got) => {
                    rep.count("values_compared", 1);
                    rep.count(&format!("values_compared[{}]", c.form), 1);
                    rep.nontrivial.insert(hash_str(&format!("{}|{}|{site}", c.ty, c.val)));
                    if rep.samples.len() < 5 && rep.evaluations % 997 == 3 {
                        rep.sample(json!({"asn1": format!("v {} ::= {}", c.ty, c.val), "site": site, "emitted": one_line(&text, 200), "denotes": got.show()}));
                    }
                    if !equal(&c.expected, &got, c.trailing_zeros_insignificant) {
                        rep.violations.push(Violation {
                            sig: format!("c07|value-differs|{}|{site}", c.form),
                            what: format!("`{} ::= {}` ({site}): source denotes {}, emitted `{}` denotes {}", c.ty, c.val, c.expected.show(), one_line(&text, 160), got.show()),
                            replay: json!({"types": c.types, "type": c.ty, "value": c.val, "site": site, "emitted": text}),
                        });
                    }
                }
                Err(why) if why.starts_with("NOT-AN-INITIALISER") => {
                    rep.count("values_compared", 1);
                    rep.violations.push(Violation {
                        sig: format!("c07|not-an-initialiser|{}|{site}", c.form.split('/').next().unwrap_or(c.form)),
                        what: format!("`{} ::= {}` ({site}): emitted `{}`: {why}", c.ty, c.val, one_line(&text, 160)),
                        replay: json!({"types": c.types, "type": c.ty, "value": c.val, "site": site, "emitted": text}),
                    });
                }
                // an initialiser that names a constant the module does not define cannot denote the source value (nothing of that
                // name is a value assignment of the input: the generator only refers to values it has defined)
                Err(why) if why.starts_with("unknown constant ") => {
                    rep.count("values_compared", 1);
                    rep.violations.push(Violation {
                        sig: format!("c07|initialiser-refers-to-an-undefined-constant|{}|{site}", c.form),
                        what: format!("`{} ::= {}` ({site}): emitted `{}`: {why}", c.ty, c.val, one_line(&text, 160)),
                        replay: json!({"types": c.types, "type": c.ty, "value": c.val, "site": site, "emitted": text}),
                    });
                }
                Err(why) => {
                    rep.count("unknown_expression_form(inconclusive)", 1);
                    rep.note("unknown_expression_forms", format!("{}: {why}", c.form));
                    rep.inconclusive.push(format!("{} {}: cannot evaluate `{}`: {why}", c.form, site, one_line(&text, 120)));
                }
            }
        }
    }
}

pub fn run(ctx: &Ctx) -> Report {
    let mut rep = Report::new(
        "exploration",
        "value notations: INTEGER (53 boundary points, random up to 2^127, through constrained types and alias chains of length 1..3, named numbers), BOOLEAN, NULL, character strings of 7 types incl. \"\", doubled quotes and multi-byte characters, BIT STRING in B form (every length 0..64) and H form (0..16 digits), OCTET STRING in H and B form, named-bit lists (declaration order shuffled, subsets incl. empty), enumerals, OBJECT IDENTIFIER values of 2..10 arcs in number / name / name(number) form with every well-known arc name under itu-t and iso, CHOICE, SEQUENCE (omitted OPTIONAL) and SEQUENCE OF values; each as value assignment, as value reference to that assignment, as DEFAULT and as DEFAULT through the value reference. Oracle: symbolic evaluation of the emitted const/static initialiser or default function (integer literals, Integer::from, bool, (), T::try_from(\"..\").unwrap(), String::from, [..].into_iter().collect(), <OctetString as From<&[u8]>>::from(&[..]), Oid::const_new / Oid::new(&[..].concat()), alloc::vec![..], newtype and variant wrapping, T::new(..), constant references) to an abstract value compared with the value denoted by the source; named-bit values modulo trailing zero bits. An unknown expression form is inconclusive. Non-trivial = one emitted value evaluated and compared; distinct by (type, value, site).",
    );
    rep.must_observe = vec!["values_compared".into(), "values_compared[oid]".into(), "values_compared[bitstring/named-bits]".into(), "values_compared[cstring]".into()];
    rep.assumptions = vec!["the symbolic evaluator (c07.rs, ~250 lines) models the emitted expression forms; DER-level comparison through compiled bindings is not part of this revision".into()];
    if ctx.replay.is_some() {
        rep.evaluations = 1;
        rep.inconclusive.push("replay: re-run the check (cases are regenerated from the seed)".into());
        return rep;
    }
    let n = ctx.pick(60_000usize, 600_000);
    let cases: Vec<(usize, Case)> = (0..n).map(|i| (i, gen_case(&mut Rng::for_case(ctx.seed, 7, i as u64), i))).collect();
    let acc = Acc::new(rep);
    let chunks: Vec<&[(usize, Case)]> = cases.chunks(40).collect();
    par_for(chunks.len() as u64, |i| {
        let mut local = Report::default();
        check_batch(chunks[i as usize], &mut local);
        acc.with(|r| r.merge(local));
    });
    let mut rep = acc.into_inner();
    // DER level (observation channel O6): the same kind of cases, encoded by the compiled bindings
    crate::c07der::run(ctx, &mut rep);
    // inconclusive evaluations are reported, never folded into "held"
    let inc = rep.inconclusive.len();
    rep.extra.insert("inconclusive_evaluations".into(), json!(inc));
    rep
}
