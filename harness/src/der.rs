//! Model-side DER encoder for *sample values* of grammar-G types (observation channel O6, used by the DER-level part of
//! C03). Given a model type it produces the X.690 DER bytes of one value of that type, with every tag applied as X.680
//! 31.2.7 (explicit / implicit / module default / CHOICE-typed ⇒ explicit) and 25.8 / 29.5 (automatic tagging) say. The bytes
//! are handed to the generated bindings (`rasn::der::decode::<T>` + re-encode): if the bindings' tags, tagging modes,
//! component order or optionality differ from the model, decoding fails or the re-encoding differs.
//!
//! Deliberately partial: whatever the encoder is not sure about returns `Err(reason)` and the type is not a claim.
use crate::gen::*;
use std::collections::BTreeMap;

#[derive(Clone, Debug)]
pub struct Tlv {
    pub class: TagClass,
    pub num: u32,
    pub constructed: bool,
    pub content: Vec<u8>,
}

impl Tlv {
    fn prim(num: u32, content: Vec<u8>) -> Tlv {
        Tlv { class: TagClass::Universal, num, constructed: false, content }
    }
    pub fn bytes(&self) -> Vec<u8> {
        let mut out = vec![];
        let cls = match self.class {
            TagClass::Universal => 0u8,
            TagClass::Application => 1,
            TagClass::Context => 2,
            TagClass::Private => 3,
        };
        let lead = (cls << 6) | if self.constructed { 0x20 } else { 0 };
        if self.num < 31 {
            out.push(lead | self.num as u8);
        } else {
            out.push(lead | 31);
            let mut groups = vec![];
            let mut n = self.num;
            loop {
                groups.push((n & 0x7f) as u8);
                n >>= 7;
                if n == 0 {
                    break;
                }
            }
            for (i, g) in groups.iter().rev().enumerate() {
                out.push(if i + 1 < groups.len() { g | 0x80 } else { *g });
            }
        }
        let len = self.content.len();
        if len < 128 {
            out.push(len as u8);
        } else {
            let be: Vec<u8> = len.to_be_bytes().iter().copied().skip_while(|b| *b == 0).collect();
            out.push(0x80 | be.len() as u8);
            out.extend(be);
        }
        out.extend(&self.content);
        out
    }
    fn sort_key(&self) -> (u8, u32) {
        (
            match self.class {
                TagClass::Universal => 0,
                TagClass::Application => 1,
                TagClass::Context => 2,
                TagClass::Private => 3,
            },
            self.num,
        )
    }
}

pub fn int_content(v: i128) -> Vec<u8> {
    let b = v.to_be_bytes();
    let mut i = 0;
    while i + 1 < b.len() && ((b[i] == 0x00 && b[i + 1] & 0x80 == 0) || (b[i] == 0xff && b[i + 1] & 0x80 != 0)) {
        i += 1;
    }
    b[i..].to_vec()
}

pub struct Sampler<'a> {
    pub set: &'a ModuleSet,
    env: BTreeMap<String, (usize, Ty)>,
    /// set while the type assignment itself (not a component) is being encoded
    top_level_tagged: std::cell::Cell<bool>,
}

impl<'a> Sampler<'a> {
    pub fn new(set: &'a ModuleSet) -> Self {
        Sampler { set, env: set.type_env(), top_level_tagged: std::cell::Cell::new(false) }
    }

    /// DER bytes of a sample value of `ty` as written in module `mi`; `variant` selects alternatives / optional presence
    pub fn sample(&self, ty: &Ty, mi: usize, variant: u32) -> Result<Vec<u8>, String> {
        // explicitly tagged constructed type assignments (directly or through a reference chain) are a known finding of C01
        // (the rasn derive's inner type): neither they nor the types that contain them are claimed
        if self.mentions_tagged_constructed_assignment(ty, 0) {
            return Err("contains an explicitly tagged constructed type assignment (C01 known finding: inner type of the rasn derive)".into());
        }
        self.tlv(ty, mi, variant, 0).map(|t| t.bytes())
    }

    fn mentions_tagged_constructed_assignment(&self, t: &Ty, depth: usize) -> bool {
        if depth > 10 {
            return false;
        }
        let constructed = matches!(t.kind, TyKind::Choice(_) | TyKind::Sequence(_) | TyKind::Set(_));
        if depth == 0 && t.tag.is_some() && constructed {
            return true;
        }
        match &t.kind {
            TyKind::Ref { name, .. } => self.env.get(name).is_some_and(|(_, rt)| (rt.tag.is_some() && matches!(rt.kind, TyKind::Choice(_) | TyKind::Sequence(_) | TyKind::Set(_))) || self.mentions_tagged_constructed_assignment(rt, depth + 1)),
            TyKind::Sequence(s) | TyKind::Set(s) | TyKind::Choice(s) => struct_comps_pub(s).iter().any(|c| self.mentions_tagged_constructed_assignment(&c.ty, depth + 1)),
            TyKind::SeqOf(e) | TyKind::SetOf(e) => self.mentions_tagged_constructed_assignment(e, depth + 1),
            _ => false,
        }
    }

    fn choice_like(&self, t: &Ty) -> bool {
        if t.tag.is_some() {
            return false;
        }
        match &t.kind {
            TyKind::Choice(_) | TyKind::Any => true,
            TyKind::Ref { name, .. } => self.env.get(name).is_some_and(|(_, rt)| self.choice_like(rt)),
            _ => false,
        }
    }

    fn tlv(&self, ty: &Ty, mi: usize, variant: u32, depth: usize) -> Result<Tlv, String> {
        if depth > 8 {
            return Err("recursion too deep for a sample value".into());
        }
        let mut inner = ty.clone();
        inner.tag = None;
        let base = self.base(&inner, mi, variant, depth)?;
        let Some(tag) = &ty.tag else { return Ok(base) };
        let tagging = self.set.modules[mi].tagging;

        let explicit = match tag.mode {
            TagMode::Explicit => true,
            TagMode::Implicit => false,
            TagMode::NoKeyword => match tagging {
                Tagging::Explicit => true,
                Tagging::Implicit | Tagging::Automatic => false,
                Tagging::None => return Err("module without TAGS clause (known finding C03 default=None)".into()),
            },
        } || self.choice_like(&inner);
        Ok(if explicit { Tlv { class: tag.class, num: tag.num, constructed: true, content: base.bytes() } } else { Tlv { class: tag.class, num: tag.num, constructed: base.constructed, content: base.content } })
    }

    fn comps_in_order<'b>(&self, s: &'b Struct) -> Result<Vec<(&'b Comp, bool)>, String> {
        // (component, is extension addition)
        let mut v: Vec<(&Comp, bool)> = s.root.iter().map(|c| (c, false)).collect();
        for a in s.ext.iter().flatten() {
            match a {
                Addition::Comp(c) if matches!(c.opt, Optionality::Default(_)) => return Err("extension addition with DEFAULT (rasn re-encodes the default value)".into()),
                Addition::Comp(c) => v.push((c, true)),
                Addition::Group { .. } => return Err("extension addition group (rasn encodes the group as a nested SEQUENCE in BER)".into()),
            }
        }
        v.extend(s.root2.iter().map(|c| (c, false)));
        Ok(v)
    }

    /// tags given by automatic tagging, per component in textual order, or None when it does not apply
    fn automatic(&self, s: &Struct, mi: usize, choice: bool) -> Result<Option<Vec<u32>>, String> {
        if !self.set.modules[mi].tagging.is_automatic() {
            return Ok(None);
        }
        let comps = self.comps_in_order(s)?;
        if comps.iter().any(|(c, _)| c.ty.tag.is_some()) {
            return Ok(None);
        }
        // X.680 25.8: root components (both root lists) are numbered first, then the extension additions; a CHOICE has no
        // second root list, so textual order
        let mut nums = vec![0u32; comps.len()];
        let mut next = 0;
        if choice {
            for n in nums.iter_mut() {
                *n = next;
                next += 1;
            }
        } else {
            for (i, (_, ext)) in comps.iter().enumerate() {
                if !ext {
                    nums[i] = next;
                    next += 1;
                }
            }
            for (i, (_, ext)) in comps.iter().enumerate() {
                if *ext {
                    nums[i] = next;
                    next += 1;
                }
            }
        }
        Ok(Some(nums))
    }

    fn comp_tlv(&self, c: &Comp, auto: Option<u32>, mi: usize, variant: u32, depth: usize) -> Result<Tlv, String> {
        match auto {
            None => self.tlv(&c.ty, mi, variant, depth + 1),
            Some(n) => {
                let base = self.tlv(&c.ty, mi, variant, depth + 1)?;
                Ok(if self.choice_like(&c.ty) { Tlv { class: TagClass::Context, num: n, constructed: true, content: base.bytes() } } else { Tlv { class: TagClass::Context, num: n, constructed: base.constructed, content: base.content } })
            }
        }
    }

    fn base(&self, t: &Ty, mi: usize, variant: u32, depth: usize) -> Result<Tlv, String> {
        let size_lo = match &t.constraint {
            Some(Constraint::Size { lo, .. }) => Some(*lo as usize),
            _ => None,
        };
        Ok(match &t.kind {
            TyKind::Null => Tlv::prim(5, vec![]),
            TyKind::Boolean => Tlv::prim(1, vec![0xff]),
            TyKind::Integer { .. } => {
                let v = match &t.constraint {
                    Some(Constraint::Range { lo: Some(l), .. }) => *l,
                    Some(Constraint::Range { lo: None, hi: Some(h), .. }) => *h,
                    Some(Constraint::Single { v, .. }) => *v,
                    _ => 5,
                };
                Tlv::prim(2, int_content(v))
            }
            TyKind::Enumerated(e) => {
                let explicit: Vec<i64> = e.root.iter().filter_map(|(_, n)| *n).collect();
                let first = match e.root.first() {
                    Some((_, Some(n))) => *n,
                    Some((_, None)) => (0..).find(|k| !explicit.contains(k)).unwrap(),
                    None => return Err("empty enumeration".into()),
                };
                Tlv::prim(10, int_content(first as i128))
            }
            TyKind::BitString { .. } => {
                let n = size_lo.unwrap_or(0);
                let mut content = vec![((8 - n % 8) % 8) as u8];
                let mut bits = vec![true; n];
                while bits.len() % 8 != 0 {
                    bits.push(false);
                }
                for ch in bits.chunks(8) {
                    content.push(ch.iter().fold(0u8, |a, b| (a << 1) | *b as u8));
                }
                Tlv::prim(3, content)
            }
            TyKind::OctetString => Tlv::prim(4, vec![0xab; size_lo.unwrap_or(1)]),
            TyKind::Oid => Tlv::prim(6, vec![0x2a, 0x03]),
            TyKind::RelOid => return Err("RELATIVE-OID (rasn 0.27 has no such type, the bindings use ObjectIdentifier)".into()),
            TyKind::UtcTime => Tlv::prim(23, b"250101000000Z".to_vec()),
            TyKind::GenTime => Tlv::prim(24, b"20250101000000Z".to_vec()),
            TyKind::Str(StrKind::Teletex) => return Err("TeletexString (rasn 0.27 decodes it in 4-octet units)".into()),
            TyKind::Str(k) => {
                let ch = match &t.alphabet {
                    Some(rs) if !rs.is_empty() => rs[0].0,
                    _ => {
                        if *k == StrKind::Numeric {
                            '1'
                        } else {
                            'A'
                        }
                    }
                };
                let n = size_lo.unwrap_or(1);
                let (num, width) = match k {
                    StrKind::Utf8 => (12, 1),
                    StrKind::Numeric => (18, 1),
                    StrKind::Printable => (19, 1),
                    StrKind::Teletex => (20, 1),
                    StrKind::Ia5 => (22, 1),
                    StrKind::Graphic => (25, 1),
                    StrKind::Visible => (26, 1),
                    StrKind::General => (27, 1),
                    StrKind::Universal => (28, 4),
                    StrKind::Bmp => (30, 2),
                };
                if !ch.is_ascii() {
                    return Err("non-ASCII sample character".into());
                }
                let mut content = vec![];
                for _ in 0..n {
                    content.extend(std::iter::repeat(0u8).take(width - 1));
                    content.push(ch as u8);
                }
                Tlv::prim(num, content)
            }
            TyKind::Sequence(s) | TyKind::Set(s) => {
                let is_set = matches!(t.kind, TyKind::Set(_));
                let comps = self.comps_in_order(s)?;
                let auto = self.automatic(s, mi, false)?;
                let mut parts: Vec<Tlv> = vec![];
                for (i, (c, _)) in comps.iter().enumerate() {
                    let present = match &c.opt {
                        Optionality::Required => true,
                        Optionality::Optional => depth < 3 && (variant as usize + i) % 2 == 0,
                        Optionality::Default(_) => false,
                    };
                    if matches!(c.opt, Optionality::Default(_)) {
                        // the type of the component, looked up through references
                        let mut k = &c.ty.kind;
                        for _ in 0..8 {
                            match k {
                                TyKind::Ref { name, .. } => match self.env.get(name) {
                                    Some((_, rt)) => k = &rt.kind,
                                    None => break,
                                },
                                _ => break,
                            }
                        }
                        if matches!(k, TyKind::Str(StrKind::Teletex | StrKind::Bmp)) {
                            return Err("TeletexString / BMPString DEFAULT (the generated default function reads the literal as 4- / 2-octet units in rasn 0.27 and panics on other lengths: C07's finding)".into());
                        }
                    }
                    if is_set && matches!(c.opt, Optionality::Default(_)) {
                        return Err("SET with a DEFAULT component (rasn's SET decoder reports an absent DEFAULT component as missing)".into());
                    }
                    if !present {
                        continue;
                    }
                    if is_set && auto.is_none() && self.choice_like(&c.ty) {
                        return Err("untagged CHOICE component in a SET (DER order depends on the alternative)".into());
                    }
                    parts.push(self.comp_tlv(c, auto.as_ref().map(|a| a[i]), mi, variant, depth)?);
                }
                if is_set {
                    parts.sort_by_key(|p| p.sort_key());
                }
                Tlv { class: TagClass::Universal, num: if is_set { 17 } else { 16 }, constructed: true, content: parts.iter().flat_map(|p| p.bytes()).collect() }
            }
            TyKind::Choice(s) => {
                let comps = self.comps_in_order(s)?;
                if comps.is_empty() {
                    return Err("empty CHOICE".into());
                }
                let auto = self.automatic(s, mi, true)?;
                let i = variant as usize % comps.len();
                self.comp_tlv(comps[i].0, auto.as_ref().map(|a| a[i]), mi, variant / comps.len() as u32, depth)?
            }
            TyKind::SeqOf(e) | TyKind::SetOf(e) => {
                if e.tag.is_some() {
                    return Err("tagged element type (known finding C03 pos=element)".into());
                }
                let n = size_lo.unwrap_or(1).min(40);
                let one = self.tlv(e, mi, variant, depth + 1)?.bytes();
                let mut content = vec![];
                for _ in 0..n {
                    content.extend(&one);
                }
                Tlv { class: TagClass::Universal, num: if matches!(t.kind, TyKind::SetOf(_)) { 17 } else { 16 }, constructed: true, content }
            }
            TyKind::Ref { name, .. } => {
                let (mi2, ty2) = self.env.get(name).ok_or("dangling reference")?;
                // known finding (C01 / C03 DER): the rasn derive loses `automatic_tags` on the inner type of an explicitly
                // tagged constructed type; the type itself is sampled (and reported under its own signature), types that
                // merely refer to it are not claimed
                let explicit = ty2.tag.as_ref().is_some_and(|t| t.mode == TagMode::Explicit || matches!(ty2.kind, TyKind::Choice(_)));
                if explicit && matches!(ty2.kind, TyKind::Choice(_) | TyKind::Sequence(_) | TyKind::Set(_)) && self.set.modules[*mi2].tagging.is_automatic() {
                    return Err("refers to an explicitly tagged constructed type of an AUTOMATIC TAGS module (known finding)".into());
                }
                self.tlv(ty2, *mi2, variant, depth + 1)?
            }
            TyKind::Any | TyKind::ClassField { .. } => return Err("open type".into()),
        })
    }
}

#[cfg(test)]
mod tests {
    use super::*;
    #[test]
    fn integers_and_tags() {
        assert_eq!(int_content(0), vec![0]);
        assert_eq!(int_content(127), vec![0x7f]);
        assert_eq!(int_content(128), vec![0, 0x80]);
        assert_eq!(int_content(-128), vec![0x80]);
        assert_eq!(int_content(-129), vec![0xff, 0x7f]);
        assert_eq!(int_content(65536), vec![1, 0, 0]);
        // X.690 8.14 example shapes: [APPLICATION 3] IMPLICIT / [2] EXPLICIT around VisibleString "Jones"
        let s = Tlv::prim(26, b"Jones".to_vec());
        assert_eq!(s.bytes(), [&[0x1a, 0x05][..], b"Jones"].concat());
        let t2 = Tlv { class: TagClass::Application, num: 3, constructed: false, content: s.content.clone() };
        assert_eq!(t2.bytes(), [&[0x43, 0x05][..], b"Jones"].concat());
        let t3 = Tlv { class: TagClass::Context, num: 2, constructed: true, content: t2.bytes() };
        assert_eq!(t3.bytes(), [&[0xa2, 0x07, 0x43, 0x05][..], b"Jones"].concat());
        // high tag number and long length
        let big = Tlv { class: TagClass::Private, num: 300, constructed: false, content: vec![0; 200] };
        assert_eq!(&big.bytes()[..5], &[0xdf, 0x82, 0x2c, 0x81, 200]);
    }
}
