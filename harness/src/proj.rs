//! O1: structural projection of generated Rust text (syn).
use proc_macro2::{Delimiter, TokenStream, TokenTree};
use quote::ToTokens;
use std::collections::BTreeMap;

#[derive(Clone, Debug, PartialEq, Eq, Hash)]
pub enum Meta {
    Word(String),
    List(String, Vec<Meta>),
    Kv(String, String),
    Lit(String),
}

impl Meta {
    pub fn name(&self) -> &str {
        match self {
            Meta::Word(n) | Meta::List(n, _) | Meta::Kv(n, _) => n,
            Meta::Lit(_) => "",
        }
    }
}

fn lit_content(tt: &TokenTree) -> String {
    let s = tt.to_string();
    if let Ok(l) = syn::parse_str::<syn::Lit>(&s) {
        match l {
            syn::Lit::Str(s) => return s.value(),
            syn::Lit::Int(i) => return i.base10_digits().to_string(),
            syn::Lit::Char(c) => return c.value().to_string(),
            _ => {}
        }
    }
    s
}

pub fn parse_metas(ts: TokenStream) -> Vec<Meta> {
    let toks: Vec<TokenTree> = ts.into_iter().collect();
    let mut out = vec![];
    let mut i = 0;
    while i < toks.len() {
        match &toks[i] {
            TokenTree::Punct(p) if p.as_char() == ',' => {
                i += 1;
            }
            TokenTree::Ident(id) => {
                // possibly a path a::b
                let mut name = id.to_string();
                i += 1;
                while i + 2 < toks.len() && toks[i].to_string() == ":" && toks[i + 1].to_string() == ":" {
                    name.push_str("::");
                    name.push_str(&toks[i + 2].to_string());
                    i += 3;
                }
                if i < toks.len() {
                    match &toks[i] {
                        TokenTree::Group(g) if g.delimiter() == Delimiter::Parenthesis => {
                            out.push(Meta::List(name, parse_metas(g.stream())));
                            i += 1;
                            continue;
                        }
                        TokenTree::Punct(p) if p.as_char() == '=' => {
                            i += 1;
                            let mut val = String::new();
                            // value: up to next top-level comma
                            let mut first = true;
                            while i < toks.len() {
                                if let TokenTree::Punct(p) = &toks[i] {
                                    if p.as_char() == ',' {
                                        break;
                                    }
                                }
                                if first {
                                    val.push_str(&lit_content(&toks[i]));
                                    first = false;
                                } else {
                                    val.push_str(&toks[i].to_string());
                                }
                                i += 1;
                            }
                            out.push(Meta::Kv(name, val));
                            continue;
                        }
                        _ => {}
                    }
                }
                out.push(Meta::Word(name));
            }
            TokenTree::Literal(_) => {
                out.push(Meta::Lit(lit_content(&toks[i])));
                i += 1;
            }
            TokenTree::Punct(p) if p.as_char() == '-' => {
                // negative literal
                if i + 1 < toks.len() {
                    out.push(Meta::Lit(format!("-{}", lit_content(&toks[i + 1]))));
                    i += 2;
                } else {
                    i += 1;
                }
            }
            other => {
                out.push(Meta::Lit(other.to_string()));
                i += 1;
            }
        }
    }
    out
}

#[derive(Clone, Debug, PartialEq, Eq)]
pub struct Tag {
    pub class: String, // context | application | private | universal
    pub num: String,
    pub explicit: bool,
}

#[derive(Clone, Debug, Default, PartialEq, Eq)]
pub struct Attrs {
    pub rasn: Vec<Meta>,
    pub derives: Vec<String>,
    pub non_exhaustive: bool,
    pub other: Vec<String>,
    pub docs: Vec<String>,
}

impl Attrs {
    pub fn from_syn(attrs: &[syn::Attribute]) -> Attrs {
        let mut a = Attrs::default();
        for at in attrs {
            let path = at.path().to_token_stream().to_string().replace(' ', "");
            match path.as_str() {
                "doc" => a.docs.push(at.meta.to_token_stream().to_string()),
                "non_exhaustive" => a.non_exhaustive = true,
                "derive" => {
                    if let syn::Meta::List(l) = &at.meta {
                        for m in parse_metas(l.tokens.clone()) {
                            a.derives.push(m.name().to_string());
                        }
                    }
                }
                "rasn" => {
                    if let syn::Meta::List(l) = &at.meta {
                        a.rasn.extend(parse_metas(l.tokens.clone()));
                    }
                }
                _ => a.other.push(norm(&at.to_token_stream())),
            }
        }
        a
    }
    pub fn has(&self, w: &str) -> bool {
        self.rasn.iter().any(|m| m.name() == w)
    }
    pub fn list(&self, w: &str) -> Option<&Vec<Meta>> {
        self.rasn.iter().find_map(|m| match m {
            Meta::List(n, v) if n == w => Some(v),
            _ => None,
        })
    }
    pub fn count(&self, w: &str) -> usize {
        self.rasn.iter().filter(|m| m.name() == w).count()
    }
    pub fn kv(&self, w: &str) -> Option<&str> {
        self.rasn.iter().find_map(|m| match m {
            Meta::Kv(n, v) if n == w => Some(v.as_str()),
            _ => None,
        })
    }
    pub fn tag(&self) -> Option<Tag> {
        let l = self.list("tag")?;
        let (inner, explicit) = match l.first() {
            Some(Meta::List(n, v)) if n == "explicit" => (v.clone(), true),
            _ => (l.clone(), false),
        };
        let mut class = "context".to_string();
        let mut num = String::new();
        for m in &inner {
            match m {
                Meta::Word(w) => class = w.clone(),
                Meta::Lit(n) => num = n.clone(),
                _ => {}
            }
        }
        Some(Tag { class, num, explicit })
    }
    /// (range-string, extensible)
    pub fn range(&self, w: &str) -> Option<(String, bool)> {
        let l = self.list(w)?;
        let mut r = String::new();
        let mut ext = false;
        for m in l {
            match m {
                Meta::Lit(s) => r = s.clone(),
                Meta::Word(s) if s == "extensible" => ext = true,
                _ => {}
            }
        }
        Some((r, ext))
    }
    pub fn from_items(&self) -> Option<Vec<String>> {
        let l = self.list("from")?;
        Some(
            l.iter()
                .filter_map(|m| match m {
                    Meta::Lit(s) => Some(s.clone()),
                    _ => None,
                })
                .collect(),
        )
    }
}

#[derive(Clone, Debug, PartialEq, Eq)]
pub struct Field {
    pub name: String,
    pub ty: String,
    pub attrs: Attrs,
}

#[derive(Clone, Debug, PartialEq, Eq)]
pub struct Variant {
    pub name: String,
    pub payload: Vec<String>,
    pub discr: Option<String>,
    pub attrs: Attrs,
}

#[derive(Clone, Debug)]
pub enum Kind {
    Struct { fields: Vec<Field>, tuple: bool },
    Enum { variants: Vec<Variant> },
    /// const or static (LazyLock / lazy_static unwrapped): declared type and initialiser
    Const { ty: String, init: syn::Expr, lazy: bool, is_static: bool },
    Fn { ret: String, body: syn::Block, args: Vec<String> },
    Impl { trait_: Option<String>, for_: String },
    Use(String),
    Other,
}

#[derive(Clone, Debug)]
pub struct Item {
    pub name: String,
    pub kind: Kind,
    pub attrs: Attrs,
    /// token-normalised text, doc attributes removed
    pub text: String,
}

#[derive(Clone, Debug, Default)]
pub struct Module {
    pub name: String,
    pub items: Vec<Item>,
    pub attrs_text: String,
}

impl Module {
    pub fn find(&self, name: &str) -> Option<&Item> {
        self.items.iter().find(|i| i.name == name && matches!(i.kind, Kind::Struct { .. } | Kind::Enum { .. }))
    }
    pub fn find_const(&self, name: &str) -> Option<&Item> {
        self.items.iter().find(|i| i.name == name && matches!(i.kind, Kind::Const { .. }))
    }
    pub fn find_fn(&self, name: &str) -> Option<&Item> {
        self.items.iter().find(|i| i.name == name && matches!(i.kind, Kind::Fn { .. }))
    }
    pub fn uses(&self) -> Vec<String> {
        self.items
            .iter()
            .filter_map(|i| match &i.kind {
                Kind::Use(u) => Some(u.clone()),
                _ => None,
            })
            .collect()
    }
}

pub fn norm<T: ToTokens>(t: &T) -> String {
    norm_ts(t.to_token_stream())
}

/// Canonical, whitespace-free-ish token text.
pub fn norm_ts(ts: TokenStream) -> String {
    let mut out = String::new();
    write_ts(ts, &mut out);
    out
}
fn write_ts(ts: TokenStream, out: &mut String) {
    let mut prev_word = false;
    for tt in ts {
        match tt {
            TokenTree::Group(g) => {
                let (o, c) = match g.delimiter() {
                    Delimiter::Parenthesis => ("(", ")"),
                    Delimiter::Brace => ("{", "}"),
                    Delimiter::Bracket => ("[", "]"),
                    Delimiter::None => ("", ""),
                };
                out.push_str(o);
                write_ts(g.stream(), out);
                out.push_str(c);
                prev_word = false;
            }
            TokenTree::Ident(i) => {
                if prev_word {
                    out.push(' ');
                }
                out.push_str(&i.to_string());
                prev_word = true;
            }
            TokenTree::Literal(l) => {
                if prev_word {
                    out.push(' ');
                }
                out.push_str(&l.to_string());
                prev_word = true;
            }
            TokenTree::Punct(p) => {
                out.push(p.as_char());
                prev_word = false;
            }
        }
    }
}

fn strip_docs(attrs: &[syn::Attribute]) -> Vec<syn::Attribute> {
    attrs.iter().filter(|a| !a.path().is_ident("doc")).cloned().collect()
}

fn item_text(it: &syn::Item) -> String {
    // remove doc attributes at item / field / variant level
    let mut it = it.clone();
    match &mut it {
        syn::Item::Struct(s) => {
            s.attrs = strip_docs(&s.attrs);
            for f in s.fields.iter_mut() {
                f.attrs = strip_docs(&f.attrs);
            }
        }
        syn::Item::Enum(e) => {
            e.attrs = strip_docs(&e.attrs);
            for v in e.variants.iter_mut() {
                v.attrs = strip_docs(&v.attrs);
                for f in v.fields.iter_mut() {
                    f.attrs = strip_docs(&f.attrs);
                }
            }
        }
        syn::Item::Const(c) => c.attrs = strip_docs(&c.attrs),
        syn::Item::Static(c) => c.attrs = strip_docs(&c.attrs),
        syn::Item::Fn(c) => c.attrs = strip_docs(&c.attrs),
        syn::Item::Impl(c) => c.attrs = strip_docs(&c.attrs),
        syn::Item::Type(c) => c.attrs = strip_docs(&c.attrs),
        _ => {}
    }
    norm(&it)
}

fn unwrap_lazy(ty: &syn::Type, init: &syn::Expr) -> Option<(String, syn::Expr)> {
    // LazyLock<T> = LazyLock::new(|| EXPR)
    let tys = norm(ty);
    let inner = tys.strip_prefix("LazyLock<")?.strip_suffix('>')?.to_string();
    if let syn::Expr::Call(c) = init {
        if norm(&c.func) == "LazyLock::new" && c.args.len() == 1 {
            if let syn::Expr::Closure(cl) = &c.args[0] {
                return Some((inner, (*cl.body).clone()));
            }
        }
    }
    None
}

fn project_item(it: &syn::Item, out: &mut Vec<Item>) {
    let text = item_text(it);
    match it {
        syn::Item::Struct(s) => {
            let tuple = matches!(s.fields, syn::Fields::Unnamed(_));
            let fields = s
                .fields
                .iter()
                .enumerate()
                .map(|(i, f)| Field {
                    name: f.ident.as_ref().map(|x| x.to_string()).unwrap_or_else(|| i.to_string()),
                    ty: norm(&f.ty),
                    attrs: Attrs::from_syn(&f.attrs),
                })
                .collect();
            out.push(Item { name: s.ident.to_string(), kind: Kind::Struct { fields, tuple }, attrs: Attrs::from_syn(&s.attrs), text });
        }
        syn::Item::Enum(e) => {
            let variants = e
                .variants
                .iter()
                .map(|v| Variant {
                    name: v.ident.to_string(),
                    payload: v.fields.iter().map(|f| norm(&f.ty)).collect(),
                    discr: v.discriminant.as_ref().map(|(_, e)| norm(e)),
                    attrs: Attrs::from_syn(&v.attrs),
                })
                .collect();
            out.push(Item { name: e.ident.to_string(), kind: Kind::Enum { variants }, attrs: Attrs::from_syn(&e.attrs), text });
        }
        syn::Item::Const(c) => {
            out.push(Item {
                name: c.ident.to_string(),
                kind: Kind::Const { ty: norm(&c.ty), init: (*c.expr).clone(), lazy: false, is_static: false },
                attrs: Attrs::from_syn(&c.attrs),
                text,
            });
        }
        syn::Item::Static(c) => {
            let (ty, init, lazy) = match unwrap_lazy(&c.ty, &c.expr) {
                Some((t, e)) => (t, e, true),
                None => (norm(&c.ty), (*c.expr).clone(), false),
            };
            out.push(Item { name: c.ident.to_string(), kind: Kind::Const { ty, init, lazy, is_static: true }, attrs: Attrs::from_syn(&c.attrs), text });
        }
        syn::Item::Fn(f) => {
            let ret = match &f.sig.output {
                syn::ReturnType::Default => "()".to_string(),
                syn::ReturnType::Type(_, t) => norm(t),
            };
            let args = f.sig.inputs.iter().map(|a| norm(a)).collect();
            out.push(Item { name: f.sig.ident.to_string(), kind: Kind::Fn { ret, body: (*f.block).clone(), args }, attrs: Attrs::from_syn(&f.attrs), text });
        }
        syn::Item::Impl(i) => {
            let trait_ = i.trait_.as_ref().map(|(_, p, _)| norm(p));
            let for_ = norm(&i.self_ty);
            let name = format!("impl {} for {}", trait_.clone().unwrap_or_default(), for_);
            out.push(Item { name, kind: Kind::Impl { trait_, for_ }, attrs: Attrs::from_syn(&i.attrs), text });
        }
        syn::Item::Use(u) => {
            let t = norm(&u.tree);
            out.push(Item { name: format!("use {t}"), kind: Kind::Use(t), attrs: Attrs::default(), text });
        }
        syn::Item::Macro(m) => {
            // lazy_static! { pub static ref NAME : TY = EXPR ; ... }
            let mname = norm(&m.mac.path);
            if mname.ends_with("lazy_static") {
                let toks: Vec<TokenTree> = m.mac.tokens.clone().into_iter().collect();
                let mut cur: Vec<TokenTree> = vec![];
                for tt in toks {
                    let is_semi = matches!(&tt, TokenTree::Punct(p) if p.as_char()==';');
                    let is_ref = matches!(&tt, TokenTree::Ident(i) if i == "ref");
                    if is_ref {
                        continue;
                    }
                    cur.push(tt);
                    if is_semi {
                        let ts: TokenStream = cur.drain(..).collect();
                        if let Ok(st) = syn::parse2::<syn::ItemStatic>(ts.clone()) {
                            out.push(Item {
                                name: st.ident.to_string(),
                                kind: Kind::Const { ty: norm(&st.ty), init: (*st.expr).clone(), lazy: true, is_static: true },
                                attrs: Attrs::from_syn(&st.attrs),
                                text: format!("lazy_static!{{{}}}", norm_ts(ts)),
                            });
                        } else {
                            out.push(Item { name: "lazy_static!?".into(), kind: Kind::Other, attrs: Attrs::default(), text: norm_ts(ts) });
                        }
                    }
                }
            } else {
                out.push(Item { name: format!("macro {mname}"), kind: Kind::Other, attrs: Attrs::default(), text });
            }
        }
        syn::Item::ExternCrate(e) => {
            out.push(Item { name: format!("extern crate {}", e.ident), kind: Kind::Other, attrs: Attrs::default(), text });
        }
        syn::Item::Type(t) => {
            out.push(Item { name: t.ident.to_string(), kind: Kind::Other, attrs: Attrs::from_syn(&t.attrs), text });
        }
        other => {
            out.push(Item { name: "?".into(), kind: Kind::Other, attrs: Attrs::default(), text: norm(other) });
        }
    }
}

/// Parse generated text into modules. Err = not parseable as Rust items.
pub fn project(generated: &str) -> Result<Vec<Module>, String> {
    let file = syn::parse_file(generated).map_err(|e| format!("syn: {e}"))?;
    let mut mods = vec![];
    for it in &file.items {
        match it {
            syn::Item::Mod(m) => {
                let mut module = Module { name: m.ident.to_string(), items: vec![], attrs_text: m.attrs.iter().map(|a| norm(a)).collect::<Vec<_>>().join("") };
                if let Some((_, items)) = &m.content {
                    for i in items {
                        project_item(i, &mut module.items);
                    }
                }
                mods.push(module);
            }
            other => {
                let mut module = Module { name: "<toplevel>".into(), ..Default::default() };
                project_item(other, &mut module.items);
                mods.push(module);
            }
        }
    }
    Ok(mods)
}

pub fn module_map(mods: &[Module]) -> BTreeMap<String, &Module> {
    mods.iter().map(|m| (m.name.clone(), m)).collect()
}
