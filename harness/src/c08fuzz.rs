//! C08, coverage-guided workload generator (libFuzzer through cargo-fuzz, nightly toolchain, offline).
//!
//! The fuzzer is *not* the oracle. It links the real compiler from /repo's working tree with sanitizer-coverage
//! instrumentation and mutates seed inputs towards lexer / parser / linker / generator edges that the seeded random
//! categories of `c08.rs` do not reach. Everything it keeps - its corpus (one input per newly covered feature set) and every
//! artifact (crash-*, timeout-*, oom-*) - is afterwards run through the ordinary C08 worker as category `coverage-guided`,
//! where the usual monitors decide (panic hook, signal of the worker process, H3 step budget, stack-sample spin detection,
//! known-findings matching). A fuzzer that cannot be built or started is an inconclusive note, never a verdict.
use crate::core::*;
use serde_json::json;
use std::path::{Path, PathBuf};
use std::process::{Command, Stdio};

/// First case index of the coverage-guided category (far beyond every seeded index space).
pub const FUZZ_BASE: u64 = 1 << 40;
/// Upper bound on the input length the fuzzer may produce. 1 KiB keeps nesting (one level costs at least one character)
/// below the depth at which the known stack-exhaustion findings begin (`deep-nesting` cases, depth 3000).
pub const MAX_LEN: usize = 1024;

const TARGET_SRC: &str = include_str!("c08fuzz_target.rs.in");

pub fn ws_dir() -> PathBuf {
    PathBuf::from(format!("{VERIF_DIR}/gen-ws/c08fuzz"))
}

fn write_if_changed(p: &Path, s: &str) -> std::io::Result<()> {
    if std::fs::read_to_string(p).ok().as_deref() == Some(s) {
        return Ok(());
    }
    if let Some(d) = p.parent() {
        std::fs::create_dir_all(d)?;
    }
    std::fs::write(p, s)
}

/// Writes the cargo-fuzz project (host package + fuzz package depending on /repo/rasn-compiler by path) and builds it.
pub fn build() -> Result<PathBuf, String> {
    let proj = ws_dir().join("proj");
    let e = |x: std::io::Error| x.to_string();
    write_if_changed(&proj.join("Cargo.toml"), "[package]\nname = \"c08fuzz-host\"\nversion = \"0.0.0\"\nedition = \"2021\"\npublish = false\n\n[lib]\npath = \"lib.rs\"\n\n[workspace]\n").map_err(e)?;
    write_if_changed(&proj.join("lib.rs"), "// host package of the cargo-fuzz target under fuzz/\n").map_err(e)?;
    write_if_changed(
        &proj.join("fuzz/Cargo.toml"),
        &format!("[package]\nname = \"c08fuzz\"\nversion = \"0.0.0\"\npublish = false\nedition = \"2021\"\n\n[package.metadata]\ncargo-fuzz = true\n\n[dependencies]\nlibfuzzer-sys = \"0.4\"\nrasn-compiler = {{ path = \"{REPO_DIR}/rasn-compiler\" }}\n\n[[bin]]\nname = \"totality\"\npath = \"fuzz_targets/totality.rs\"\ntest = false\ndoc = false\nbench = false\n\n[workspace]\n"),
    )
    .map_err(e)?;
    write_if_changed(&proj.join("fuzz/fuzz_targets/totality.rs"), TARGET_SRC).map_err(e)?;
    if !proj.join("fuzz/Cargo.lock").exists() {
        let _ = std::fs::copy(format!("{REPO_DIR}/Cargo.lock"), proj.join("fuzz/Cargo.lock"));
    }
    // `-s none`: no sanitizer runtime (the compiler has no unsafe code; the stack budget of the instrumented process should be
    // close to the real one); cargo-fuzz builds release with debug assertions and overflow checks on
    let out = Command::new("cargo")
        .args(["+nightly", "fuzz", "build", "-s", "none", "totality"])
        .current_dir(&proj)
        .env("CARGO_NET_OFFLINE", "true")
        .stdin(Stdio::null())
        .stdout(Stdio::null())
        .stderr(Stdio::piped())
        .output()
        .map_err(|x| format!("cannot run cargo +nightly fuzz: {x}"))?;
    if !out.status.success() {
        let err = String::from_utf8_lossy(&out.stderr);
        let tail: Vec<&str> = err.lines().rev().take(6).collect();
        return Err(format!("cargo fuzz build failed: {}", one_line(&tail.into_iter().rev().collect::<Vec<_>>().join(" / "), 500)));
    }
    let bin = proj.join("fuzz/target/x86_64-unknown-linux-gnu/release/totality");
    if bin.exists() {
        Ok(bin)
    } else {
        Err(format!("fuzz binary not found at {}", bin.display()))
    }
}

const DICT: &[&str] = &[
    "::=", "...", "..", "[[", "]]", "{", "}", "(", ")", "[", "]", ",", ";", ":", "|", "^", "@", "&", "<", "!", "--", "/*", "*/", "\\\"", "'", "'01'B", "'FF'H", "\\\"a\\\"..\\\"z\\\"",
    "SEQUENCE", "SET", " OF ", "CHOICE", "INTEGER", "BOOLEAN", "NULL", "ENUMERATED", "BIT STRING", "OCTET STRING", "OBJECT IDENTIFIER", "RELATIVE-OID", "OPTIONAL", "DEFAULT", "SIZE", "FROM", "MIN", "MAX", "TRUE",
    "FALSE", "BEGIN", "END", "DEFINITIONS", "IMPORTS", "EXPORTS", "ALL", "EXCEPT", "UNION", "INTERSECTION", "INCLUDES", "AUTOMATIC", "EXPLICIT", "IMPLICIT", "TAGS", "EXTENSIBILITY IMPLIED", "COMPONENTS OF", "WITH COMPONENTS",
    "WITH COMPONENT", "PRESENT", "ABSENT", "CLASS", "UNIQUE", "WITH SYNTAX", "MACRO", "TYPE NOTATION", "VALUE NOTATION", "REAL", "TIME", "DATE", "DURATION", "UTF8String", "IA5String", "PrintableString", "NumericString",
    "VisibleString", "BMPString", "UniversalString", "TeletexString", "GeneralizedTime", "UTCTime", "ANY", "DEFINED BY", "CONTAINING", "ENCODED BY", "PATTERN", "CONSTRAINED BY", "SETTINGS", "APPLICATION", "PRIVATE",
    "UNIVERSAL", "INSTANCE OF", "EMBEDDED PDV", "EXTERNAL", "CHARACTER STRING", "TYPE-IDENTIFIER", "ABSTRACT-SYNTAX", "PLUS-INFINITY", "MINUS-INFINITY", "NOT-A-NUMBER", "WITH SUCCESSORS", "WITH DESCENDANTS", "&Type", "&id",
    ".&", "mantissa", "T ::= ", "v T ::= ", " T ", "{ T }", "18446744073709551616", "-9223372036854775809", "170141183460469231731687303715884105727",
];

pub struct Explored {
    /// list file (one path per line) of everything the fuzzer kept
    pub list: PathBuf,
    pub n_files: u64,
}

/// Runs the fuzzer for `secs` seconds with `jobs` forked workers. Seeds: small corpus modules and `seeds` (snippet modules).
pub fn explore(rep: &mut Report, bin: &Path, seed: u64, secs: u64, jobs: usize, corpus_seeds: &[(String, String)], seeds: &[String]) -> Option<Explored> {
    let ws = ws_dir();
    let corpus = ws.join("corpus");
    let art = ws.join("artifacts");
    let _ = std::fs::remove_dir_all(&corpus);
    let _ = std::fs::remove_dir_all(&art);
    if std::fs::create_dir_all(&corpus).is_err() || std::fs::create_dir_all(&art).is_err() {
        rep.inconclusive.push("coverage-guided: cannot create the work directories".into());
        return None;
    }
    let mut n_seed = 0u64;
    for (i, (_, text)) in corpus_seeds.iter().enumerate() {
        if text.len() <= MAX_LEN && std::fs::write(corpus.join(format!("seed-corpus-{i:04}")), text).is_ok() {
            n_seed += 1;
        }
    }
    for (i, text) in seeds.iter().enumerate() {
        if text.len() <= MAX_LEN && std::fs::write(corpus.join(format!("seed-snippet-{i:04}")), text).is_ok() {
            n_seed += 1;
        }
    }
    let dict = ws.join("asn1.dict");
    let _ = std::fs::write(&dict, DICT.iter().map(|k| format!("\"{k}\"\n")).collect::<String>());
    let log = ws.join("fuzz.log");
    let logf = match std::fs::File::create(&log) {
        Ok(f) => f,
        Err(e) => {
            rep.inconclusive.push(format!("coverage-guided: {e}"));
            return None;
        }
    };
    let t0 = std::time::Instant::now();
    let st = Command::new(bin)
        .arg(&corpus)
        .args([
            format!("-artifact_prefix={}/", art.display()),
            format!("-dict={}", dict.display()),
            format!("-max_len={MAX_LEN}"),
            "-timeout=10".into(),
            format!("-fork={jobs}"),
            "-ignore_crashes=1".into(),
            "-ignore_timeouts=1".into(),
            "-ignore_ooms=1".into(),
            "-rss_limit_mb=4096".into(),
            format!("-max_total_time={secs}"),
            format!("-seed={}", (seed % 0xffff_fff0) + 1),
        ])
        .current_dir(&ws)
        .stdin(Stdio::null())
        .stdout(Stdio::null())
        .stderr(Stdio::from(logf))
        .status();
    let wall = t0.elapsed().as_secs();
    match st {
        Ok(s) => rep.note("coverage_guided_fuzzer_exit", format!("{s:?}")),
        Err(e) => {
            rep.inconclusive.push(format!("coverage-guided: cannot start the fuzzer: {e}"));
            return None;
        }
    }
    // last status line of the fork-mode driver: `#N: cov: C ft: F corp: K exec/s: .. oom/timeout/crash: a/b/c time: ..`
    let text = std::fs::read_to_string(&log).unwrap_or_default();
    let mut stats = serde_json::Map::new();
    if let Some(l) = text.lines().rev().find(|l| l.starts_with('#') && l.contains(" cov: ")) {
        let w: Vec<&str> = l.split_whitespace().collect();
        let after = |k: &str| w.iter().position(|x| *x == k).and_then(|i| w.get(i + 1)).map(|s| s.to_string());
        stats.insert("executions".into(), json!(w[0].trim_start_matches('#').trim_end_matches(':').parse::<u64>().unwrap_or(0)));
        stats.insert("covered_edges".into(), json!(after("cov:").and_then(|x| x.parse::<u64>().ok())));
        stats.insert("features".into(), json!(after("ft:").and_then(|x| x.parse::<u64>().ok())));
        stats.insert("oom/timeout/crash".into(), json!(after("oom/timeout/crash:")));
    }
    stats.insert("seconds".into(), json!(wall));
    stats.insert("forked_jobs".into(), json!(jobs));
    stats.insert("seed_inputs".into(), json!(n_seed));
    stats.insert("max_len".into(), json!(MAX_LEN));
    // everything the fuzzer kept
    let mut files: Vec<PathBuf> = vec![];
    let mut n_art = 0u64;
    for (d, is_art) in [(&corpus, false), (&art, true)] {
        if let Ok(rd) = std::fs::read_dir(d) {
            for e in rd.flatten() {
                let p = e.path();
                if p.is_file() {
                    let name = p.file_name().unwrap().to_string_lossy().to_string();
                    if !is_art && name.starts_with("seed-") {
                        continue; // the seeds themselves are cases of other categories
                    }
                    if is_art {
                        n_art += 1;
                        rep.note("coverage_guided_artifacts", name.split('-').next().unwrap_or("").to_string());
                    }
                    files.push(p);
                }
            }
        }
    }
    files.sort();
    stats.insert("kept_inputs".into(), json!(files.len() as u64 - n_art));
    stats.insert("artifacts".into(), json!(n_art));
    rep.extra.insert("coverage_guided".into(), serde_json::Value::Object(stats));
    if files.is_empty() {
        rep.inconclusive.push(format!("coverage-guided: the fuzzer kept no input (log tail: {})", one_line(&text.lines().rev().take(3).collect::<Vec<_>>().join(" / "), 300)));
        return None;
    }
    let list = ws.join("kept.list");
    let body: String = files.iter().map(|p| format!("{}\n", p.display())).collect();
    if std::fs::write(&list, body).is_err() {
        rep.inconclusive.push("coverage-guided: cannot write the list of kept inputs".into());
        return None;
    }
    Some(Explored { list, n_files: files.len() as u64 })
}

/// The inputs named by the list file in `VERIF_C08_FUZZLIST` (set by the driver, inherited by the workers).
pub fn listed() -> &'static Vec<(String, String)> {
    static L: std::sync::OnceLock<Vec<(String, String)>> = std::sync::OnceLock::new();
    L.get_or_init(|| {
        let mut v = vec![];
        if let Ok(p) = std::env::var("VERIF_C08_FUZZLIST") {
            for l in std::fs::read_to_string(&p).unwrap_or_default().lines() {
                let bytes = std::fs::read(l).unwrap_or_default();
                let name = Path::new(l).file_name().map(|n| n.to_string_lossy().to_string()).unwrap_or_default();
                v.push((name, String::from_utf8_lossy(&bytes).to_string()));
            }
        }
        v
    })
}

/// Keeps a copy of a violating input next to the replay files, so that a replay does not depend on the work space.
pub fn keep_for_replay(input: &str) -> String {
    let dir = format!("{VERIF_DIR}/replay/C08/inputs");
    let _ = std::fs::create_dir_all(&dir);
    let p = format!("{dir}/{:016x}.asn", hash_str(input));
    let _ = std::fs::write(&p, input);
    p
}
