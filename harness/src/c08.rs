//! C08 — totality: no panic, abort or hang. Worker processes observed by the driver (O4) + H3 step counters.
use crate::core::*;
use crate::tok;
use rasn_compiler::prelude::*;
use rasn_compiler::verif_hooks as vh;
use serde_json::json;
use std::io::{BufRead, BufReader, Write};
use std::process::{Command, Stdio};
use std::sync::atomic::{AtomicU64, Ordering};

pub struct Corpus {
    pub files: Vec<(String, String)>, // (name, content), sorted by size ascending
}

pub fn load_corpus() -> Corpus {
    let dir = format!("{REPO_DIR}/rasn-compiler-tests/tests/modules");
    let mut files = vec![];
    if let Ok(rd) = std::fs::read_dir(&dir) {
        for e in rd.flatten() {
            let p = e.path();
            if p.extension().is_some_and(|x| x == "asn1" || x == "asn") {
                if let Ok(s) = std::fs::read_to_string(&p) {
                    files.push((p.file_name().unwrap().to_string_lossy().to_string(), s));
                }
            }
        }
    }
    files.sort_by(|a, b| a.1.len().cmp(&b.1.len()).then(a.0.cmp(&b.0)));
    Corpus { files }
}

pub const SNIPPETS: &[&str] = &[
    // a long definition full of non-ASCII text that the rasn backend cannot translate (its warning quotes the definition)
    // long definitions full of non-ASCII text that the rasn backend cannot translate (its warning quotes the value); three
    // alignments, so that a byte-indexed cut of the message meets the inside of a character
    "W1 ::= CHOICE { inner SEQUENCE { title UTF8String, body UTF8String }, other NULL }\nvw1 W1 ::= inner : { title \"x\", body \"これは非常に長い本文です。これは非常に長い本文です。これは非常に長い本文です。これは非常に長い本文です。これは非常に長い本文です。これは非常に長い本文です。これは非常に長い本文です。これは非常に長い本文です。これは非常に長い本文です。これは非常に長い本文です。これは非常に長い本文です。これは非常に長い本文です。これは非常に長い本文です。これは非常に長い本文です。\" }",
    "W2 ::= CHOICE { inner SEQUENCE { title UTF8String, body UTF8String }, other NULL }\nvw2 W2 ::= inner : { title \"xy\", body \"これは非常に長い本文です。これは非常に長い本文です。これは非常に長い本文です。これは非常に長い本文です。これは非常に長い本文です。これは非常に長い本文です。これは非常に長い本文です。これは非常に長い本文です。これは非常に長い本文です。これは非常に長い本文です。これは非常に長い本文です。これは非常に長い本文です。これは非常に長い本文です。これは非常に長い本文です。\" }",
    "W3 ::= CHOICE { inner SEQUENCE { title UTF8String, body UTF8String }, other NULL }\nvw3 W3 ::= inner : { title \"xyz\", body \"これは非常に長い本文です。これは非常に長い本文です。これは非常に長い本文です。これは非常に長い本文です。これは非常に長い本文です。これは非常に長い本文です。これは非常に長い本文です。これは非常に長い本文です。これは非常に長い本文です。これは非常に長い本文です。これは非常に長い本文です。これは非常に長い本文です。これは非常に長い本文です。これは非常に長い本文です。\" }",
    "P1 { T } ::= SEQUENCE { v T, next P1 { T } OPTIONAL }",
    "X1 ::= P1 { INTEGER }",
    "P2 { INTEGER: n } ::= SEQUENCE { v INTEGER (0..n), sub SEQUENCE OF P2 { n } }",
    "X2 ::= P2 { 5 }",
    "S5 C1 ::= { S2 }",
    "U6 ::= SEQUENCE { id C1.&id ({S5}), val C1.&Type ({S5}{@id}) }",
    "F1 ::= IA5String (FROM (\"\"..\"z\"))",
    "F2 ::= IA5String (FROM (\"a\"..\"\"))",
    "F3 ::= PrintableString (FROM (\"\"))",
    "C2 ::= CLASS { &Type-Field, &id INTEGER UNIQUE } WITH SYNTAX { &Type-Field ID &id }",
    "o3 C2 ::= { INTEGER ID 1 }",
    "S6 C2 ::= { o3 }",
    "U7 ::= SEQUENCE { id C2.&id ({S6}), v C2.&Type-Field ({S6}{@id}) }",
    "U8 ::= SEQUENCE { id C1.&id ({}), val C1.&Type ({}{@id}) }",
    "B9 ::= BIT STRING { reserved(-1), urgent(0), ack(1) }",
    "vb9 B9 ::= { reserved, ack }",
    "U10 ::= SEQUENCE { f B9 DEFAULT { reserved } }",
    "B10 ::= BIT STRING { far(70000), near(0) }",
    "vb10 B10 ::= { far }",
    "F4 ::= IA5String (\"\" | \"a\"..\"a\")",
    "F5 ::= IA5String (FROM (\"\" | \"a\"..\"a\") ^ SIZE (1..4))",
    "E9 ::= ENUMERATED { a, ..., b(170141183460469231731687303715884105727), c }",
    "E10 ::= ENUMERATED { a(170141183460469231731687303715884105727), b }",
    "I9 ::= INTEGER { big(170141183460469231731687303715884105727) } (0..big)",
    "U9 ::= SEQUENCE { id C1.&id ({o1}), val C1.&Type ({o1 | o2}{@id}) }",
    "T1 ::= TIME",
    "T2 ::= REAL",
    "T3 ::= DATE",
    "T4 ::= TIME-OF-DAY",
    "T5 ::= DATE-TIME",
    "T6 ::= DURATION",
    "r1 REAL ::= 3.14",
    "r2 REAL ::= { mantissa 1, base 2, exponent 3 }",
    "r3 REAL ::= PLUS-INFINITY",
    // circular value references, alone and reached from a DEFAULT governed by a type reference
    "cv1 BOOLEAN ::= cv2",
    "cv2 BOOLEAN ::= cv1",
    "cv3 INTEGER ::= cv4",
    "cv4 INTEGER ::= cv3",
    "Tcv ::= INTEGER",
    "Scv ::= SEQUENCE { x Tcv DEFAULT cv3 }",
    "cv5 INTEGER ::= cv5",
    "C1 ::= CLASS { &id INTEGER UNIQUE, &Type OPTIONAL, &val BOOLEAN DEFAULT TRUE } WITH SYNTAX { ID &id [TYPE &Type] [VAL &val] }",
    "o1 C1 ::= { ID 1 TYPE INTEGER }",
    "o2 C1 ::= { ID 2 }",
    "S1 C1 ::= { o1 | o2, ... }",
    "S2 C1 ::= { S1 | S3 }",
    "S3 C1 ::= { S2 }",
    "S4 C1 ::= { ... }",
    // an inverted character range next to an empty string; a PATTERN intersected with a contained subtype
    "F6 ::= IA5String (\"\" | \"z\"..\"a\")",
    "F7 ::= IA5String (FROM (\"\" | \"z\"..\"a\") ^ SIZE (1))",
    "F8 ::= IA5String (PATTERN \"a\" ^ INCLUDES IA5String (SIZE (1..4)))",
    // a cycle of object sets that does not contain the set it is reached from
    "Sa C1 ::= { Sb }\nSb C1 ::= { Sc }\nSc C1 ::= { Sb }",
    // a named bit far beyond anything a value could spell out
    "Bits11 ::= BIT STRING { a(0), b(100000000000000) }\nvb11 Bits11 ::= { a }",
    "Bits12 ::= BIT STRING { a(0), b(18446744073709551616) }\nU12 ::= SEQUENCE { f Bits12 DEFAULT { b } }",
    "U1 ::= SEQUENCE { id C1.&id ({S1}), val C1.&Type ({S1}{@id}) }",
    "U2 ::= SEQUENCE { id C1.&id ({S2}), val C1.&Type ({S2}{@id}) OPTIONAL }",
    "U3 ::= C1.&Type",
    "U4 ::= TYPE-IDENTIFIER.&Type",
    "U5 ::= INSTANCE OF C1",
    "A1 ::= B1",
    "B1 ::= A1",
    "va A1 ::= 1",
    "A2 ::= A2",
    "vb A2 ::= TRUE",
    "A3 ::= SEQUENCE OF A3",
    "A4 ::= SEQUENCE { a A4 }",
    "A5 ::= CHOICE { a A5 }",
    "vc INTEGER ::= vd",
    "vd INTEGER ::= vc",
    "ve INTEGER ::= ve",
    "K1 ::= INTEGER (vc..vd)",
    "P1{T} ::= SEQUENCE { a T }",
    "Q1 ::= P1{Q1}",
    "Q1b ::= P1{INTEGER}",
    "P2{INTEGER:n} ::= INTEGER (0..n)",
    "Q2 ::= P2{5}",
    "Q2b ::= P2{vc}",
    "P3{T, INTEGER:n, C1:Set} ::= SEQUENCE (SIZE(1..n)) OF T",
    "Q3 ::= P3{BOOLEAN, 4, {S1}}",
    "P4{T} ::= P4{T}",
    "Q4 ::= P4{NULL}",
    "Sel1 ::= a < Ch1",
    "Sel2 ::= zz < Ch1",
    "Sel3 ::= a < Sel3",
    "Ch1 ::= CHOICE { a INTEGER, b BOOLEAN }",
    "M1 MACRO ::= BEGIN TYPE NOTATION ::= \"X\" VALUE NOTATION ::= value(VALUE INTEGER) END",
    "OPERATION MACRO ::= BEGIN TYPE NOTATION ::= Arg Res VALUE NOTATION ::= value(VALUE INTEGER) Arg ::= \"ARGUMENT\" type | empty Res ::= \"RESULT\" type | empty END",
    "op1 OPERATION ARGUMENT INTEGER RESULT BOOLEAN ::= 1",
    "E1 ::= EMBEDDED PDV",
    "X1 ::= EXTERNAL",
    "CS1 ::= CHARACTER STRING",
    "W1 ::= SEQUENCE { a INTEGER, b BOOLEAN OPTIONAL } (WITH COMPONENTS { a (0..5), b ABSENT })",
    "W2 ::= SEQUENCE OF INTEGER (WITH COMPONENT (0..5))",
    "Pt1 ::= UTF8String (PATTERN \"a*\")",
    "Cb1 ::= INTEGER (CONSTRAINED BY { -- x -- })",
    "Cn1 ::= OCTET STRING (CONTAINING INTEGER)",
    "Cn2 ::= BIT STRING (CONTAINING INTEGER ENCODED BY { joint-iso-itu-t asn1(1) packed-encoding(3) })",
    "Ps1 ::= TIME (SETTINGS \"Basic=Date\")",
    "G1 ::= SEQUENCE { a INTEGER, ..., [[ COMPONENTS OF G2 ]] }",
    "G2 ::= SEQUENCE { x BOOLEAN }",
    "G3 ::= SEQUENCE { COMPONENTS OF G3 }",
    "G4 ::= SET { COMPONENTS OF G2, COMPONENTS OF G1 }",
    "G5 ::= SEQUENCE { ..., [[ 2: a INTEGER ]], ... }",
    "G6 ::= SEQUENCE { ... }",
    "G7 ::= CHOICE { ... }",
    "G8 ::= ENUMERATED { ... }",
    "G9 ::= SEQUENCE { }",
    "An1 ::= ANY",
    "An2 ::= SEQUENCE { x INTEGER, y ANY DEFINED BY x }",
    "V1 ::= VideotexString",
    "V2 ::= T61String",
    "V3 ::= ISO646String",
    "V4 ::= ObjectDescriptor",
    "V5 ::= RELATIVE-OID",
    "V6 ::= OID-IRI",
    "V7 ::= RELATIVE-OID-IRI",
    "R1 ::= INTEGER (10..0)",
    "R2 ::= INTEGER (MAX..MIN)",
    "R3 ::= INTEGER (0..5)(7..9)",
    "R4 ::= INTEGER (ALL EXCEPT 5)",
    "R5 ::= INTEGER (INCLUDES R1 | 7)",
    "R6 ::= IA5String (FROM (\"z\"..\"a\"))",
    "R7 ::= IA5String (SIZE (MAX))",
    "R8 ::= BIT STRING { a(0), a(0) }",
    "R9 ::= INTEGER { a(1), b(a) }",
    "N1 ::= BIT STRING { x(100000000000) }",
    "vn1 N1 ::= { x }",
    "vn2 BIT STRING ::= ''B",
    "vn3 OCTET STRING ::= 'ABC'H",
    "vn4 OCTET STRING ::= '0101'B",
    "vo1 OBJECT IDENTIFIER ::= { }",
    "vo2 OBJECT IDENTIFIER ::= { vo2 1 }",
    "vo3 OBJECT IDENTIFIER ::= { iso(1) zzz 3 }",
    "vo4 RELATIVE-OID ::= { 1 2 }",
    "vs1 Ch1 ::= a : 1",
    "vs2 Ch1 ::= zz : 1",
    "vs3 G2 ::= { x TRUE }",
    "vs4 G2 ::= { y 1 }",
    "vs5 G2 ::= { }",
    "vs6 A3 ::= { { { } } }",
    "vs7 INTEGER ::= 99999999999999999999999999999999999999999999",
    "vs8 INTEGER ::= -170141183460469231731687303715884105728",
    "vs9 UTF8String ::= { \"a\", {0,0,1,2} }",
    "vs10 IA5String ::= \"\u{e4}\u{4e2d}\"",
    "D1 ::= SEQUENCE { a INTEGER DEFAULT zz }",
    "D2 ::= SEQUENCE { a Ch1 DEFAULT a : 5, b G2 DEFAULT { x TRUE }, c BIT STRING { q(1) } DEFAULT { q } }",
    "D3 ::= SEQUENCE { a ENUMERATED { x, y } DEFAULT x }",
    "D4 ::= SEQUENCE { a SEQUENCE OF INTEGER DEFAULT { 1, 2 } }",
    "D5 ::= SEQUENCE { a [0] [1] EXPLICIT [2] IMPLICIT INTEGER }",
    "D6 ::= [UNIVERSAL 99999999999] INTEGER",
    "D7 ::= SET OF SET OF SET (SIZE(1)) OF NULL",
];

const VOCAB: &[&str] = &[
    "::=", "{", "}", "(", ")", "[", "]", "[[", "]]", ",", ";", ":", ".", "..", "...", "|", "^", "<", "@", "&", "!", "-", "*", "/",
    "SEQUENCE", "SET", "OF", "CHOICE", "INTEGER", "BOOLEAN", "NULL", "ENUMERATED", "BIT", "OCTET", "STRING", "OBJECT", "IDENTIFIER", "OPTIONAL", "DEFAULT",
    "SIZE", "FROM", "MIN", "MAX", "TRUE", "FALSE", "BEGIN", "END", "DEFINITIONS", "IMPORTS", "EXPORTS", "ALL", "EXCEPT", "UNION", "INTERSECTION", "INCLUDES",
    "AUTOMATIC", "EXPLICIT", "IMPLICIT", "TAGS", "EXTENSIBILITY", "IMPLIED", "COMPONENTS", "WITH", "COMPONENT", "PRESENT", "ABSENT", "CLASS", "UNIQUE", "SYNTAX",
    "MACRO", "TYPE", "NOTATION", "VALUE", "REAL", "TIME", "UTF8String", "IA5String", "PrintableString", "ANY", "DEFINED", "BY", "CONTAINING", "ENCODED", "PATTERN",
    "CONSTRAINED", "SETTINGS", "APPLICATION", "PRIVATE", "UNIVERSAL", "INSTANCE", "EMBEDDED", "PDV", "EXTERNAL", "CHARACTER", "ENCODING-CONTROL", "INSTRUCTIONS",
    "Ta", "Tb", "va", "vb", "a", "b", "M", "0", "1", "-1", "255", "18446744073709551616", "\"s\"", "\"\"", "'01'B", "'FF'H", "''H", "--", "/*", "*/", "\"", "'",
];

fn pick_char(rng: &mut Rng) -> char {
    match rng.below(10) {
        0..=4 => (0x20 + rng.below(0x5f) as u8) as char,
        5 => *rng.pick(&['\n', '\r', '\t', '\0', '\x0b', '\x0c', '\x7f', '\x1b']),
        6 => *rng.pick(&['{', '}', '(', ')', '[', ']', ':', '=', '-', '/', '*', '"', '\'', '.', ',', '|', '^', '&', '@', '<']),
        7 => *rng.pick(&['ä', 'ß', 'é', '中', '日', '€', '\u{feff}', '\u{2028}', '\u{a0}', '𝄞', '😀', '\u{10ffff}', '\u{7ff}', '\u{800}', '\u{ffff}']),
        _ => char::from_u32(rng.below(0x11_0000) as u32).unwrap_or('x'),
    }
}

fn headers(rng: &mut Rng) -> String {
    let name = *rng.pick(&["Mq1", "M-x", "Module", "A"]);
    let oid = *rng.pick(&["", "{ iso(1) 2 3 }", "{ 1 2 }", "{ iso standard 8571 }", "{ joint-iso-itu-t(2) x(5) } \"/ISO/a\""]);
    let tags = *rng.pick(&["", "EXPLICIT TAGS", "IMPLICIT TAGS", "AUTOMATIC TAGS", "XER INSTRUCTIONS AUTOMATIC TAGS"]);
    let ext = if rng.chance(1, 4) { "EXTENSIBILITY IMPLIED" } else { "" };
    let exp = *rng.pick(&["", "", "EXPORTS ALL;", "EXPORTS;", "EXPORTS Ta, va;"]);
    let imp = *rng.pick(&["", "", "IMPORTS;", "IMPORTS X, y FROM Other;", "IMPORTS X FROM Other { 1 2 } Y FROM Z WITH SUCCESSORS;", "IMPORTS P1{} FROM Other;"]);
    format!("{name} {oid} DEFINITIONS {tags} {ext} ::= BEGIN {exp} {imp}\n")
}

pub struct Case {
    pub cat: &'static str,
    pub input: String,
    pub origin: String,
}

/// Number of exhaustive prefix cases: all char-boundary prefixes of the N smallest corpus files.
fn prefix_space(corpus: &Corpus, nfiles: usize) -> Vec<(usize, usize)> {
    let mut v = vec![];
    for (fi, (_, s)) in corpus.files.iter().take(nfiles).enumerate() {
        for (i, _) in s.char_indices() {
            v.push((fi, i));
        }
        v.push((fi, s.len()));
    }
    v
}

fn mutate_tokens(rng: &mut Rng, src: &str, other: &str) -> String {
    let lx = tok::tokenize(src);
    if lx.toks.is_empty() {
        return src.to_string();
    }
    let mut pieces: Vec<String> = vec![];
    // pieces: gap text + token text alternating, so that untouched layout is kept
    let mut pos = 0;
    for t in &lx.toks {
        pieces.push(src[pos..t.start].to_string());
        pieces.push(t.text(src).to_string());
        pos = t.end;
    }
    let tail = src[pos..].to_string();
    let n = lx.toks.len();
    let nm = 1 + rng.below(3);
    for _ in 0..nm {
        let i = rng.below(n);
        let ti = 2 * i + 1;
        match rng.below(7) {
            0 => pieces[ti].clear(),
            1 => {
                let v = rng.pick(VOCAB).to_string();
                pieces[ti] = format!("{} {}", v, pieces[ti]);
            }
            2 => pieces[ti] = rng.pick(VOCAB).to_string(),
            3 => pieces[ti] = format!("{0} {0}", pieces[ti]),
            4 => {
                if i + 1 < n {
                    pieces.swap(ti, ti + 2);
                }
            }
            5 => {
                // splice a token run from another file
                let lo = tok::tokenize(other);
                if !lo.toks.is_empty() {
                    let a = rng.below(lo.toks.len());
                    let b = (a + 1 + rng.below(12)).min(lo.toks.len());
                    pieces[ti] = other[lo.toks[a].start..lo.toks[b - 1].end].to_string();
                }
            }
            _ => {
                // delete a run
                let b = (i + 1 + rng.below(8)).min(n);
                for j in i..b {
                    pieces[2 * j + 1].clear();
                }
            }
        }
    }
    let mut out: String = pieces.concat();
    out.push_str(&tail);
    out
}

fn small_file<'a>(rng: &mut Rng, corpus: &'a Corpus, max_len: usize) -> &'a (String, String) {
    let n = corpus.files.partition_point(|f| f.1.len() <= max_len).max(1);
    &corpus.files[rng.below(n)]
}

fn snippet_module(rng: &mut Rng) -> String {
    let mut s = headers(rng);
    let n = 1 + rng.below(10);
    for _ in 0..n {
        s.push_str(*rng.pick(SNIPPETS));
        s.push('\n');
    }
    if !rng.chance(1, 20) {
        s.push_str("END\n");
    }
    if rng.chance(1, 6) {
        // a second module
        s.push_str(&headers(rng).replace("Mq1", "Other").replace("Module", "Other"));
        for _ in 0..1 + rng.below(4) {
            s.push_str(*rng.pick(SNIPPETS));
            s.push('\n');
        }
        s.push_str("END\n");
    }
    s
}

pub fn gen_case_pub(seed: u64, idx: u64, corpus: &Corpus, nfiles: usize) -> Case {
    let p = prefix_space(corpus, nfiles);
    gen_case(seed, idx, corpus, &p)
}

pub const DEEP_FORMS: usize = 7;
pub const DEEP_DEPTHS: [usize; 2] = [3000, 20000];
pub fn deep_body(form: usize, depth: usize) -> String {
    match form {
        0 => format!("T ::= {}INTEGER", "SEQUENCE OF ".repeat(depth)),
        1 => format!("T ::= INTEGER {}0..5{}", "(".repeat(depth), ")".repeat(depth)),
        2 => format!("T ::= {}INTEGER{}", "SEQUENCE { a ".repeat(depth), " }".repeat(depth)),
        3 => format!("v T ::= {}1{}", "{ ".repeat(depth), " }".repeat(depth)),
        4 => format!("T ::= {}INTEGER", "[1] ".repeat(depth)),
        5 => format!("T ::= INTEGER ({}1{})", "ALL EXCEPT (".repeat(depth.min(500)), ")".repeat(depth.min(500))),
        // a syntax error at moderate depth (the lexer backtracks ~1.75x per level: depth 14 stays < 1 s)
        _ => format!("T ::= {}a INTEGER{}", "SEQUENCE { a ".repeat(1 + depth % 14), " }".repeat(1 + depth % 14)),
    }
}
pub fn n_fixed_deep() -> usize {
    DEEP_FORMS * DEEP_DEPTHS.len()
}

pub fn gen_case(seed: u64, idx: u64, corpus: &Corpus, prefixes: &[(usize, usize)]) -> Case {
    // inputs kept by the coverage-guided generator (c08fuzz.rs) live in an index space of their own
    if idx >= crate::c08fuzz::FUZZ_BASE {
        let l = crate::c08fuzz::listed();
        return match l.get((idx - crate::c08fuzz::FUZZ_BASE) as usize) {
            Some((name, text)) => Case { cat: "coverage-guided", input: text.clone(), origin: name.clone() },
            None => Case { cat: "coverage-guided", input: String::new(), origin: "missing".into() },
        };
    }
    // the exhaustive prefix space comes first
    if (idx as usize) < prefixes.len() {
        let (fi, cut) = prefixes[idx as usize];
        let (name, s) = &corpus.files[fi];
        return Case { cat: "prefix-exhaustive", input: s[..cut].to_string(), origin: format!("{name}[..{cut}]") };
    }
    let k = idx as usize - prefixes.len();
    if k < n_fixed_deep() {
        // fixed, seed-independent: every nesting form at two extreme depths (stack exhaustion is decided here)
        let (form, depth) = (k % DEEP_FORMS, DEEP_DEPTHS[k / DEEP_FORMS]);
        return Case { cat: "deep-nesting", input: format!("M DEFINITIONS ::= BEGIN\n{}\nEND\n", deep_body(form, depth)), origin: format!("form={form} depth={depth}") };
    }
    let mut rng = Rng::for_case(seed, 8, idx);
    match rng.below(21) {
        20 => {
            // a syntax error behind definitions that end in multi-byte characters (string values, comments), the text preceded by
            // a byte order mark / blank lines / a comment: every offset the error carries is used to slice the caller's text
            let lead = *rng.pick(&["\u{feff}", "\u{feff}", "\u{feff}\n", "\n\n", "-- ü\n", "/* 中 */ ", ""]);
            let mut s = format!("{lead}{}", headers(&mut rng));
            let words = ["ß", "é", "幅", "日本語", "𝄞", "€uro", "naïve", "Grüße", "x"];
            for i in 0..1 + rng.below(4) {
                let w: String = (0..1 + rng.below(4)).map(|_| *rng.pick(&words)).collect::<Vec<_>>().join(" ");
                match rng.below(4) {
                    0 => s.push_str(&format!("xq{i} UTF8String ::= \"{w}\"\n")),
                    1 => s.push_str(&format!("Tq{i} ::= SEQUENCE {{ a INTEGER }} -- {w}\n")),
                    2 => s.push_str(&format!("-- {w}\nTq{i} ::= BOOLEAN\n")),
                    _ => s.push_str(&format!("Tq{i} ::= SEQUENCE {{ a INTEGER -- {w}\n}}\n")),
                }
            }
            s.push_str(*rng.pick(&["Bad ::= SEQUENCE { a INTEGER,, }\n", "Bad ::= CHOICE { }\n", "bad INTEGER ::= \n", "Bad ::= SEQUENCE { a ß }\n", "Bad ::= [ INTEGER\n", "Bad ::= ENUMERATED { a( }\n", "§\n"]));
            if rng.chance(1, 2) {
                s.push_str("END\n");
            }
            Case { cat: "error-behind-multibyte-text", input: s, origin: String::new() }
        }
        0 => {
            let n = rng.below(120);
            Case { cat: "char-soup", input: (0..n).map(|_| pick_char(&mut rng)).collect(), origin: String::new() }
        }
        1 => {
            // random bytes, lossily repaired into valid UTF-8
            let n = rng.below(200);
            let bytes: Vec<u8> = (0..n).map(|_| rng.next() as u8).collect();
            Case { cat: "byte-soup", input: String::from_utf8_lossy(&bytes).to_string(), origin: String::new() }
        }
        2 | 3 => {
            let n = 1 + rng.below(60);
            let mut s = if rng.chance(1, 2) { headers(&mut rng) } else { String::new() };
            for _ in 0..n {
                s.push_str(*rng.pick(VOCAB));
                s.push(*rng.pick(&[' ', ' ', ' ', '\n', '\t']));
            }
            if rng.chance(1, 2) {
                s.push_str("END");
            }
            Case { cat: "token-soup", input: s, origin: String::new() }
        }
        4 | 5 => {
            let s = snippet_module(&mut rng);
            let cut = rng.below(s.len() + 1);
            let mut c = cut;
            while !s.is_char_boundary(c) {
                c -= 1;
            }
            Case { cat: "prefix-snippets", input: s[..c].to_string(), origin: String::new() }
        }
        6..=10 => {
            let (name, s) = small_file(&mut rng, corpus, 24_000).clone();
            let (_, o) = small_file(&mut rng, corpus, 24_000);
            Case { cat: "token-mutation-corpus", input: mutate_tokens(&mut rng, &s, o), origin: name }
        }
        11 | 12 => {
            let s = snippet_module(&mut rng);
            let o = snippet_module(&mut rng);
            Case { cat: "token-mutation-snippets", input: mutate_tokens(&mut rng, &s, &o), origin: String::new() }
        }
        13 | 14 => Case { cat: "snippets", input: snippet_module(&mut rng), origin: String::new() },
        15 => {
            // random reference graphs: aliases, chains of aliases leading into cycles, parameterless self references through
            // constructed types, each reachable from value assignments, DEFAULTs and constraints
            let k = 2 + rng.below(5);
            let mut s = headers(&mut rng);
            if rng.chance(1, 2) {
                // COMPONENTS OF graphs: 2..6 SEQUENCE / SET types whose member lists mix own members, COMPONENTS OF clauses
                // (of any of the types, itself included), an extension marker at any position, additions and [[ ]] groups -
                // the lexer and the linker each keep their own count of what a member list contains
                for i in 0..k {
                    let n = rng.below(5);
                    let marker = if rng.chance(1, 2) { Some(rng.below(n + 1)) } else { None };
                    let mut members: Vec<String> = vec![];
                    for m in 0..n {
                        if marker == Some(m) {
                            members.push("...".into());
                        }
                        let j = rng.below(k);
                        let after = marker.is_some_and(|x| m >= x);
                        members.push(match rng.below(6) {
                            0 | 1 => format!("COMPONENTS OF G{j}"),
                            2 if after => format!("[[ g{i}x{m} INTEGER ]]"),
                            3 if after => format!("[[ COMPONENTS OF G{j} ]]"),
                            4 => format!("g{i}r{m} G{j} OPTIONAL"),
                            _ => format!("g{i}m{m} {}", *rng.pick(&["INTEGER", "BOOLEAN", "NULL", "OCTET STRING OPTIONAL"])),
                        });
                    }
                    if marker == Some(n) {
                        members.push("...".into());
                    }
                    s.push_str(&format!("G{i} ::= {} {{ {} }}\n", if rng.chance(1, 4) { "SET" } else { "SEQUENCE" }, members.join(", ")));
                }
                s.push_str("END\n");
                return Case { cat: "components-of-graph", input: s, origin: String::new() };
            }
            for i in 0..k {
                let j = rng.below(k);
                let body = match rng.below(7) {
                    0 => "INTEGER".to_string(),
                    1 => format!("SEQUENCE {{ a G{j} OPTIONAL }}"),
                    2 => format!("SEQUENCE OF G{j}"),
                    3 => format!("CHOICE {{ a G{j}, b NULL }}"),
                    4 => format!("G{j} (0..5)"),
                    _ => format!("G{j}"),
                };
                s.push_str(&format!("G{i} ::= {body}\n"));
            }
            for i in 0..1 + rng.below(3) {
                let j = rng.below(k);
                match rng.below(7) {
                    0 => s.push_str(&format!("vg{i} G{j} ::= 1\n")),
                    1 => s.push_str(&format!("Sg{i} ::= SEQUENCE {{ m G{j} DEFAULT 1 }}\n")),
                    2 => s.push_str(&format!("vh{i} G{j} ::= vg0\n")),
                    // the graph reached through a selection type, COMPONENTS OF, a contained subtype
                    3 => s.push_str(&format!("Xg{i} ::= a < G{j}\n")),
                    4 => s.push_str(&format!("Yg{i} ::= SEQUENCE {{ s a < G{j}, COMPONENTS OF G{} }}\n", rng.below(k))),
                    5 => s.push_str(&format!("Zg{i} ::= INTEGER (INCLUDES G{j})\n")),
                    _ => s.push_str(&format!("Cg{i} ::= INTEGER (0..vg{j})\n")),
                }
            }
            // a graph of value references (chains, chains into cycles, self references), governed by built-in types or by
            // types of the graph above, and used from a DEFAULT, a bound, a named number and an actual parameter
            if rng.chance(1, 2) {
                let kv = 1 + rng.below(4);
                for i in 0..kv {
                    let j = rng.below(kv);
                    let ty = match rng.below(5) {
                        0 => "BOOLEAN".to_string(),
                        1 => format!("G{}", rng.below(k)),
                        2 => "OCTET STRING".to_string(),
                        _ => "INTEGER".to_string(),
                    };
                    let val = if rng.chance(1, 5) { "5".to_string() } else { format!("wv{j}") };
                    s.push_str(&format!("wv{i} {ty} ::= {val}\n"));
                }
                for i in 0..rng.below(3) {
                    let j = rng.below(kv);
                    match rng.below(5) {
                        0 => s.push_str(&format!("Uw{i} ::= SEQUENCE {{ x G{} DEFAULT wv{j} }}\n", rng.below(k))),
                        1 => s.push_str(&format!("Uw{i} ::= SEQUENCE {{ x INTEGER DEFAULT wv{j}, y BOOLEAN DEFAULT wv{} }}\n", rng.below(kv))),
                        2 => s.push_str(&format!("Uw{i} ::= INTEGER (wv{j}..wv{})\n", rng.below(kv))),
                        3 => s.push_str(&format!("Uw{i} ::= INTEGER {{ n(wv{j}) }} (0..n)\n")),
                        _ => s.push_str(&format!("Pw{i} {{ INTEGER: p }} ::= INTEGER (0..p)\nUw{i} ::= Pw{i} {{ wv{j} }}\n")),
                    }
                }
            }
            s.push_str("END\n");
            Case { cat: "reference-graph", input: s, origin: String::new() }
        }
        16 => {
            // multi-byte character inserted at a token boundary
            let base = if rng.chance(1, 2) { snippet_module(&mut rng) } else { small_file(&mut rng, corpus, 6_000).1.clone() };
            let lx = tok::tokenize(&base);
            let mut s = base.clone();
            if !lx.toks.is_empty() {
                let t = &lx.toks[rng.below(lx.toks.len())];
                let at = if rng.chance(1, 2) { t.start } else { t.end };
                s.insert(at, *rng.pick(&['ä', '中', '€', '𝄞', '\u{feff}', '\u{a0}']));
            }
            Case { cat: "multibyte-at-boundary", input: s, origin: String::new() }
        }
        17 => {
            // comments / strings left open at EOF, possibly ending in a multi-byte character
            let mut s = if rng.chance(1, 2) { snippet_module(&mut rng) } else { headers(&mut rng) };
            let cut = rng.below(s.len() + 1);
            let mut c = cut;
            while !s.is_char_boundary(c) {
                c -= 1;
            }
            s.truncate(c);
            s.push_str(*rng.pick(&["/*", "/* a", "/* /* */", "--", "-- x", "\"", "\"abc", "'", "'01", "/* é", "/*中", "-- 中", "\"中", "/* */ */", "*/"]));
            if rng.chance(1, 3) {
                s.push(pick_char(&mut rng));
            }
            Case { cat: "open-at-eof", input: s, origin: String::new() }
        }
        19 if rng.chance(1, 2) => {
            // grammar-generated module sets (several modules, imports of types and of values whose governing type is *not*
            // imported, recursion, nesting): the linker's cross-module bookkeeping
            let set = if rng.chance(1, 3) {
                crate::gen::assoc_import_set(&mut rng)
            } else {
                crate::gen::random_set(seed, 808, idx, &crate::gen::GenOpts { modules: (2, 4), assigns: (1, 6), max_depth: 2, max_comps: 4, structured_values: true, qualified_refs: true, ..crate::gen::GenOpts::default() })
            };
            Case { cat: "generated-module-set", input: set.render().text, origin: String::new() }
        }
        18 => {
            // moderately deep nesting (the extreme depths are the fixed `deep-nesting` cases below the random range)
            let depth = 1 + rng.below(200);
            let form = rng.below(DEEP_FORMS);
            Case { cat: "nesting", input: format!("{}{}\nEND\n", headers(&mut rng), deep_body(form, depth)), origin: format!("form={form} depth={depth}") }
        }
        _ => {
            let (name, s) = small_file(&mut rng, corpus, 60_000).clone();
            // random cut (prefix of a real-world module)
            let cut = rng.below(s.len() + 1);
            let mut c = cut;
            while !s.is_char_boundary(c) {
                c -= 1;
            }
            Case { cat: "prefix-corpus", input: s[..c].to_string(), origin: format!("{name}[..{c}]") }
        }
    }
}

/// Runs the property's operations on one input. Any panic propagates to the caller.
fn exercise(input: &str) -> (String, usize) {
    let mut summary = String::new();
    let mut rendered = 0usize;
    // information object classes take other generator paths when open types are not opaque and From impls are requested
    let n_backends = if input.contains("CLASS") || input.contains("CHOICE") { 3 } else { 2 };
    for backend in 0..n_backends {
        let r = if backend == 0 {
            Compiler::<RasnBackend, _>::new().add_asn_literal(input).compile_to_string()
        } else if backend == 1 {
            Compiler::<TypescriptBackend, _>::new().add_asn_literal(input).compile_to_string()
        } else {
            let mut c = RasnConfig::default();
            c.opaque_open_types = false;
            c.generate_from_impls = true;
            c.no_std_compliant_bindings = true;
            Compiler::<RasnBackend, _>::new_with_config(c).add_asn_literal(input).compile_to_string()
        };
        match r {
            Ok(res) => {
                summary.push_str(if res.warnings.is_empty() { "Ok " } else { "OkW " });
                for w in &res.warnings {
                    let d = w.to_string();
                    let c = w.contextualize(input);
                    rendered += d.len() + c.len();
                }
            }
            Err(e) => {
                let kind = match &e {
                    CompilerError::Lexer(_) => "ErrLexer ",
                    CompilerError::Grammar(_) => "ErrGrammar ",
                    CompilerError::Linker(_) => "ErrLinker ",
                    CompilerError::Generator(_) => "ErrGenerator ",
                };
                summary.push_str(kind);
                let d = e.to_string();
                let c = e.contextualize(input);
                rendered += d.len() + c.len();
            }
        }
    }
    (summary, rendered)
}

static CURRENT: AtomicU64 = AtomicU64::new(u64::MAX);
static CURRENT_STARTED_MS: AtomicU64 = AtomicU64::new(0);

/// `vcheck C08-worker <seed> <start> <end> <nfiles_prefix>`: prints CALL/RET lines; the driver watches the process.
pub fn worker(args: &[String]) -> ! {
    let seed: u64 = args[0].parse().unwrap();
    let start: u64 = args[1].parse().unwrap();
    let end: u64 = args[2].parse().unwrap();
    let nfiles: usize = args[3].parse().unwrap();
    let corpus = load_corpus();
    let prefixes = prefix_space(&corpus, nfiles);
    let t0 = std::time::Instant::now();
    // watchdog thread: wall-clock only triggers the *question*; the verdict is taken on logical steps
    std::thread::spawn(move || loop {
        std::thread::sleep(std::time::Duration::from_millis(500));
        let cur = CURRENT.load(Ordering::SeqCst);
        if cur == u64::MAX {
            continue;
        }
        let started = CURRENT_STARTED_MS.load(Ordering::SeqCst);
        let now = t0.elapsed().as_millis() as u64;
        if now.saturating_sub(started) > 10_000 {
            let t1 = vh::TICKS.load(Ordering::Relaxed);
            std::thread::sleep(std::time::Duration::from_millis(1000));
            let t2 = vh::TICKS.load(Ordering::Relaxed);
            println!("HANG {cur} ticks={t1} ticks_after_1s={t2} depth={} max_depth={}", vh::DEPTH.load(Ordering::Relaxed), vh::MAX_DEPTH.load(Ordering::Relaxed));
            let _ = std::io::stdout().flush();
            // sampling window: the driver takes stack samples of this process before it goes away; if the case returns in the
            // meantime the answer is simply "slow" (the main thread moves on to the next case, this thread ends the process)
            for _ in 0..16 {
                std::thread::sleep(std::time::Duration::from_millis(500));
                if CURRENT.load(Ordering::SeqCst) != cur {
                    println!("HANG-RETURNED {cur}");
                    let _ = std::io::stdout().flush();
                    break;
                }
            }
            std::process::exit(99);
        }
    });
    let out = std::io::stdout();
    // the main thread of the worker has the platform's default 8 MiB stack, like a build script
    for idx in start..end {
        let case = gen_case(seed, idx, &corpus, &prefixes);
        {
            let mut o = out.lock();
            let _ = writeln!(o, "CALL {idx} {} {}", case.cat, case.input.len());
            let _ = o.flush();
        }
        vh::reset_counters();
        CURRENT_STARTED_MS.store(t0.elapsed().as_millis() as u64, Ordering::SeqCst);
        CURRENT.store(idx, Ordering::SeqCst);
        let _ = crate::comp::take_panic();
        let r = std::panic::catch_unwind(|| exercise(&case.input));
        CURRENT.store(u64::MAX, Ordering::SeqCst);
        let _ = vh::drain();
        let ticks = vh::TICKS.load(Ordering::Relaxed);
        let maxd = vh::MAX_DEPTH.load(Ordering::Relaxed);
        let mut o = out.lock();
        match r {
            Ok((summary, rendered)) => {
                let _ = writeln!(o, "RET {idx} ok ticks={ticks} depth={maxd} rendered={rendered} {summary}");
            }
            Err(_) => {
                let p = crate::comp::take_panic().unwrap_or_default();
                let _ = writeln!(o, "RET {idx} panic ticks={ticks} depth={maxd} {}", one_line(&p, 300));
            }
        }
    }
    let _ = out.lock().flush();
    std::process::exit(0);
}

/// `vcheck C08-one <file>`: exercises one input; exit 0 = returned (or ordinary panic), signal = abort.
pub fn one(args: &[String]) -> ! {
    let input = std::fs::read_to_string(&args[0]).unwrap_or_default();
    let _ = std::panic::catch_unwind(|| exercise(&input));
    std::process::exit(0);
}

fn aborts(input: &str, tag: u64) -> bool {
    use std::os::unix::process::ExitStatusExt;
    let exe = std::env::current_exe().expect("current_exe");
    let path = std::env::temp_dir().join(format!("vcheck-c08-{}-{tag}.asn", std::process::id()));
    if std::fs::write(&path, input).is_err() {
        return false;
    }
    let st = Command::new(&exe).args(["C08-one", path.to_str().unwrap()]).stdin(Stdio::null()).stdout(Stdio::null()).stderr(Stdio::null()).status();
    let _ = std::fs::remove_file(&path);
    matches!(st, Ok(s) if s.signal().is_some())
}

/// Greedy line-level minimisation of an aborting input (deterministic); returns the minimal text.
fn minimise_abort(input: &str, tag: u64) -> String {
    let mut lines: Vec<&str> = input.lines().collect();
    if lines.len() > 40 {
        return input.to_string();
    }
    let mut i = 0;
    while i < lines.len() {
        if lines.len() == 1 {
            break;
        }
        let mut cand = lines.clone();
        cand.remove(i);
        // never drop the module header (line 0)
        if i > 0 && aborts(&cand.join("\n"), tag) {
            lines = cand;
        } else {
            i += 1;
        }
    }
    lines.join("\n")
}

fn abort_key(case: &Case, tag: u64) -> String {
    match case.cat {
        // line-structured compositions of library snippets: the minimal aborting snippet set names the defect
        "snippets" => {
            let m = minimise_abort(&case.input, tag);
            let mut body: Vec<&str> = m.lines().skip(1).filter(|l| l.trim() != "END" && !l.contains("DEFINITIONS")).collect();
            body.sort();
            one_line(&body.join(" ; "), 160)
        }
        "deep-nesting" => format!("deep-nesting:{}", case.origin),
        other => other.to_string(),
    }
}

/// Four gdb stack samples of the worker's main thread, 1.5 s apart. Returns the innermost compiler function if the chain of
/// compiler frames (function names, outermost to innermost `rasn_compiler::` frame) is identical in all samples.
fn stack_spin(pid: u32) -> Option<String> {
    let mut chains: Vec<Vec<String>> = vec![];
    for k in 0..4 {
        if k > 0 {
            std::thread::sleep(std::time::Duration::from_millis(1500));
        }
        let out = Command::new("gdb").args(["-p", &pid.to_string(), "-batch", "-nx", "-ex", "thread 1", "-ex", "bt 200"]).stdin(Stdio::null()).stdout(Stdio::piped()).stderr(Stdio::null()).output().ok()?;
        let text = String::from_utf8_lossy(&out.stdout);
        // frames `#N  [0x.. in] function (args) at file:line`, innermost first
        let mut frames: Vec<String> = vec![];
        for l in text.lines().filter(|l| l.starts_with('#')) {
            let rest = l.splitn(2, char::is_whitespace).nth(1).unwrap_or("").trim();
            let rest = rest.split_once(" in ").map(|x| x.1).unwrap_or(rest);
            let f = rest.split(" (").next().unwrap_or("").trim().to_string();
            frames.push(f);
        }
        let first = frames.iter().position(|f| f.starts_with("rasn_compiler::"))?;
        let mut chain: Vec<String> = frames[first..].iter().filter(|f| f.starts_with("rasn_compiler::")).cloned().collect();
        chain.reverse();
        chains.push(chain);
    }
    let c0 = chains.first()?;
    if c0.is_empty() || chains.iter().any(|c| c != c0) {
        return None;
    }
    c0.last().map(|f| f.trim_start_matches("rasn_compiler::").to_string())
}

#[derive(Default)]
struct ShardResult {
    rep: Report,
}

fn run_shard(seed: u64, mut start: u64, end: u64, nfiles: usize, corpus: &Corpus, prefixes: &[(usize, usize)]) -> ShardResult {
    let exe = std::env::current_exe().expect("current_exe");
    let mut res = ShardResult::default();
    let rep = &mut res.rep;
    while start < end {
        let mut child = Command::new(&exe)
            .args(["C08-worker", &seed.to_string(), &start.to_string(), &end.to_string(), &nfiles.to_string()])
            .stdin(Stdio::null())
            .stdout(Stdio::piped())
            .stderr(Stdio::null())
            .spawn()
            .expect("spawn worker");
        let stdout = child.stdout.take().unwrap();
        let mut open: Option<u64> = None; // call event without return event
        let mut hang_line: Option<String> = None;
        let mut spin: Option<String> = None;
        let mut returned_late = false;
        for line in BufReader::new(stdout).lines() {
            let Ok(line) = line else { break };
            let mut it = line.splitn(4, ' ');
            match it.next() {
                Some("CALL") => {
                    open = it.next().and_then(|x| x.parse().ok());
                }
                Some("RET") => {
                    let idx: u64 = it.next().and_then(|x| x.parse().ok()).unwrap_or(0);
                    let kind = it.next().unwrap_or("");
                    let rest = it.next().unwrap_or("");
                    open = None;
                    rep.evaluations += 1;
                    let case = gen_case(seed, idx, corpus, prefixes);
                    rep.count(&format!("cases[{}]", case.cat), 1);
                    let ticks: u64 = rest.split_whitespace().find_map(|w| w.strip_prefix("ticks=")).and_then(|x| x.parse().ok()).unwrap_or(0);
                    let depth: u64 = rest.split_whitespace().find_map(|w| w.strip_prefix("depth=")).and_then(|x| x.parse().ok()).unwrap_or(0);
                    let e = rep.counters.entry("max_linker_ticks_per_case".into()).or_insert(0);
                    *e = (*e).max(ticks);
                    let e = rep.counters.entry("max_linker_recursion_depth".into()).or_insert(0);
                    *e = (*e).max(depth);
                    if kind == "ok" {
                        let outcome: Vec<&str> = rest.split_whitespace().skip(3).collect();
                        rep.note("outcome_pairs(rasn,ts)", outcome.join(","));
                        if outcome.iter().any(|o| o.starts_with("Err") || *o == "OkW") {
                            rep.count("cases_with_error_or_warning_rendered", 1);
                        }
                        rep.nontrivial.insert(hash_str(&case.input));
                        if rep.samples.len() < 5 && idx % 3001 == 7 {
                            rep.sample(json!({"idx": idx, "category": case.cat, "origin": case.origin, "input_head": one_line(&case.input, 160), "observed": rest}));
                        }
                    } else {
                        let p = rest.splitn(3, ' ').nth(2).unwrap_or("");
                        let tmpl = crate::comp::panic_template(p);
                        rep.note("panic_sites", tmpl.clone());
                        rep.nontrivial.insert(hash_str(&case.input));
                        rep.violations.push(Violation {
                            sig: format!("c08|panic|{tmpl}"),
                            what: format!("panic `{}` on {} input ({} bytes) {}", one_line(p, 200), case.cat, case.input.len(), case.origin),
                            replay: json!({"seed": seed, "idx": idx, "nfiles_prefix": nfiles, "category": case.cat, "origin": case.origin, "input": case.input, "panic": p}),
                        });
                    }
                }
                Some("HANG") => {
                    hang_line = Some(line.clone());
                    // stack samples of the stuck worker (gdb, batch mode): a call chain inside the compiler that is the same in every
                    // sample means the main thread neither calls nor returns - it spins inside one function
                    spin = stack_spin(child.id());
                }
                Some("HANG-RETURNED") => returned_late = true,
                _ => {}
            }
        }
        let status = child.wait().expect("wait worker");
        if let Some(idx) = open {
            // worker died (or was stopped by its watchdog) inside case idx
            rep.evaluations += 1;
            let case = gen_case(seed, idx, corpus, prefixes);
            rep.count(&format!("cases[{}]", case.cat), 1);
            use std::os::unix::process::ExitStatusExt;
            if let Some(sig) = status.signal() {
                rep.note("abort_signals", sig.to_string());
                let key = abort_key(&case, idx);
                rep.note("abort_keys", key.clone());
                rep.violations.push(Violation {
                    sig: format!("c08|abort|signal-{sig}|{key}"),
                    what: format!("worker killed by signal {sig} (stack exhaustion / abort) on {} input ({} bytes) {}", case.cat, case.input.len(), case.origin),
                    replay: json!({"seed": seed, "idx": idx, "nfiles_prefix": nfiles, "category": case.cat, "origin": case.origin, "input": one_line(&case.input, 4000)}),
                });
            } else if status.code() == Some(99) {
                let h = hang_line.clone().unwrap_or_default();
                let t1: u64 = h.split_whitespace().find_map(|w| w.strip_prefix("ticks=")).and_then(|x| x.parse().ok()).unwrap_or(0);
                let t2: u64 = h.split_whitespace().find_map(|w| w.strip_prefix("ticks_after_1s=")).and_then(|x| x.parse().ok()).unwrap_or(0);
                let ntok = tok::tokenize(&case.input).toks.len() as u64;
                let budget = 64 * (ntok + 1) * (ntok + 1);
                if t2 > budget && t2 > t1 {
                    rep.violations.push(Violation {
                        sig: format!("c08|step-budget|{}", case.cat),
                        what: format!("no return after 10 s and linker steps {t2} (> budget {budget}, still increasing) on {} input {}", case.cat, case.origin),
                        replay: json!({"seed": seed, "idx": idx, "nfiles_prefix": nfiles, "category": case.cat, "input": one_line(&case.input, 4000), "hang": h}),
                    });
                } else if let (Some(f), false) = (&spin, returned_late) {
                    rep.violations.push(Violation {
                        sig: format!("c08|hang|spinning-in|{f}"),
                        what: format!("no return after 10 s on {} input ({} bytes) {}: four stack samples 1.5 s apart show the same call chain inside the compiler, innermost `{f}` - the main thread spins in that function", case.cat, case.input.len(), case.origin),
                        replay: json!({"seed": seed, "idx": idx, "nfiles_prefix": nfiles, "category": case.cat, "input": one_line(&case.input, 4000), "hang": h, "spinning_in": f}),
                    });
                } else {
                    rep.inconclusive.push(format!("watchdog fired without step-budget excess: idx={idx} {} {h}", case.cat));
                }
            } else {
                rep.inconclusive.push(format!("worker exited with {status:?} inside case {idx}"));
            }
            start = idx + 1;
        } else {
            if !status.success() {
                rep.inconclusive.push(format!("worker exited with {status:?} outside any case"));
            }
            break;
        }
    }
    res
}

pub fn run(ctx: &Ctx) -> Report {
    let mut rep = Report::new(
        "exploration",
        "inputs: (a) EXHAUSTIVE every char-boundary prefix of the N smallest corpus modules (N=50 quick, 120 thorough); (b) seeded random: character soup, byte soup (lossy UTF-8), ASN.1 token soup, prefixes of snippet modules and corpus modules, 1-3 token-level mutations (delete/insert/replace/duplicate/swap/splice/delete-run) of the 892 corpus modules (<=24 kB) and of snippet modules, modules composed from a 120-entry library of exotic notation (MACRO, CLASS/objects/sets, TIME, REAL, selection, parameterization, cyclic type/value/object-set references, COMPONENTS OF, unsupported constraints), multi-byte characters at token boundaries, syntax errors behind definitions that end in multi-byte text (with and without a leading byte order mark), comments/strings left open at EOF, nesting to depth 10^4, random graphs of type references and of value references (chains into cycles, self references, used from DEFAULTs, bounds, named numbers, actual parameters); (c) COVERAGE-GUIDED: libFuzzer (cargo-fuzz, sanitizer-coverage build of the compiler from the working tree, 16 forked jobs, ASN.1 dictionary, inputs <= 1 KiB, seeded with the small corpus modules and 200 snippet modules) explores for 40 s (quick) / 900 s (thorough); every input it keeps (one per new coverage feature) and every crash / timeout / oom artifact is then a case of category `coverage-guided` for the same worker (the fuzzer only generates; the worker observes). Each case: compile_to_string with both backends, Display and contextualize of the error and of every warning, in a worker process with an 8 MiB main-thread stack. Non-trivial = case returned or died with a classified observation; distinct by input hash.",
    );
    rep.must_observe = vec!["cases_with_error_or_warning_rendered".into()];
    rep.assumptions = vec![
        "hang is decided on H3 linker steps (budget 64*(tokens+1)^2) sampled by an in-worker watchdog after 10 s, or on four gdb stack samples of the stuck worker taken 1.5 s apart: the same chain of compiler frames in every sample = the main thread spins inside one function; a watchdog firing with neither is inconclusive (slow, e.g. exponential backtracking, whose call chain keeps changing)".into(),
        "opt-level 1 with debug assertions and overflow checks (the profile build scripts / proc macros get)".into(),
        "coverage-guided inputs are not reproducible from the seed alone (libFuzzer's fork mode is timing dependent); a violating input is copied to /verif/replay/C08/inputs and replayed from there".into(),
    ];
    let corpus = load_corpus();
    if corpus.files.is_empty() {
        rep.inconclusive.push("corpus not found".into());
    }
    if let Some(path) = &ctx.replay {
        let doc: serde_json::Value = serde_json::from_str(&std::fs::read_to_string(path).expect("replay")).expect("json");
        let c = &doc["case"];
        let seed = c["seed"].as_u64().unwrap();
        let idx = c["idx"].as_u64().unwrap();
        let nfiles = c["nfiles_prefix"].as_u64().unwrap() as usize;
        let prefixes = prefix_space(&corpus, nfiles);
        if idx >= crate::c08fuzz::FUZZ_BASE {
            // a coverage-guided case is replayed from the copy of its input kept next to the replay file
            let list = std::env::temp_dir().join(format!("vcheck-c08-replay-{}.list", std::process::id()));
            let _ = std::fs::write(&list, format!("{}\n", c["input_file"].as_str().unwrap_or("")));
            std::env::set_var("VERIF_C08_FUZZLIST", &list);
            let r = run_shard(seed, crate::c08fuzz::FUZZ_BASE, crate::c08fuzz::FUZZ_BASE + 1, nfiles, &corpus, &prefixes);
            let _ = std::fs::remove_file(&list);
            rep.merge(r.rep);
            return rep;
        }
        let r = run_shard(seed, idx, idx + 1, nfiles, &corpus, &prefixes);
        rep.merge(r.rep);
        return rep;
    }
    let nfiles = ctx.pick(50usize, 120);
    let prefixes = prefix_space(&corpus, nfiles);
    let nrand = std::env::var("VERIF_C08_N").ok().and_then(|s| s.parse().ok()).unwrap_or(ctx.pick(60_000u64, 2_000_000));
    let total = prefixes.len() as u64 + n_fixed_deep() as u64 + nrand;
    rep.extra.insert("exhaustive_prefix_cases".into(), json!(prefixes.len()));
    rep.extra.insert("random_cases".into(), json!(nrand));
    // coverage-guided generator: libFuzzer explores for a while, the worker then observes everything it kept
    let fuzz_secs: u64 = std::env::var("VERIF_C08_FUZZ_SECS").ok().and_then(|s| s.parse().ok()).unwrap_or(ctx.pick(40, 900));
    let mut fuzz_cases = 0u64;
    if fuzz_secs > 0 {
        match crate::c08fuzz::build() {
            Ok(bin) => {
                let seeds_corpus: Vec<(String, String)> = corpus.files.iter().filter(|f| f.1.len() <= crate::c08fuzz::MAX_LEN).take(120).cloned().collect();
                let mut rng = Rng::for_case(ctx.seed, 0xF022, 0);
                let seeds: Vec<String> = (0..200).map(|_| snippet_module(&mut rng)).collect();
                if let Some(ex) = crate::c08fuzz::explore(&mut rep, &bin, ctx.seed, fuzz_secs, 16, &seeds_corpus, &seeds) {
                    std::env::set_var("VERIF_C08_FUZZLIST", &ex.list);
                    fuzz_cases = ex.n_files;
                }
            }
            Err(e) => rep.inconclusive.push(format!("coverage-guided generator not available: {e}")),
        }
    }
    let shard = ctx.pick(2_000u64, 10_000);
    let nshards = total.div_ceil(shard);
    let fuzz_shards = fuzz_cases.div_ceil(500);
    let acc = Acc::new(rep);
    let seed = ctx.seed;
    par_for(nshards + fuzz_shards, |s| {
        let (a, b) = if s < nshards {
            (s * shard, ((s + 1) * shard).min(total))
        } else {
            let k = s - nshards;
            (crate::c08fuzz::FUZZ_BASE + k * 500, crate::c08fuzz::FUZZ_BASE + ((k + 1) * 500).min(fuzz_cases))
        };
        let mut r = run_shard(seed, a, b, nfiles, &corpus, &prefixes);
        for v in r.rep.violations.iter_mut() {
            if let Some(idx) = v.replay["idx"].as_u64().filter(|i| *i >= crate::c08fuzz::FUZZ_BASE) {
                if let Some((_, text)) = crate::c08fuzz::listed().get((idx - crate::c08fuzz::FUZZ_BASE) as usize) {
                    v.replay["input_file"] = json!(crate::c08fuzz::keep_for_replay(text));
                }
            }
        }
        acc.with(|rp| {
            // max-type counters must be merged with max, not sum
            let (mt, md) = (
                r.rep.counters.get("max_linker_ticks_per_case").copied().unwrap_or(0),
                r.rep.counters.get("max_linker_recursion_depth").copied().unwrap_or(0),
            );
            let (pt, pd) = (
                rp.counters.get("max_linker_ticks_per_case").copied().unwrap_or(0),
                rp.counters.get("max_linker_recursion_depth").copied().unwrap_or(0),
            );
            rp.merge(r.rep);
            rp.counters.insert("max_linker_ticks_per_case".into(), mt.max(pt));
            rp.counters.insert("max_linker_recursion_depth".into(), md.max(pd));
        });
    });
    acc.into_inner()
}
