//! C09 — notations defined by expansion compile like their hand-expanded form (metamorphic pairs).
use crate::c10::items_of;
use crate::comp;
use crate::core::*;
use crate::proj;
use serde_json::json;

struct Pair {
    family: &'static str,
    /// finer class for the signature (position, parameter count, ...)
    class: String,
    /// helper definitions present in BOTH modules (`@H` is replaced by the helper name prefix)
    helpers: String,
    sugared: String,
    expanded: String,
}

const LEAVES: [&str; 6] = ["BOOLEAN", "INTEGER", "NULL", "OCTET STRING", "IA5String", "INTEGER (0..7)"];

fn comp_list(rng: &mut Rng, prefix: &str, n: usize, allow_opt: bool) -> Vec<String> {
    (0..n)
        .map(|i| {
            let ty = *rng.pick(&LEAVES);
            let opt = if allow_opt && rng.chance(1, 3) { " OPTIONAL" } else { "" };
            format!("{prefix}q{i} {ty}{opt}")
        })
        .collect()
}

fn gen_pair(rng: &mut Rng) -> Pair {
    if rng.chance(1, 13) {
        // ---- COMPONENTS OF a type of another module whose tagging default differs: the tags keep the meaning they have
        // where they are written (X.680 31.2.7 applies to the module that contains the TaggedType notation).
        // `helpers` holds the whole exporting module here (marker `@@MODULE`).
        let a = *rng.pick(&["IMPLICIT", "EXPLICIT"]);
        let b = *rng.pick(&["IMPLICIT", "EXPLICIT"]);
        let n = 1 + rng.below(3);
        let leaves = ["INTEGER", "BOOLEAN", "OCTET STRING"];
        let hcomps: Vec<(String, String)> = (0..n).map(|i| (format!("hq{i} [{}]", i * 2), format!("{}{}", leaves[i % 3], if i == 1 { " OPTIONAL" } else { "" }))).collect();
        let helpers = format!("@@MODULE Mq2 DEFINITIONS {a} TAGS ::= BEGIN\n@HTs ::= SEQUENCE {{ {} }}\nEND\n", hcomps.iter().map(|(h, t)| format!("{h} {t}")).collect::<Vec<_>>().join(", "));
        let own = "fq1 [20] NULL";
        return Pair {
            family: "components-of-across-modules",
            class: format!("defining={a},including={b}"),
            helpers,
            sugared: format!("@@HEADER {b} IMPORTS @HTs FROM Mq2;\nTq1 ::= SEQUENCE {{ {own}, COMPONENTS OF @HTs }}\n"),
            expanded: format!("@@HEADER {b} IMPORTS @HTs FROM Mq2;\nTq1 ::= SEQUENCE {{ {own}, {} }}\n", hcomps.iter().map(|(h, t)| format!("{h} {a} {t}")).collect::<Vec<_>>().join(", ")),
        };
    }
    if rng.chance(1, 9) {
        // ---- pieces that reach the target definition only through the expansion and still need linking of their own: a
        // value reference in a constraint, or an instantiation of a parameterized type, inside the copied component /
        // selected alternative / class field. The target itself contains no reference of that kind.
        let v = *rng.pick(&[9i64, 200, 70000]);
        let lv = format!("@Lv0 INTEGER ::= {v}\n");
        return match rng.below(18) {
            // ---- shapes reported by independent readers of the property (eighth round)
            10 => {
                let of = *rng.pick(&["SET OF", "SEQUENCE OF"]);
                Pair {
                    family: "components-of",
                    class: format!("SEQUENCE,position=last,user-is-the-element-of-a-{}", of.replace(' ', "-")),
                    helpers: "@HTs ::= SEQUENCE { hq0 INTEGER, hq1 BOOLEAN }\n".into(),
                    sugared: format!("Tq1 ::= {of} SEQUENCE {{ fq0 NULL, COMPONENTS OF @HTs }}\n"),
                    expanded: format!("Tq1 ::= {of} SEQUENCE {{ fq0 NULL, hq0 INTEGER, hq1 BOOLEAN }}\n"),
                }
            }
            11 => Pair {
                family: "components-of",
                class: "SEQUENCE,position=last,referenced-through-a-type-reference".into(),
                helpers: "@HTs ::= SEQUENCE { hq0 INTEGER, hq1 BOOLEAN }\n@HTa ::= @HTs\n".into(),
                sugared: "Tq1 ::= SEQUENCE { fq0 NULL, COMPONENTS OF @HTa }\n".into(),
                expanded: "Tq1 ::= SEQUENCE { fq0 NULL, hq0 INTEGER, hq1 BOOLEAN }\n".into(),
            },
            12 => Pair {
                family: "parameterized-type",
                class: "params=1,instantiations=2,template-contains-components-of".into(),
                helpers: "@HTs ::= SEQUENCE { hq0 INTEGER }\n@HTp {T} ::= SEQUENCE { aq1 T, COMPONENTS OF @HTs }\n".into(),
                sugared: "Tq1 ::= @HTp {BOOLEAN}\nTq2 ::= @HTp {NULL}\n".into(),
                expanded: "Tq1 ::= SEQUENCE { aq1 BOOLEAN, hq0 INTEGER }\nTq2 ::= SEQUENCE { aq1 NULL, hq0 INTEGER }\n".into(),
            },
            13 => Pair {
                family: "parameterized-type",
                class: "params=2,instantiations=1,constraint-on-the-dummy-type-uses-the-dummy-value".into(),
                helpers: "@HTp {T, INTEGER: lo} ::= SEQUENCE { aq1 T (SIZE (1..lo)) }\n".into(),
                sugared: "Tq1 ::= @HTp {OCTET STRING, 3}\n".into(),
                expanded: "Tq1 ::= SEQUENCE { aq1 OCTET STRING (SIZE (1..3)) }\n".into(),
            },
            14 => Pair {
                family: "parameterized-type",
                class: "params=1,instantiations=1,constraint-on-a-type-reference-uses-the-dummy-value".into(),
                helpers: "@HTo ::= INTEGER (0..7)\n@HTp {INTEGER: lo} ::= SEQUENCE { aq1 @HTo (lo..7) }\n".into(),
                sugared: "Tq1 ::= @HTp {3}\n".into(),
                expanded: "Tq1 ::= SEQUENCE { aq1 @HTo (3..7) }\n".into(),
            },
            15 => Pair {
                family: "parameterized-type",
                class: "params=1,instantiations=1,template-refers-to-an-ordinary-type".into(),
                helpers: "@HTo ::= INTEGER (0..7)\n@HTp {T} ::= SEQUENCE { aq1 T, aq2 @HTo }\n".into(),
                sugared: "Tq1 ::= @HTp {BOOLEAN}\n".into(),
                expanded: "Tq1 ::= SEQUENCE { aq1 BOOLEAN, aq2 @HTo }\n".into(),
            },
            16 => Pair {
                family: "selection-type",
                class: "assignment,selected-alternative-is-a-fixed-type-class-field".into(),
                helpers: "@HCLS ::= CLASS { &id INTEGER (0..255) UNIQUE, &Type }\n@HTc ::= CHOICE { sq0 @HCLS.&id, sq1 NULL }\n".into(),
                sugared: "Tq1 ::= sq0 < @HTc\n".into(),
                expanded: "Tq1 ::= INTEGER (0..255)\n".into(),
            },
            17 => Pair {
                family: "parameterized-type",
                class: "params=1,instantiations=1,dummy-value-as-DEFAULT".into(),
                helpers: "@HTp {INTEGER: lo} ::= SEQUENCE { aq1 INTEGER DEFAULT lo, aq2 BOOLEAN }\n".into(),
                sugared: "Tq1 ::= @HTp {3}\n".into(),
                expanded: "Tq1 ::= SEQUENCE { aq1 INTEGER DEFAULT 3, aq2 BOOLEAN }\n".into(),
            },
            9 => {
                // the referenced type is recursive in itself (its member needs a Box *there*); the including type is not on that
                // cycle, its copy of the member is an ordinary reference
                let (hs, he) = *rng.pick(&[("SEQUENCE { hq0 INTEGER, next @HTs OPTIONAL }", "hq0 INTEGER, next @HTs OPTIONAL"), ("SEQUENCE { hq0 BOOLEAN, alt CHOICE { deeper @HTs, leaf NULL } }", "hq0 BOOLEAN, alt CHOICE { deeper @HTs, leaf NULL }")]);
                Pair {
                    family: "components-of",
                    class: "SEQUENCE,position=last,referenced-type-is-recursive".into(),
                    helpers: format!("@HTs ::= {hs}\n"),
                    sugared: "Tq1 ::= SEQUENCE { fq0 NULL, COMPONENTS OF @HTs }\n".into(),
                    expanded: format!("Tq1 ::= SEQUENCE {{ fq0 NULL, {he} }}\n"),
                }
            }
            8 => {
                // two instantiations whose type arguments are the same built-in type under different constraints (and equal
                // value arguments): each instance gets its own argument
                let (c1, c2) = *rng.pick(&[("(0..255)", "(0..7)"), ("(-5..5)", "(0..70000)"), ("(SIZE (1..4))", "(SIZE (2))")]);
                let base = if c1.contains("SIZE") { "OCTET STRING" } else { "INTEGER" };
                Pair {
                    family: "parameterized-type",
                    class: "params=2,instantiations=2,same-builtin-argument-different-constraints".into(),
                    helpers: "@HTp {T, INTEGER: n} ::= SEQUENCE { aq1 T, aq2 INTEGER (0..n) }\n".into(),
                    sugared: format!("Tq1 ::= @HTp {{{base} {c1}, 4}}\nTq2 ::= @HTp {{{base} {c2}, 4}}\nTq3 ::= SEQUENCE {{ fq1 @HTp {{{base} {c2}, 4}}, fq2 @HTp {{{base} {c1}, 4}} }}\n"),
                    expanded: format!("Tq1 ::= SEQUENCE {{ aq1 {base} {c1}, aq2 INTEGER (0..4) }}\nTq2 ::= SEQUENCE {{ aq1 {base} {c2}, aq2 INTEGER (0..4) }}\nTq3 ::= SEQUENCE {{ fq1 SEQUENCE {{ aq1 {base} {c2}, aq2 INTEGER (0..4) }}, fq2 SEQUENCE {{ aq1 {base} {c1}, aq2 INTEGER (0..4) }} }}\n"),
                }
            }
            5 => Pair {
                // two anonymous nested types that both use COMPONENTS OF (last position, where a single level works)
                family: "components-of",
                class: "SEQUENCE,position=last,two-nested-anonymous-users".into(),
                helpers: "@HTs ::= SEQUENCE { hq0 INTEGER, hq1 BOOLEAN }\n".into(),
                sugared: "Tq1 ::= SEQUENCE { fq0 SEQUENCE { gq0 NULL, COMPONENTS OF @HTs }, fq1 SEQUENCE { gq1 NULL, COMPONENTS OF @HTs } }\n".into(),
                expanded: "Tq1 ::= SEQUENCE { fq0 SEQUENCE { gq0 NULL, hq0 INTEGER, hq1 BOOLEAN }, fq1 SEQUENCE { gq1 NULL, hq0 INTEGER, hq1 BOOLEAN } }\n".into(),
            },
            6 => {
                // the CHOICE is reached through 1..2 type references
                let depth = 1 + rng.below(2);
                let mut helpers = "@HTc ::= CHOICE { sq0 INTEGER (0..5), sq1 IA5String }\n".to_string();
                let mut last = "@HTc".to_string();
                for d in 0..depth {
                    helpers.push_str(&format!("@HTr{d} ::= {last}\n"));
                    last = format!("@HTr{d}");
                }
                Pair { family: "selection-type", class: format!("assignment,choice-through-{depth}-type-references"), helpers, sugared: format!("Tq1 ::= sq1 < {last}\n"), expanded: "Tq1 ::= IA5String\n".into() }
            }
            7 => Pair {
                // the template's own tag belongs to every instance
                family: "parameterized-type",
                class: "params=1,instantiations=1,tagged-template".into(),
                helpers: "@HTp {T} ::= [7] SEQUENCE { aq1 T, aq2 BOOLEAN OPTIONAL }\n".into(),
                sugared: "Tq1 ::= @HTp {INTEGER}\n".into(),
                expanded: "Tq1 ::= [7] SEQUENCE { aq1 INTEGER, aq2 BOOLEAN OPTIONAL }\n".into(),
            },
            0 => Pair {
                family: "components-of",
                class: "SEQUENCE,position=last,copied-component-has-value-reference".into(),
                helpers: format!("{lv}@HTs ::= SEQUENCE {{ hq0 INTEGER (0..@Lv0), hq1 BOOLEAN }}\n"),
                sugared: "Tq1 ::= SEQUENCE { fq0 NULL, COMPONENTS OF @HTs }\n".into(),
                expanded: format!("Tq1 ::= SEQUENCE {{ fq0 NULL, hq0 INTEGER (0..{v}), hq1 BOOLEAN }}\n"),
            },
            1 => Pair {
                family: "selection-type",
                class: "assignment,selected-alternative-has-value-reference".into(),
                helpers: format!("{lv}@HTc ::= CHOICE {{ sq0 INTEGER (0..@Lv0), sq1 NULL }}\n"),
                sugared: "Tq1 ::= sq0 < @HTc\n".into(),
                expanded: format!("Tq1 ::= INTEGER (0..{v})\n"),
            },
            2 => Pair {
                family: "class-field-type",
                class: "SEQUENCE,field-type-has-value-reference".into(),
                helpers: format!("{lv}@HCLS ::= CLASS {{ &id INTEGER (0..@Lv0) UNIQUE, &flag BOOLEAN OPTIONAL }} WITH SYNTAX {{ ID &id [FLAG &flag] }}\n"),
                sugared: "Tq1 ::= SEQUENCE { fq1 @HCLS.&id, fq2 NULL }\n".into(),
                expanded: format!("Tq1 ::= SEQUENCE {{ fq1 INTEGER (0..{v}), fq2 NULL }}\n"),
            },
            3 => Pair {
                family: "components-of",
                class: "SEQUENCE,position=last,copied-component-is-an-instantiation".into(),
                helpers: "@HTp {T} ::= SEQUENCE { aq1 T }\n@HTs ::= SEQUENCE { hq0 @HTp {BOOLEAN}, hq1 NULL }\n".into(),
                sugared: "Tq1 ::= SEQUENCE { fq0 NULL, COMPONENTS OF @HTs }\n".into(),
                expanded: "Tq1 ::= SEQUENCE { fq0 NULL, hq0 @HTp {BOOLEAN}, hq1 NULL }\n".into(),
            },
            _ => {
                // an actual parameter that is a reference to a module-level value spelled like an *earlier* dummy reference of
                // the same template: X.683 8.3 hides the module-level value inside the template only, not in the argument list
                let w = *rng.pick(&[10i64, 300]);
                Pair {
                    family: "parameterized-type",
                    class: "params=2,instantiations=1,global-value-named-like-dummy,argument-is-that-global".into(),
                    helpers: format!("size INTEGER ::= {v}\n@HTp {{INTEGER: size, INTEGER: count}} ::= SEQUENCE {{ aq1 INTEGER (0..size), aq2 INTEGER (0..count) }}\n"),
                    sugared: format!("Tq1 ::= @HTp {{{w}, size}}\n"),
                    expanded: format!("Tq1 ::= SEQUENCE {{ aq1 INTEGER (0..{w}), aq2 INTEGER (0..{v}) }}\n"),
                }
            }
        };
    }
    match rng.below(12) {
        // ---- value references / named numbers inside constraints
        0 | 1 => {
            let v = *rng.pick(&[0i64, 1, 5, 127, 128, 255, 256, 65535, 65536, -1, -129]);
            let lo = v - 1 - rng.below(300) as i64;
            let depth = 1 + rng.below(4);
            let mut helpers = String::new();
            for d in 0..depth {
                if d + 1 < depth {
                    helpers.push_str(&format!("@Lv{d} INTEGER ::= @Lv{}\n", d + 1));
                } else {
                    helpers.push_str(&format!("@Lv{d} INTEGER ::= {v}\n"));
                }
            }
            match rng.below(4) {
                0 => Pair { family: "value-reference-in-constraint", class: format!("assignment,chain={depth}"), helpers, sugared: format!("Tq1 ::= INTEGER ({lo}..@Lv0)\n"), expanded: format!("Tq1 ::= INTEGER ({lo}..{v})\n") },
                1 => Pair { family: "value-reference-in-constraint", class: format!("component,chain={depth}"), helpers, sugared: format!("Tq1 ::= SEQUENCE {{ fq1 INTEGER ({lo}..@Lv0), fq2 BOOLEAN }}\n"), expanded: format!("Tq1 ::= SEQUENCE {{ fq1 INTEGER ({lo}..{v}), fq2 BOOLEAN }}\n") },
                2 => {
                    let s = v.unsigned_abs() % 40;
                    let helpers = helpers.replace(&format!("::= {v}\n"), &format!("::= {s}\n"));
                    Pair { family: "value-reference-in-constraint", class: format!("size,chain={depth}"), helpers, sugared: "Tq1 ::= OCTET STRING (SIZE (0..@Lv0))\n".into(), expanded: format!("Tq1 ::= OCTET STRING (SIZE (0..{s}))\n") }
                }
                _ => Pair { family: "value-reference-in-constraint", class: format!("single-value,chain={depth}"), helpers, sugared: "Tq1 ::= INTEGER (@Lv0)\n".into(), expanded: format!("Tq1 ::= INTEGER ({v})\n") },
            }
        }
        2 => {
            let v = rng.range(1, 500);
            // a decoy type that sorts first and declares the same named numbers with other values must not be consulted
            let decoy = if rng.chance(1, 2) { "AaDecoy ::= INTEGER { nq1(1000), nq2(2000) }\n" } else { "" };
            let helpers = format!("{decoy}@HTn ::= INTEGER {{ nq1(0), nq2({v}) }}\n");
            if rng.chance(1, 2) {
                Pair { family: "named-number-in-constraint", class: "assignment".into(), helpers, sugared: "Tq1 ::= @HTn (nq1..nq2)\n".into(), expanded: format!("Tq1 ::= @HTn (0..{v})\n") }
            } else {
                Pair { family: "named-number-in-constraint", class: "component".into(), helpers, sugared: "Tq1 ::= SEQUENCE { fq1 @HTn (nq1..nq2) }\n".into(), expanded: format!("Tq1 ::= SEQUENCE {{ fq1 @HTn (0..{v}) }}\n") }
            }
        }
        // ---- COMPONENTS OF
        3..=5 => {
            let hn = 1 + rng.below(4);
            let hroot = comp_list(rng, "h", hn, true);
            let hext = if rng.chance(1, 3) { format!(", ..., hq9 NULL") } else { String::new() };
            let helpers = format!("@HTs ::= SEQUENCE {{ {}{hext} }}\n", hroot.join(", "));
            let n = rng.below(5);
            let own = comp_list(rng, "f", n, true);
            let pos = rng.below(n + 1);
            let marker = rng.below(3); // 0 none, 1 marker after everything, 2 marker + one addition
            let mut s_list: Vec<String> = own.clone();
            s_list.insert(pos, "COMPONENTS OF @HTs".into());
            let mut e_list: Vec<String> = own.clone();
            for (k, h) in hroot.iter().enumerate() {
                e_list.insert(pos + k, h.clone());
            }
            let tail = match marker {
                0 => "",
                1 => ", ...",
                _ => ", ..., fq8 BOOLEAN",
            };
            if pos == n && marker == 0 && hext.is_empty() && rng.chance(1, 3) {
                // COMPONENTS OF a type that itself ends in COMPONENTS OF (both in last position, where the single level works)
                let helpers2 = format!("{helpers}@HTt ::= SEQUENCE {{ gq1 NULL, COMPONENTS OF @HTs }}\n");
                let mut s2 = own.clone();
                s2.push("COMPONENTS OF @HTt".into());
                let mut e2 = own.clone();
                e2.push("gq1 NULL".into());
                e2.extend(hroot.iter().cloned());
                return Pair { family: "components-of", class: "SEQUENCE,nested-components-of,position=last".into(), helpers: helpers2, sugared: format!("Tq1 ::= SEQUENCE {{ {} }}\n", s2.join(", ")), expanded: format!("Tq1 ::= SEQUENCE {{ {} }}\n", e2.join(", ")) };
            }
            let kind = if rng.chance(1, 4) { "SET" } else { "SEQUENCE" };
            let where_ = if n == 0 { "only" } else if pos == 0 { "first" } else if pos == n { "last" } else { "middle" };
            // X.680 27.x: COMPONENTS OF inside a SET names a SET type (a SET needs distinct tags: AUTOMATIC TAGS provides them)
            let helpers = if kind == "SET" { helpers.replace("@HTs ::= SEQUENCE {", "@HTs ::= SET {") } else { helpers };
            Pair {
                family: "components-of",
                class: format!("{kind},position={where_},marker={},referenced-extensible={}", marker > 0, !hext.is_empty()),
                helpers,
                sugared: format!("Tq1 ::= {kind} {{ {}{tail} }}\n", s_list.join(", ")),
                expanded: format!("Tq1 ::= {kind} {{ {}{tail} }}\n", e_list.join(", ")),
            }
        }
        // ---- parameterized types
        6..=8 => {
            let np = 1 + rng.below(3);
            let targ = *rng.pick(&["BOOLEAN", "INTEGER", "OCTET STRING", "IA5String"]);
            let narg = rng.range(1, 300);
            let targ2 = *rng.pick(&["OCTET STRING", "BOOLEAN"]);
            // variants: a CHOICE body instantiated under a tag (the tag must come out explicit, X.680 31.2.7 c), and a DEFAULT
            // on the component bounded by the value parameter
            // at most one variant per pair, so that a (known) defect of one variant keeps one signature
            let variant = rng.below(4);
            let choice_body = np == 1 && rng.chance(1, 3);
            let with_default = np == 2 && variant == 1;
            let dflt = if with_default { " DEFAULT 1" } else { "" };
            let body = |a: &str| -> (String, String, String, String) {
                match np {
                    1 if choice_body => ("{T}".to_string(), "CHOICE { aq1 T, aq2 NULL }".to_string(), format!("CHOICE {{ aq1 {a}, aq2 NULL }}"), format!("{{{a}}}")),
                    1 => ("{T}".to_string(), "SEQUENCE { aq1 T, aq2 BOOLEAN OPTIONAL }".to_string(), format!("SEQUENCE {{ aq1 {a}, aq2 BOOLEAN OPTIONAL }}"), format!("{{{a}}}")),
                    2 => ("{T, INTEGER:n}".to_string(), format!("SEQUENCE {{ aq1 T, aq2 INTEGER (0..n){dflt} }}"), format!("SEQUENCE {{ aq1 {a}, aq2 INTEGER (0..{narg}){dflt} }}"), format!("{{{a}, {narg}}}")),
                    _ => (
                        "{T, INTEGER:n, U}".to_string(),
                        "SEQUENCE { aq1 T, aq2 INTEGER (0..n), aq3 SEQUENCE OF U }".to_string(),
                        format!("SEQUENCE {{ aq1 {a}, aq2 INTEGER (0..{narg}), aq3 SEQUENCE OF {targ2} }}"),
                        format!("{{{a}, {narg}, {targ2}}}"),
                    ),
                }
            };
            let (params, body_s, body_e, args) = body(targ);
            // a module-level value spelled like the dummy reference must not be picked instead of the actual parameter
            // (X.683 8.3: the dummy reference hides it inside the parameterized assignment)
            let global_homonym = np >= 2 && variant == 2;
            // likewise a module-level *type* spelled like the dummy type reference
            let global_type_homonym = !choice_body && variant == 3;
            let helpers = format!("@HTp{params} ::= {body_s}\n{}{}", if global_homonym { "n INTEGER ::= 977\n" } else { "" }, if global_type_homonym { "T ::= OCTET STRING (SIZE (7))\n" } else { "" });
            let inst = 1 + rng.below(3);
            let tag = if choice_body { "[3] " } else { "" };
            let mut sug = format!("Tq1 ::= {tag}@HTp{args}\n");
            let mut exp = format!("Tq1 ::= {tag}{body_e}\n");
            // further instantiations with another argument must not disturb the first
            for k in 2..=inst {
                let (_, _, be, ar) = body(if targ == "BOOLEAN" { "IA5String" } else { "BOOLEAN" });
                sug.push_str(&format!("Tq{k} ::= @HTp{ar}\n"));
                exp.push_str(&format!("Tq{k} ::= {be}\n"));
            }
            Pair {
                family: "parameterized-type",
                class: format!(
                    "params={np},instantiations={inst}{}{}{}{}",
                    if global_homonym { ",global-value-named-like-dummy" } else { "" },
                    if global_type_homonym { ",global-type-named-like-dummy" } else { "" },
                    if choice_body { ",tagged-choice-instance" } else { "" },
                    if with_default { ",default-on-parameter-bounded-component" } else { "" }
                ),
                helpers,
                sugared: sug,
                expanded: exp,
            }
        }
        // ---- selection type
        9 | 10 => {
            let alts = ["INTEGER (0..5)", "BOOLEAN", "OCTET STRING (SIZE (4))", "IA5String"];
            let k = rng.below(alts.len());
            // a third of the cases: the alternatives carry tags of their own; the selection type denotes the *tagged* type
            // (X.680 30.1: "the type of the selected alternative")
            let tagged = rng.chance(1, 3);
            let alt = |i: usize| if tagged { format!("[{}] {}", i + 3, alts[i]) } else { alts[i].to_string() };
            let helpers = format!("@HTc ::= CHOICE {{ {} }}\n", (0..alts.len()).map(|i| format!("sq{i} {}", alt(i))).collect::<Vec<_>>().join(", "));
            let t = if tagged { ",tagged-alternative" } else { "" };
            if rng.chance(1, 2) {
                Pair { family: "selection-type", class: format!("assignment{t}"), helpers, sugared: format!("Tq1 ::= sq{k} < @HTc\n"), expanded: format!("Tq1 ::= {}\n", alt(k)) }
            } else {
                Pair { family: "selection-type", class: format!("component{t}"), helpers, sugared: format!("Tq1 ::= SEQUENCE {{ fq1 sq{k} < @HTc, fq2 NULL }}\n"), expanded: format!("Tq1 ::= SEQUENCE {{ fq1 {}, fq2 NULL }}\n", alt(k)) }
            }
        }
        // ---- fixed-type class field
        _ => {
            let fields = [("id", "INTEGER"), ("flag", "BOOLEAN"), ("name", "IA5String")];
            let (f, t) = *rng.pick(&fields);
            let helpers = "@HCLS ::= CLASS { &id INTEGER UNIQUE, &flag BOOLEAN OPTIONAL, &name IA5String OPTIONAL } WITH SYNTAX { ID &id [FLAG &flag] [NAME &name] }\n".to_string();
            let kind = *rng.pick(&["SEQUENCE", "SET", "CHOICE"]);
            Pair { family: "class-field-type", class: format!("{kind},field={t}"), helpers, sugared: format!("Tq1 ::= {kind} {{ fq1 @HCLS.&{f}, fq2 NULL }}\n"), expanded: format!("Tq1 ::= {kind} {{ fq1 {t}, fq2 NULL }}\n") }
        }
    }
}

fn digest(src: &str) -> (String, Vec<String>, String) {
    let run = comp::rasn1(src);
    match &run.out {
        comp::Outcome::Ok { generated, warnings } => match proj::project(generated) {
            Ok(mods) => {
                let mut texts: Vec<String> = vec![];
                for m in &mods {
                    for def in ["Tq1", "Tq2", "Tq3"] {
                        texts.extend(items_of(m, def).iter().map(|i| i.text.replace("AqT", "HqT").replace("ZqT", "HqT").replace("AQCLS", "HQCLS").replace("ZQCLS", "HQCLS").replace("AQV", "HQV").replace("ZQV", "HQV")));
                    }
                }
                (format!("Ok/{}w", warnings.len()), texts, warnings.join(" | "))
            }
            Err(e) => ("Ok/unparsable".into(), vec![], e),
        },
        o => (o.status().to_string(), vec![], o.brief()),
    }
}

fn check(seed: u64, idx: u64, rep: &mut Report) {
    let mut rng = Rng::for_case(seed, 9, idx);
    let p = gen_pair(&mut rng);
    let tagging = *rng.pick(&["AUTOMATIC TAGS", "AUTOMATIC TAGS", "IMPLICIT TAGS"]);
    // COMPONENTS OF / class fields inside SET or CHOICE need tags outside AUTOMATIC TAGS: keep those automatic
    let tagging = if p.family == "components-of" || p.family == "class-field-type" || p.family == "parameterized-type" { "AUTOMATIC TAGS" } else { tagging };
    // helper names sorting before (Aq) and after (Zq) the referencing name Tq1; class names are all upper case either way
    let render = |body: &str, h: &str| -> String {
        let cls = if h == "Aq" { "AQ" } else { "ZQ" };
        let low = h.to_lowercase();
        let sub = |t: &str| t.replace("@HCLS", &format!("{cls}CLS")).replace("@H", h).replace("@L", &low);
        if let Some(m2) = p.helpers.strip_prefix("@@MODULE ") {
            // two modules: the helper text is the exporting module, the body starts with its own header line
            let (hdr, rest) = body.split_once('\n').unwrap_or((body, ""));
            let hdr = hdr.trim_start_matches("@@HEADER ");
            let (tag, imports) = hdr.split_once(' ').unwrap_or((hdr, ""));
            return format!("Mq1 DEFINITIONS {tag} TAGS ::= BEGIN {}\n{}END\n{}", sub(imports), sub(rest), sub(m2));
        }
        format!("Mq1 DEFINITIONS {tagging} ::= BEGIN\n{}{}END\n", sub(&p.helpers), sub(body))
    };
    let mut results = vec![];
    for h in ["Aq", "Zq"] {
        let s = digest(&render(&p.sugared, h));
        let e = digest(&render(&p.expanded, h));
        rep.evaluations += 2;
        results.push((h, s, e));
    }
    rep.count(&format!("pairs_compared[{}]", p.family), 2);
    rep.count("pairs_compared", 2);
    rep.nontrivial.insert(hash_str(&format!("{}{}{}", p.helpers, p.sugared, p.expanded)));
    if rep.samples.len() < 5 && idx % 601 == 13 {
        rep.sample(json!({"family": p.family, "class": p.class, "sugared": render(&p.sugared, "Aq"), "expanded": render(&p.expanded, "Aq")}));
    }
    let mut reported = false;
    for (h, s, e) in &results {
        if e.0 != "Ok/0w" {
            rep.count("expanded_form_not_clean(not a claim)", 1);
            continue;
        }
        if s.0 != e.0 || s.1 != e.1 {
            if reported {
                continue;
            }
            reported = true;
            let kind = if s.0 != e.0 { format!("status:{}", s.0.split('/').next().unwrap_or("")) } else { "bindings-differ".to_string() };
            let first = s.1.iter().zip(e.1.iter()).find(|(a, b)| a != b).map(|(a, b)| format!("`{}` vs `{}`", one_line(a, 150), one_line(b, 150))).unwrap_or_else(|| format!("{} vs {} items; {}", s.1.len(), e.1.len(), one_line(&s.2, 120)));
            // where the order of definitions is part of the (known) defect it is part of the signature
            let order = if p.class.contains("global-value-named-like-dummy") {
                if *h == "Aq" { ",template-sorts-before-instances" } else { ",template-sorts-after-instances" }
            } else if p.class.contains("nested-components-of") {
                if *h == "Aq" { ",referenced-types-sort-before" } else { ",referenced-types-sort-after" }
            } else {
                ""
            };
            rep.violations.push(Violation {
                sig: format!("c09|{}|{kind}|{}{order}", p.family, p.class),
                what: format!("sugared ({}) and expanded forms differ (helper names `{h}*`): {first}", one_line(p.sugared.trim(), 120)),
                replay: json!({"sugared": render(&p.sugared, h), "expanded": render(&p.expanded, h), "seed": seed, "idx": idx}),
            });
        }
    }
    // independence of helper-name spelling / definition order
    if results[0].1 .0 != results[1].1 .0 || results[0].1 .1 != results[1].1 .1 {
        rep.violations.push(Violation {
            sig: format!("c09|{}|depends-on-helper-name-order{}", p.family, if p.class.contains("global-value-named-like-dummy") { "|global-value-named-like-dummy" } else if p.class.contains("nested-components-of") { "|nested-components-of" } else if p.class.contains("template-contains-components-of") { "|template-contains-components-of" } else if p.class.contains("selected-alternative-is-a-fixed-type-class-field") { "|selected-alternative-is-a-fixed-type-class-field" } else { "" }),
            what: format!("the sugared form compiles differently when the referenced definition sorts before (`Aq*`) vs after (`Zq*`) `Tq1`: {}", one_line(p.sugared.trim(), 120)),
            replay: json!({"a": render(&p.sugared, "Aq"), "z": render(&p.sugared, "Zq"), "seed": seed, "idx": idx}),
        });
    }
}

pub fn run(ctx: &Ctx) -> Report {
    let mut rep = Report::new(
        "exploration",
        "pairs (sugared module, hand-expanded module) built from one description, both containing the same helper definitions; compared are the token-normalised, doc-free items of the target definitions. Families: value reference in a constraint (chains of 1..4 references; range end, single value, SIZE, component), named number of a referenced type in a constraint, COMPONENTS OF at every position (only / first / middle / last) of SEQUENCE and SET lists with 0..4 own components, with and without extension marker and additions, referenced type with and without marker; parameterized types with 1..3 type/value parameters instantiated 1..3 times; selection type of every alternative as assignment and as component; fixed-type class field as component of SEQUENCE / SET / CHOICE. Every pair is compiled twice with helper names that sort before (Aq*) and after (Zq*) the referencing name. A pair whose expanded form does not compile cleanly is not a claim. Non-trivial = pair compared; distinct by pair text.",
    );
    rep.must_observe = vec!["pairs_compared".into(), "pairs_compared[components-of]".into(), "pairs_compared[parameterized-type]".into(), "pairs_compared[selection-type]".into(), "pairs_compared[class-field-type]".into()];
    rep.assumptions = vec!["the expansion is done by the harness following X.680 25.5 / 30, X.683 8-9, X.681".into()];
    if let Some(path) = &ctx.replay {
        let doc: serde_json::Value = serde_json::from_str(&std::fs::read_to_string(path).expect("replay")).expect("json");
        let c = &doc["case"];
        if let (Some(s), Some(i)) = (c["seed"].as_u64(), c["idx"].as_u64()) {
            check(s, i, &mut rep);
        }
        return rep;
    }
    let n = ctx.pick(6_000u64, 200_000);
    let seed = ctx.seed;
    let acc = Acc::new(rep);
    let per = 50u64;
    par_for(n.div_ceil(per), |c| {
        let mut local = Report::default();
        for i in c * per..((c + 1) * per).min(n) {
            check(seed, i, &mut local);
        }
        acc.with(|r| r.merge(local));
    });
    acc.into_inner()
}
