//! C19 — backend options change only what they document (metamorphic item-level diff along the configuration lattice).
use crate::comp::{self, Cfg};
use crate::core::*;
use crate::gen::{self, GenOpts};
use crate::proj::{self, Kind, Module};
use serde_json::json;
use std::collections::{BTreeMap, BTreeSet};

const CUSTOM_IMPORTS: [&[&str]; 3] = [&[], &["core::fmt::Write"], &["core::fmt::Write", "core::ops::Deref as VerifDeref", "alloc::collections::BTreeMap", "std::fmt::Debug as VerifDebug", "users::directory::Entry", "user_types::*"]];
fn annotations(i: usize) -> Option<Vec<String>> {
    match i {
        0 => None,
        1 => Some(vec!["#[derive(AsnType, Debug, Clone, Decode, Encode, PartialEq, Eq, Hash, PartialOrd, Ord)]".into()]),
        2 => Some(vec!["#[derive(AsnType, Debug, Clone, Decode, Encode, PartialEq, Eq, Hash)]".into(), "#[cfg_attr(any(), verif_marker)]".into()]),
        // `Default` among the extra derives: the generated `impl Default` of all-DEFAULT types is not an attribute and stays
        4 => Some(vec!["#[derive(AsnType, Debug, Clone, Decode, Encode, PartialEq, Eq, Hash, Default)]".into()]),
        // a trailing comma in the derive list
        5 => Some(vec!["#[derive(AsnType, Debug, Clone, Decode, Encode, PartialEq, Eq, Hash, PartialOrd,)]".into()]),
        // `Copy`, which the backend adds on its own to BOOLEAN / NULL / ENUMERATED types
        6 => Some(vec!["#[derive(AsnType, Debug, Clone, Copy, Decode, Encode, PartialEq, Eq, Hash)]".into()]),
        // one element that holds a derive list and a further attribute: both must arrive
        7 => Some(vec!["#[derive(AsnType, Debug, Clone, Decode, Encode, PartialEq, Eq, Hash, PartialOrd)] #[cfg_attr(any(), verif_marker)]".into()]),
        // derives named by a path / with an underscore next to a required one (the path resolves: `core::cmp::PartialOrd`)
        8 => Some(vec!["#[derive(AsnType, Debug, Clone, Decode, Encode, PartialEq, Eq, Hash, core::cmp::PartialOrd)]".into(), "#[derive(Debug, core::cmp::Ord)]".into()]),
        // only the derives rasn needs: nothing else (no Eq, no Hash) may appear on any type of any module
        9 => Some(vec!["#[derive(AsnType, Debug, Clone, Decode, Encode, PartialEq)]".into()]),
        // a required derive (Debug, Clone) and a non-required one (Eq) named on two lines: each must come out once
        _ => Some(vec!["#[derive(AsnType, Debug, Clone, Decode, Encode, PartialEq, Eq, Hash)]".into(), "#[derive(Debug, Clone, Eq, PartialOrd)]".into()]),
    }
}

#[derive(Clone, Copy, Debug, PartialEq, Eq, Hash)]
struct Point {
    flags: u8, // bit0 opaque_open_types, bit1 wildcard, bit2 from_impls, bit3 no_std
    imports: usize,
    ann: usize,
}
impl Point {
    fn cfg(&self) -> Cfg {
        Cfg {
            opaque_open_types: self.flags & 1 != 0,
            default_wildcard_imports: self.flags & 2 != 0,
            generate_from_impls: self.flags & 4 != 0,
            no_std: self.flags & 8 != 0,
            custom_imports: CUSTOM_IMPORTS[self.imports].iter().map(|s| s.to_string()).collect(),
            type_annotations: annotations(self.ann),
        }
    }
}

fn all_points() -> Vec<Point> {
    let mut v = vec![];
    for flags in 0..16u8 {
        for imports in 0..3 {
            for ann in 0..10 {
                v.push(Point { flags, imports, ann });
            }
        }
    }
    v
}

/// neighbours that differ in exactly one coordinate, as (lower, upper, coordinate-name)
fn edges(points: &[Point]) -> Vec<(Point, Point, &'static str)> {
    let mut e = vec![];
    for p in points {
        for (bit, name) in [(1u8, "opaque_open_types"), (2, "default_wildcard_imports"), (4, "generate_from_impls"), (8, "no_std_compliant_bindings")] {
            if p.flags & bit == 0 {
                e.push((*p, Point { flags: p.flags | bit, ..*p }, name));
            }
        }
        if p.imports == 0 {
            for i in 1..3 {
                e.push((*p, Point { imports: i, ..*p }, "custom_imports"));
            }
        }
        if p.ann == 0 {
            for a in 1..10 {
                e.push((*p, Point { ann: a, ..*p }, "type_annotations"));
            }
        }
    }
    e
}

type Items = BTreeMap<(String, String), proj::Item>; // (module, item name#ordinal) -> item

fn items(mods: &[Module]) -> Items {
    let mut out = Items::new();
    for m in mods {
        let mut seen: BTreeMap<String, usize> = BTreeMap::new();
        for it in &m.items {
            let n = seen.entry(it.name.clone()).or_insert(0);
            out.insert((m.name.clone(), format!("{}#{}", it.name, n)), it.clone());
            *n += 1;
        }
    }
    out
}

fn strip_attrs(text: &str) -> String {
    // drop leading #[...] groups of a token-normalised item text
    let mut s = text;
    loop {
        let t = s.trim_start();
        if let Some(rest) = t.strip_prefix("#[") {
            let mut depth = 1;
            let mut end = 0;
            for (i, c) in rest.char_indices() {
                match c {
                    '[' => depth += 1,
                    ']' => {
                        depth -= 1;
                        if depth == 0 {
                            end = i + 1;
                            break;
                        }
                    }
                    _ => {}
                }
            }
            s = &rest[end..];
        } else {
            return t.to_string();
        }
    }
}

/// Every path of a type spelling reduced to its last segment, also inside generic arguments
/// (`SequenceOf<super::mb::Tb>` and `SequenceOf<Tb>` are one payload type).
fn last_segments(p: &str) -> String {
    let mut key: String = p.split_whitespace().collect();
    while let Some(at) = key.find("::") {
        let start = key[..at].rfind(|c: char| !(c.is_alphanumeric() || c == '_')).map_or(0, |i| i + 1);
        key.replace_range(start..at + 2, "");
    }
    key
}

const REQUIRED: [&str; 6] = ["AsnType", "Debug", "Clone", "Decode", "Encode", "PartialEq"];

fn judge(coord: &str, lo: &Point, hi: &Point, a: &Items, b: &Items) -> Vec<(String, String)> {
    let mut out = vec![];
    let ka: BTreeSet<_> = a.keys().cloned().collect();
    let kb: BTreeSet<_> = b.keys().cloned().collect();
    let removed: Vec<_> = ka.difference(&kb).cloned().collect();
    let added: Vec<_> = kb.difference(&ka).cloned().collect();
    let changed: Vec<_> = ka.intersection(&kb).filter(|k| a[*k].text != b[*k].text).cloned().collect();
    let is_use = |it: &proj::Item| matches!(it.kind, Kind::Use(_));
    let describe = |k: &(String, String), it: &proj::Item| format!("{}::{} `{}`", k.0, k.1, one_line(&it.text, 140));
    match coord {
        "generate_from_impls" => {
            for k in &removed {
                out.push(("item-removed".into(), describe(k, &a[k])));
            }
            for k in &changed {
                out.push(("item-changed".into(), describe(k, &b[k])));
            }
            // expected impls: one per CHOICE alternative whose payload type occurs once in that CHOICE (judged on the generated payload tokens)
            let mut expect: BTreeSet<(String, String, String)> = BTreeSet::new();
            for ((m, _), it) in b.iter() {
                if let Kind::Enum { variants } = &it.kind {
                    if it.attrs.has("choice") {
                        let norm = |p: &str| -> String {
                            let p = p.strip_prefix("Box<").and_then(|x| x.strip_suffix('>')).unwrap_or(p);
                            last_segments(p)
                        };
                        let mut count: BTreeMap<String, usize> = BTreeMap::new();
                        for v in variants {
                            if let Some(p) = v.payload.first() {
                                *count.entry(norm(p)).or_insert(0) += 1;
                            }
                        }
                        for v in variants {
                            if let Some(p) = v.payload.first() {
                                if count[&norm(p)] == 1 {
                                    expect.insert((m.clone(), norm(p), it.name.clone()));
                                }
                            }
                        }
                    }
                }
            }
            let mut got: BTreeSet<(String, String, String)> = BTreeSet::new();
            for k in &added {
                let it = &b[k];
                match &it.kind {
                    Kind::Impl { trait_: Some(t), for_ } if t.starts_with("From<") => {
                        let p = t.strip_prefix("From<").and_then(|x| x.strip_suffix('>')).unwrap_or(t);
                        let p = p.strip_prefix("Box<").and_then(|x| x.strip_suffix('>')).unwrap_or(p);
                        let p = last_segments(p);
                        if !got.insert((k.0.clone(), p.clone(), for_.clone())) {
                            out.push(("from-impl-duplicate".into(), describe(k, it)));
                        }
                    }
                    _ => out.push(("item-added-not-a-from-impl".into(), describe(k, it))),
                }
            }
            for e in expect.difference(&got) {
                out.push(("from-impl-missing".into(), format!("{}: no `impl From<{}> for {}` although the payload type is unique in that CHOICE", e.0, e.1, e.2)));
            }
            for g in got.difference(&expect) {
                out.push(("from-impl-for-ambiguous-payload".into(), format!("{}: `impl From<{}> for {}` although that payload type is not unique in the CHOICE", g.0, g.1, g.2)));
            }
        }
        "default_wildcard_imports" => {
            // only `use super::m::{..}` lines may change, and only into `use super::m::*`
            for k in removed.iter().chain(changed.iter()) {
                let it = &a[k];
                if !(is_use(it) && it.name.starts_with("use super::")) {
                    out.push(("non-import-item-changed".into(), describe(k, it)));
                }
            }
            for k in added.iter().chain(changed.iter()) {
                let it = &b[k];
                if !(is_use(it) && it.name.starts_with("use super::") && (it.name.ends_with("::*") || it.name.ends_with("::{*}"))) {
                    out.push(("not-a-wildcard-import".into(), describe(k, it)));
                }
            }
            // same sibling modules before and after
            let mods_of = |s: &Items| -> BTreeSet<(String, String)> {
                s.iter().filter(|(_, it)| is_use(it) && it.name.starts_with("use super::")).map(|(k, it)| (k.0.clone(), it.name["use super::".len()..].split("::").next().unwrap_or("").to_string())).collect()
            };
            if mods_of(a) != mods_of(b) {
                out.push(("imported-modules-differ".into(), format!("{:?} vs {:?}", mods_of(a), mods_of(b))));
            }
        }
        "no_std_compliant_bindings" => {
            // allowed: prelude use line LazyLock <-> lazy_static, and the wrapping of lazily initialised statics
            for k in removed.iter().chain(added.iter()) {
                let it = a.get(k).or_else(|| b.get(k)).unwrap();
                let ok = is_use(it) && (it.name.contains("LazyLock") || it.name.contains("lazy_static"));
                if !ok {
                    out.push(("item-added-or-removed".into(), describe(k, it)));
                }
            }
            for k in &changed {
                match (&a[k].kind, &b[k].kind) {
                    (Kind::Const { ty: t1, init: i1, .. }, Kind::Const { ty: t2, init: i2, .. }) => {
                        if t1 != t2 || proj::norm(i1) != proj::norm(i2) {
                            out.push(("static-value-or-type-changed".into(), format!("{} vs {}", describe(k, &a[k]), describe(k, &b[k]))));
                        }
                    }
                    _ => out.push(("item-changed".into(), describe(k, &b[k]))),
                }
            }
        }
        "custom_imports" => {
            for k in &removed {
                out.push(("item-removed".into(), describe(k, &a[k])));
            }
            for k in &changed {
                out.push(("item-changed".into(), describe(k, &b[k])));
            }
            let want: BTreeSet<String> = CUSTOM_IMPORTS[hi.imports].iter().map(|s| proj::norm_ts(s.parse().unwrap())).collect();
            let mut per_mod: BTreeMap<String, BTreeSet<String>> = BTreeMap::new();
            for k in &added {
                let it = &b[k];
                match &it.kind {
                    Kind::Use(u) => {
                        per_mod.entry(k.0.clone()).or_default().insert(u.clone());
                    }
                    _ => out.push(("non-use-item-added".into(), describe(k, it))),
                }
            }
            let modules: BTreeSet<String> = b.keys().map(|k| k.0.clone()).collect();
            for m in modules {
                let got = per_mod.remove(&m).unwrap_or_default();
                if got != want {
                    out.push(("custom-import-set".into(), format!("module {m}: added use lines {got:?}, configured {want:?}")));
                }
            }
        }
        "type_annotations" => {
            for k in &removed {
                out.push(("item-removed".into(), describe(k, &a[k])));
            }
            for k in &added {
                out.push(("item-added".into(), describe(k, &b[k])));
            }
            for k in &changed {
                let (x, y) = (&a[k], &b[k]);
                let type_item = matches!(x.kind, Kind::Struct { .. } | Kind::Enum { .. });
                if !type_item {
                    out.push(("non-type-item-changed".into(), describe(k, y)));
                    continue;
                }
                // identical apart from outer attributes; rasn attributes and non_exhaustive unchanged
                if strip_attrs(&x.text) != strip_attrs(&y.text) {
                    out.push(("type-body-changed".into(), format!("{} vs {}", describe(k, x), describe(k, y))));
                }
                if x.attrs.rasn != y.attrs.rasn || x.attrs.non_exhaustive != y.attrs.non_exhaustive {
                    out.push(("rasn-attributes-changed".into(), describe(k, y)));
                }
            }
            // required derives present exactly once on every type item
            for (k, it) in b.iter() {
                if matches!(it.kind, Kind::Struct { .. } | Kind::Enum { .. }) {
                    for r in REQUIRED {
                        let n = it.attrs.derives.iter().filter(|d| d.as_str() == r).count();
                        if n != 1 {
                            out.push((format!("required-derive-count-{}", if n == 0 { "0" } else { ">1" }), format!("{}: derive `{r}` occurs {n} times", describe(k, it))));
                            break;
                        }
                    }
                    // everything the setting asks for arrives: each derive named in it (compared by last path segment) and the
                    // marker attribute wherever the setting contains it
                    if let Some(ann) = annotations(hi.ann) {
                        for a in &ann {
                            if let Some(list) = a.split_once("derive(").map(|x| x.1.split(')').next().unwrap_or("")) {
                                for d in list.split(',').map(|d| d.trim()).filter(|d| !d.is_empty()) {
                                    let want = d.rsplit("::").next().unwrap_or(d);
                                    if !it.attrs.derives.iter().any(|x| x.replace(' ', "").rsplit("::").next() == Some(want)) {
                                        out.push(("requested-derive-missing".into(), format!("{}: derive `{d}` of the type_annotations setting is not emitted", describe(k, it))));
                                    }
                                }
                            }
                            if a.contains("verif_marker") && !it.attrs.other.iter().any(|o| o.contains("verif_marker")) {
                                out.push(("requested-attribute-missing".into(), format!("{}: the attribute `#[cfg_attr(any(), verif_marker)]` of the type_annotations setting is not emitted", describe(k, it))));
                            }
                        }
                    }
                    // and nothing else arrives: the derive set is the required derives, the requested ones and what the backend adds
                    // on its own under the default setting (`Copy` on some types), which is the part of the default-setting item
                    // that the default annotation does not name
                    if lo.ann == 0 {
                        if let (Some(ann), Some(base)) = (annotations(hi.ann), a.get(k)) {
                            const DEFAULT_LIST: [&str; 8] = ["AsnType", "Debug", "Clone", "Decode", "Encode", "PartialEq", "Eq", "Hash"];
                            let last = |d: &str| d.replace(' ', "").rsplit("::").next().unwrap_or("").to_string();
                            let mut allowed: BTreeSet<String> = REQUIRED.iter().map(|r| r.to_string()).collect();
                            allowed.extend(base.attrs.derives.iter().map(|d| last(d)).filter(|d| !DEFAULT_LIST.contains(&d.as_str())));
                            for el in &ann {
                                if let Some(list) = el.split_once("derive(").map(|x| x.1.split(')').next().unwrap_or("")) {
                                    allowed.extend(list.split(',').map(|d| last(d.trim())).filter(|d| !d.is_empty()));
                                }
                            }
                            if let Some(d) = it.attrs.derives.iter().map(|d| last(d)).find(|d| !allowed.contains(d)) {
                                out.push(("unrequested-derive".into(), format!("{}: derive `{d}` is neither required, nor requested by the type_annotations setting, nor added by the backend under the default setting", describe(k, it))));
                            }
                        }
                    }
                    // no derive at all may be emitted twice (conflicting impls)
                    if let Some(d) = it.attrs.derives.iter().find(|d| !REQUIRED.contains(&d.as_str()) && it.attrs.derives.iter().filter(|x| x == d).count() > 1) {
                        out.push(("derive-duplicated".into(), format!("{}: derive `{d}` is emitted more than once", describe(k, it))));
                    }
                }
            }
        }
        _ => {
            // opaque_open_types = false -> true: documented effect is fewer decode helpers / object-set enums: nothing that exists with the
            // flag on may be altered or disappear relative to...(lo has the flag off): type definitions must be the same
            for k in &changed {
                let (x, y) = (&a[k], &b[k]);
                if matches!(x.kind, Kind::Struct { .. } | Kind::Enum { .. } | Kind::Const { .. }) {
                    out.push(("definition-changed".into(), format!("{} vs {}", describe(k, x), describe(k, y))));
                }
            }
            for k in &added {
                // turning the flag ON must not add items
                out.push(("item-added-by-opaque".into(), describe(k, &b[k])));
            }
            let _ = (lo, &removed);
        }
    }
    out
}

fn opts() -> GenOpts {
    GenOpts { modules: (1, 3), assigns: (2, 9), max_depth: 3, max_comps: 5, qualified_refs: true, any: true, ..GenOpts::default() }
}

/// CHOICE types whose alternatives have payload types that are equal, or differ only in a wrapper (SEQUENCE OF / SET OF,
/// module qualification, Box through recursion): the `From` impls of `generate_from_impls` are keyed on the payload type.
fn payload_template(seed: u64, idx: u64) -> Vec<String> {
    let mut rng = Rng::for_case(seed, 1919, idx);
    const POOL: [&str; 12] = ["Tb", "Mb.Tb", "SEQUENCE OF Mb.Tb", "SEQUENCE OF Tb", "SET OF Tb", "Ub", "SEQUENCE OF Ub", "INTEGER", "INTEGER", "BOOLEAN", "SEQUENCE OF INTEGER", "Cq1"];
    let mut picks: Vec<usize> = (0..POOL.len()).collect();
    rng.shuffle(&mut picks);
    let k = 2 + rng.below(5);
    let alts: Vec<String> = picks[..k].iter().enumerate().map(|(i, p)| format!("cq{i} {}", POOL[*p])).collect();
    vec![
        // the same CHOICE also where it is not a type assignment of its own (component, element, alternative): hoisted types
        format!("Ma DEFINITIONS AUTOMATIC TAGS ::= BEGIN IMPORTS Tb, Ub FROM Mb;\nCq1 ::= CHOICE {{ {a}, cq9 NULL }}\nWq1 ::= SEQUENCE {{ inner CHOICE {{ {a}, cq9 NULL }}, tail BOOLEAN }}\nLq1 ::= SEQUENCE OF CHOICE {{ {a}, cq9 NULL }}\nOq1 ::= CHOICE {{ nested CHOICE {{ {a}, cq9 NULL }}, other NULL }}\nEND\n", a = alts.join(", ")),
        "Mb DEFINITIONS AUTOMATIC TAGS ::= BEGIN\nTb ::= BOOLEAN\nUb ::= SEQUENCE { x INTEGER }\nAllDef ::= SEQUENCE { a INTEGER DEFAULT 1, b BOOLEAN DEFAULT TRUE }\nAllDefSet ::= SET { c INTEGER (0..7) DEFAULT 3 }\nFlagq ::= BOOLEAN\nNothingq ::= NULL\nColourq ::= ENUMERATED { red, green }\nHolderq ::= SEQUENCE { inline ENUMERATED { on, off } }\nEND\n".to_string(),
    ]
}

fn check_input(seed: u64, idx: u64, points: &[Point], es: &[(Point, Point, &'static str)], rep: &mut Report) {
    // every fourth input is a payload-type template
    let (srcs, origin, set_hash) = if idx % 4 == 3 {
        let s = payload_template(seed, idx);
        let h = hash_str(&s.join("|"));
        (s, format!("payload-template(seed={seed},idx={idx})"), h)
    } else {
        let set = gen::random_set(seed, 1900, idx, &opts());
        let h = hash_of(&set);
        (set.render_each(), format!("G(seed={seed},salt=1900,idx={idx})"), h)
    };
    let mut outs: BTreeMap<Point, Option<Items>> = BTreeMap::new();
    for p in points {
        let run = comp::rasn(&srcs, &p.cfg());
        rep.evaluations += 1;
        let it = run.out.generated().and_then(|g| proj::project(g).ok()).map(|m| items(&m));
        rep.count(if it.is_some() { "configurations_compiled[Ok]" } else { "configurations_compiled[not Ok]" }, 1);
        outs.insert(*p, it);
    }
    let mut any = false;
    for (lo, hi, coord) in es {
        let (Some(Some(a)), Some(Some(b))) = (outs.get(lo), outs.get(hi)) else { continue };
        any = true;
        rep.count(&format!("edges_compared[{coord}]"), 1);
        if *coord == "type_annotations" {
            rep.count("default_impls_seen", b.values().filter(|i| matches!(&i.kind, Kind::Impl { trait_: Some(t), .. } if t.ends_with("Default"))).count() as u64);
        }
        if *coord == "generate_from_impls" {
            rep.count("from_impls_seen", b.values().filter(|i| matches!(&i.kind, Kind::Impl { trait_: Some(t), .. } if t.starts_with("From<"))).count() as u64);
        }
        let mut seen = BTreeSet::new();
        for (kind, detail) in judge(coord, lo, hi, a, b) {
            if !seen.insert(kind.clone()) {
                continue;
            }
            rep.violations.push(Violation {
                sig: format!("c19|{coord}|{kind}"),
                what: format!("{detail} [{origin}; {:?} -> {:?}]", lo, hi),
                replay: json!({"origin": origin, "lo": format!("{lo:?}"), "hi": format!("{hi:?}"), "sources": srcs}),
            });
        }
    }
    if any {
        rep.nontrivial.insert(set_hash);
        if rep.samples.len() < 3 && idx % 17 == 2 {
            rep.sample(json!({"origin": origin, "asn1": one_line(&srcs.join(" "), 300), "configurations": points.len(), "edges": es.len()}));
        }
    }
}

impl PartialOrd for Point {
    fn partial_cmp(&self, o: &Self) -> Option<std::cmp::Ordering> {
        Some(self.cmp(o))
    }
}
impl Ord for Point {
    fn cmp(&self, o: &Self) -> std::cmp::Ordering {
        (self.flags, self.imports, self.ann).cmp(&(o.flags, o.imports, o.ann))
    }
}

pub fn run(ctx: &Ctx) -> Report {
    let mut rep = Report::new(
        "exploration",
        "grammar-G module sets (1..3 modules, imports, module-qualified references, CHOICEs with repeated payload types, ANY) compiled under the configuration lattice {2^4 boolean options} x {no, one, six custom imports, one of them a std:: path, two whose first segment begins with the letters `use`} x {default, extra derives, extra non-derive attribute, derives listed twice, `Default` among the derives, trailing comma in the derive list, `Copy` among the derives} = 336 points (quick: an 84-point sub-lattice containing every coordinate value) and compared along every edge that changes exactly one coordinate. Allowance per coordinate: generate_from_impls = only added `impl From<P> for Choice`, exactly one per alternative whose payload type occurs once in that CHOICE; default_wildcard_imports = only `use super::m::{..}` -> `use super::m::*` for the same sibling modules; no_std_compliant_bindings = only the LazyLock/lazy_static prelude line and the wrapping of statics (name, type, initialiser equal); custom_imports = only the configured use lines added to every module; type_annotations = only outer attributes of type items, rasn attributes unchanged, the six required derives exactly once; opaque_open_types = no type/value definition changes. Non-trivial = at least one edge compared; distinct by model hash.",
    );
    rep.must_observe = vec!["edges_compared[generate_from_impls]".into(), "edges_compared[type_annotations]".into(), "edges_compared[no_std_compliant_bindings]".into(), "from_impls_seen".into(), "default_impls_seen".into()];
    rep.assumptions = vec!["payload-type uniqueness is judged on the generated payload type tokens (module path and Box stripped)".into()];
    let all = all_points();
    let points: Vec<Point> = if ctx.quick() {
        // sub-lattice: all 16 flag combinations at the base imports/annotations + each imports/annotation value at 4 flag corners
        let mut v: Vec<Point> = all.iter().filter(|p| p.imports == 0 && p.ann == 0).cloned().collect();
        for f in [0u8, 5, 10, 15] {
            for i in 0..3 {
                for a in 0..10 {
                    v.push(Point { flags: f, imports: i, ann: a });
                }
            }
        }
        v.sort();
        v.dedup();
        v
    } else {
        all
    };
    let pset: BTreeSet<Point> = points.iter().cloned().collect();
    let es: Vec<_> = edges(&points).into_iter().filter(|(a, b, _)| pset.contains(a) && pset.contains(b)).collect();
    rep.extra.insert("lattice_points".into(), json!(points.len()));
    rep.extra.insert("lattice_edges".into(), json!(es.len()));
    if let Some(path) = &ctx.replay {
        let doc: serde_json::Value = serde_json::from_str(&std::fs::read_to_string(path).expect("replay")).expect("json");
        let origin = doc["case"]["origin"].as_str().unwrap_or("");
        let nums: Vec<u64> = origin.split(|c: char| !c.is_ascii_digit()).filter(|s| !s.is_empty()).filter_map(|s| s.parse().ok()).collect();
        if nums.len() >= 3 {
            check_input(nums[0], nums[2], &points, &es, &mut rep);
        }
        return rep;
    }
    let n = ctx.pick(160u64, 4000);
    let seed = ctx.seed;
    let acc = Acc::new(rep);
    par_for(n, |i| {
        let mut local = Report::default();
        check_input(seed, i, &points, &es, &mut local);
        acc.with(|r| r.merge(local));
    });
    acc.into_inner()
}
