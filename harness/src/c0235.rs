//! C02, C03, C05: workloads (random G + enumerated spaces) judged by the reference-model oracle.
use crate::cmodel;
use crate::core::*;
use crate::gen::*;
use std::sync::Mutex;

pub fn g_opts_types_pub() -> GenOpts {
    g_opts_types()
}

fn g_opts_types() -> GenOpts {
    GenOpts { modules: (1, 3), assigns: (1, 9), max_depth: 4, max_comps: 12, values: false, defaults: true, ..GenOpts::default() }
}
fn g_opts_c05_class_fields() -> GenOpts {
    GenOpts { modules: (1, 2), assigns: (1, 6), max_depth: 3, max_comps: 8, values: false, defaults: true, class_fields: true, ..GenOpts::default() }
}
fn g_opts_small() -> GenOpts {
    GenOpts { modules: (1, 2), assigns: (1, 6), max_depth: 3, max_comps: 6, values: false, ..GenOpts::default() }
}

// ------------------------------------------------------------------------------------------------ C02
pub fn run_c02(ctx: &Ctx) -> Report {
    let mut rep = Report::new(
        "exploration",
        "grammar-G module sets restricted to type assignments: 1..3 modules, 1..9 assignments, 0..12 components per constructed type, nesting to depth 4, OPTIONAL/DEFAULT/required, extension marker at any position with additions and [[ ]] groups, SET/SET OF, tagged and constrained components, direct and mutual recursion through OPTIONAL / CHOICE / SEQUENCE OF, cross-module references (plain and module-qualified), all tagging defaults. Oracle per constructed type (top-level and anonymous, located through the field's type token): member list equality (names, order, count), Rust type token vs ASN.1 type, Option<_> iff OPTIONAL, default attribute + function iff DEFAULT, set/SetOf markers, Box only on reference cycles, and acyclicity of the by-value containment graph of all generated items. Non-trivial = warning-free Ok compilation whose projection was judged; distinct by model hash.",
    );
    rep.must_observe = vec!["members_compared".into(), "type_tokens_compared".into(), "boxes_seen".into(), "containment_graphs_checked".into(), "collection_default_fields_compared".into()];
    rep.assumptions = vec!["reference model in oracle.rs; unique mangling-stable names map output items to model entities".into()];
    if ctx.replay.is_some() {
        return cmodel::replay(
            ctx,
            "C02",
            &|salt| {
                if salt == 201 {
                    let mut o = g_opts_small();
                    o.qualified_refs = true;
                    o.class_fields = true;
                    o
                } else {
                    g_opts_types()
                }
            },
            &|_| None,
            rep,
        );
    }
    let n = ctx.pick(5_000u64, 120_000);
    let rep = cmodel::run_random(ctx, "C02", 200, n, &g_opts_types(), rep);
    // second stream with module-qualified references
    let mut o = g_opts_small();
    o.qualified_refs = true;
    o.class_fields = true;
    let mut rep = cmodel::run_random(ctx, "C02", 201, n / 4, &o, rep);
    c02_collection_defaults(&mut rep);
    c02_recursion_shapes(ctx.seed, ctx.pick(3_000u64, 60_000), &mut rep);
    rep
}

/// Small reference graphs in which a type is reached more than once: 2..3 constructed types with 1..3 components each, every
/// component a reference to one of them (repetition and self reference allowed) - directly, through an alias, inside an
/// anonymous SEQUENCE / CHOICE, or as element of a SEQUENCE OF - spread over one or two modules. Whatever the shape, the
/// generated items must not contain each other by value (rustc E0072).
fn c02_recursion_shapes(seed: u64, n: u64, rep: &mut Report) {
    use crate::comp;
    use crate::proj::Kind;
    use std::collections::{BTreeMap, BTreeSet};
    let acc = Acc::new(Report::default());
    par_for(n, |i| {
        let (srcs, shape) = recursion_shape_sources(seed, i);
        let run = comp::rasn(&srcs, &comp::Cfg::default_cfg());
        let mut local = Report::default();
        local.evaluations += 1;
        match &run.out {
            comp::Outcome::Ok { generated, warnings } if warnings.is_empty() => {
                if let Ok(mods) = crate::proj::project(generated) {
                    let mut edges: BTreeMap<String, BTreeSet<String>> = BTreeMap::new();
                    for m in &mods {
                        for it in &m.items {
                            let toks: Vec<&str> = match &it.kind {
                                Kind::Struct { fields, .. } => fields.iter().map(|f| f.ty.as_str()).collect(),
                                Kind::Enum { variants } => variants.iter().flat_map(|v| v.payload.iter().map(|p| p.as_str())).collect(),
                                _ => continue,
                            };
                            let e = edges.entry(format!("{}::{}", m.name, it.name)).or_default();
                            for t in toks {
                                let t = t.strip_prefix("Option<").and_then(|x| x.strip_suffix('>')).unwrap_or(t);
                                if t.starts_with("Box<") || t.starts_with("SequenceOf<") || t.starts_with("SetOf<") || t.starts_with("Vec<") {
                                    continue;
                                }
                                // an imported name is the item of the sibling module
                                let target = if let Some(rest) = t.strip_prefix("super::") {
                                    rest.to_string()
                                } else if mods.len() == 2 && !m.items.iter().any(|x| x.name == t) {
                                    format!("{}::{}", mods.iter().find(|o| o.name != m.name).map(|o| o.name.as_str()).unwrap_or(""), t)
                                } else {
                                    format!("{}::{}", m.name, t)
                                };
                                e.insert(target);
                            }
                        }
                    }
                    // a node on a cycle reaches itself
                    let mut cyc: Option<String> = None;
                    for start in edges.keys() {
                        let mut seen: BTreeSet<&String> = BTreeSet::new();
                        let mut todo: Vec<&String> = edges[start].iter().collect();
                        while let Some(x) = todo.pop() {
                            if x == start {
                                cyc = Some(start.clone());
                                break;
                            }
                            if seen.insert(x) {
                                if let Some(es) = edges.get(x) {
                                    todo.extend(es.iter());
                                }
                            }
                        }
                        if cyc.is_some() {
                            break;
                        }
                    }
                    local.count("recursion_shapes_judged", 1);
                    local.count(&format!("recursion_shapes_judged[{} modules]", srcs.len()), 1);
                    if generated.contains("Box <") || generated.contains("Box<") {
                        local.count("recursion_shapes_with_a_box", 1);
                    }
                    local.nontrivial.insert(hash_str(&srcs.concat()));
                    if let Some(c) = cyc {
                        let repeated = shape.iter().any(|s| shape.iter().filter(|x| x.split(':').next() == s.split(':').next()).count() > 1);
                        local.violations.push(Violation {
                            sig: format!("c02|recursion-not-boxed|reference-graph|{}", if repeated { "a-type-referenced-more-than-once" } else { "single-references" }),
                            what: format!("the generated item `{c}` contains itself by value (edges {}): {}", shape.join(" "), one_line(&srcs.concat(), 300)),
                            replay: serde_json::json!({"family": "recursion-shape", "seed": seed, "index": i, "sources": srcs}),
                        });
                    }
                }
            }
            comp::Outcome::Ok { .. } => local.count("recursion_shapes[warnings]", 1),
            _ => local.count("recursion_shapes[not Ok]", 1),
        }
        acc.with(|r| r.merge(local));
    });
    rep.merge(acc.into_inner());
}

/// Components that are collections *with a DEFAULT* (grammar G gives collections OPTIONAL or nothing): the field keeps the
/// collection kind of the source. Exhaustive over {SET OF, SEQUENCE OF} x {plain, SIZE-constrained} x element {INTEGER, BOOLEAN,
/// reference} x default {empty list, two elements} x {SEQUENCE, SET} x {top-level, nested} x tagging default.
fn c02_collection_defaults(rep: &mut Report) {
    use crate::comp;
    for tagging in ["AUTOMATIC TAGS", "IMPLICIT TAGS"] {
        for outer in ["SEQUENCE", "SET"] {
            for (ki, kind) in ["SET", "SEQUENCE"].iter().enumerate() {
                for size in ["", " (SIZE (0..3))"] {
                    for (elem, vals) in [("INTEGER", "1, 2"), ("BOOLEAN", "TRUE, FALSE"), ("Eq9", "5, 6")] {
                        for dv in ["", vals] {
                            for nested in [false, true] {
                                let comp_ty = format!("{kind}{size} OF {elem} DEFAULT {{ {dv} }}");
                                let body = if nested { format!("{outer} {{ wq1 [0] {outer} {{ fq1 [0] {comp_ty}, fq2 [1] NULL }}, wq2 [1] BOOLEAN }}") } else { format!("{outer} {{ fq1 [0] {comp_ty}, fq2 [1] NULL }}") };
                                let src = format!("Mq1 DEFINITIONS {tagging} ::= BEGIN\nEq9 ::= INTEGER (0..9)\nTq1 ::= {body}\nEND\n");
                                let run = comp::rasn1(&src);
                                rep.evaluations += 1;
                                let comp::Outcome::Ok { generated, .. } = &run.out else {
                                    rep.count("collection_default_cases[not Ok]", 1);
                                    continue;
                                };
                                let Ok(mods) = crate::proj::project(generated) else { continue };
                                let m = &mods[0];
                                let owner = if nested { "Tq1Wq1" } else { "Tq1" };
                                let Some(crate::proj::Kind::Struct { fields, .. }) = m.find(owner).map(|i| &i.kind) else {
                                    rep.count("collection_default_cases[owner absent]", 1);
                                    continue;
                                };
                                let Some(f) = fields.iter().find(|f| f.name == "fq1") else { continue };
                                rep.count("type_tokens_compared", 1);
                                rep.count("collection_default_fields_compared", 1);
                                rep.nontrivial.insert(hash_str(&src));
                                // the field's own type, or the delegate it names
                                let mut ty = f.ty.clone();
                                if let Some(crate::proj::Kind::Struct { fields: hf, tuple: true }) = m.find(&ty).map(|i| &i.kind) {
                                    if let Some(x) = hf.first() {
                                        ty = x.ty.clone();
                                    }
                                }
                                let want = if ki == 0 { "SetOf<" } else { "SequenceOf<" };
                                if !ty.starts_with(want) {
                                    rep.violations.push(Violation {
                                        sig: format!("c02|set-of-marker|collection-with-default|want_set={}", ki == 0),
                                        what: format!("component `fq1 {comp_ty}` is declared `{}` (resolved `{ty}`), expected {want}..>", f.ty),
                                        replay: serde_json::json!({"origin": "collection-defaults", "asn1": src}),
                                    });
                                }
                            }
                        }
                    }
                }
            }
        }
    }
}

// ------------------------------------------------------------------------------------------------ C05
fn comp(name: &str, opt: bool) -> Comp {
    Comp { name: name.into(), ty: Ty::plain(TyKind::Boolean), opt: if opt { Optionality::Optional } else { Optionality::Required } }
}

/// Enumerated extensible shapes. `adds`: sequence over 0=component, 1=group(1), 2=group(1,versioned), 3=group(2), 4=group(2,versioned)
/// `variant`: 0 plain; 1 / 2 = a second `...` followed by one / two further root components; 3 / 4 = the definition carries
/// its own inner type constraint naming the second root component ABSENT / PRESENT (SEQUENCE and SET only)
fn c05_shape(kind: u8, n_root: usize, adds: Option<&[u8]>, nested: bool, implied: bool, tagging: Tagging, variant: u8) -> ModuleSet {
    let mut serial = 0;
    let mut id = |p: &str| {
        serial += 1;
        format!("{p}q{serial}")
    };
    let prefix = if kind == 2 { "c" } else { "f" };
    let ty = if kind == 3 {
        // addition code 1 = addition with an explicit number *below* the root maximum (the last root item then carries an
        // explicit number that leaves a gap, like X.680's own example `{a, b(3), ..., c(1)}`); explicit additions come
        // first and ascend, identifier-only additions follow (X.680 20.4 / 20.6 keep that legal)
        let n = n_root.max(1);
        let gap = adds.is_some_and(|a| a.contains(&1)) && n >= 2;
        let root: Vec<(String, Option<i64>)> = (0..n).map(|i| (id("e"), if gap && i + 1 == n { Some(n as i64 + 3) } else { None })).collect();
        let mut next_explicit = n as i64 - 1;
        let ext = adds.map(|a| {
            a.iter()
                .map(|k| {
                    if *k == 1 && gap {
                        next_explicit += 1;
                        (id("e"), Some(next_explicit - 1))
                    } else {
                        (id("e"), None)
                    }
                })
                .collect()
        });
        Ty::plain(TyKind::Enumerated(EnumT { root, ext }))
    } else {
        let root: Vec<Comp> = (0..n_root.max(if kind == 2 { 1 } else { 0 })).map(|i| comp(&id(prefix), kind != 2 && i % 2 == 1)).collect();
        let ext = adds.map(|a| {
            a.iter()
                .enumerate()
                .map(|(i, k)| match (kind, k) {
                    (2, _) | (_, 0) => Addition::Comp(comp(&id(prefix), false)),
                    (_, g) => {
                        let n = if *g >= 3 { 2 } else { 1 };
                        Addition::Group { version: if g % 2 == 0 { Some(2 + i as u32) } else { None }, comps: (0..n).map(|j| comp(&id(prefix), j == 1)).collect() }
                    }
                })
                .collect()
        });
        let root2: Vec<Comp> = if kind <= 1 && ext.is_some() { (0..match variant { 1 => 1, 2 => 2, _ => 0 }).map(|j| comp(&id(prefix), j == 1)).collect() } else { vec![] };
        let inner = if kind <= 1 && variant >= 3 && root.len() >= 2 { Some(Constraint::Inner { comps: vec![(root[1].name.clone(), variant == 4)] }) } else { None };
        let mut s = Struct { root, ext, root2 };
        if tagging != Tagging::Automatic {
            // distinct context tags keep SET / CHOICE / OPTIONAL runs legal outside AUTOMATIC TAGS
            let mut n = 0;
            let mut tag = |c: &mut Comp| {
                c.ty.tag = Some(Tag { class: TagClass::Context, num: n, mode: TagMode::NoKeyword });
                n += 1;
            };
            s.root.iter_mut().for_each(&mut tag);
            if let Some(adds) = s.ext.as_mut() {
                for a in adds {
                    match a {
                        Addition::Comp(c) => tag(c),
                        Addition::Group { comps, .. } => comps.iter_mut().for_each(&mut tag),
                    }
                }
            }
        }
        Ty {
            constraint: inner,
            ..Ty::plain(match kind {
                0 => TyKind::Sequence(s),
                1 => TyKind::Set(s),
                _ => TyKind::Choice(s),
            })
        }
    };
    let top = if nested {
        let mut outer = Comp { name: "fq900".into(), ty, opt: Optionality::Required };
        if tagging != Tagging::Automatic {
            outer.ty.tag = Some(Tag { class: TagClass::Context, num: 0, mode: if matches!(outer.ty.kind, TyKind::Choice(_)) { TagMode::Explicit } else { TagMode::NoKeyword } });
        }
        Ty::plain(TyKind::Sequence(Struct { root: vec![outer], ext: None, root2: vec![] }))
    } else {
        ty
    };
    ModuleSet { modules: vec![MModule { name: "Mq1".into(), tagging, ext_implied: implied, imports: vec![], assigns: vec![Assign::Type { name: "Tq1".into(), ty: top }], oid: None }] }
}

fn c05_space(max_root: usize, max_adds: usize) -> Vec<(String, ModuleSet)> {
    fn seqs(len: usize, alpha: u8) -> Vec<Vec<u8>> {
        let mut out = vec![vec![]];
        for _ in 0..len {
            let mut n = vec![];
            for s in &out {
                for a in 0..alpha {
                    let mut t = s.clone();
                    t.push(a);
                    n.push(t);
                }
            }
            out = n;
        }
        out
    }
    let mut v = vec![];
    for kind in 0..4u8 {
        let alpha = if kind <= 1 { 5 } else if kind == 3 { 2 } else { 1 };
        for n_root in 0..=max_root {
            let mut addss: Vec<Option<Vec<u8>>> = vec![None];
            for l in 0..=max_adds {
                addss.extend(seqs(l, alpha).into_iter().map(Some));
            }
            for adds in &addss {
                // ENUMERATED: explicitly numbered additions only as a prefix of the additions (keeps the input legal)
                if kind == 3 && adds.as_ref().is_some_and(|a| a.windows(2).any(|w| w[0] == 0 && w[1] == 1)) {
                    continue;
                }
                for nested in [false, true] {
                    for implied in [false, true] {
                        for tagging in [Tagging::Automatic, Tagging::Explicit] {
                            // tagging variant only for a slice of the space (it does not interact with extensibility)
                            if tagging == Tagging::Explicit && (n_root + adds.as_ref().map_or(0, |a| a.len())) % 3 != 0 {
                                continue;
                            }
                            let key = format!("E(kind={kind},root={n_root},adds={adds:?},nested={nested},implied={implied},tagging={tagging:?})");
                            v.push((key, c05_shape(kind, n_root, adds.as_deref(), nested, implied, tagging, 0)));
                            // end marker / inner type constraint variants: SEQUENCE and SET with a marker and <= 2 additions
                            if kind <= 1 && !implied && tagging == Tagging::Automatic && adds.as_ref().is_some_and(|a| a.len() <= 2) {
                                for variant in 1..=4u8 {
                                    if variant >= 3 && n_root < 2 {
                                        continue;
                                    }
                                    let key = format!("E(kind={kind},root={n_root},adds={adds:?},nested={nested},implied={implied},tagging={tagging:?},variant={variant})");
                                    v.push((key, c05_shape(kind, n_root, adds.as_deref(), nested, implied, tagging, variant)));
                                }
                            }
                        }
                    }
                }
            }
        }
    }
    v
}

fn parse_c05_origin(o: &str) -> Option<ModuleSet> {
    let rest = o.strip_prefix("E(kind=")?;
    let num = |s: &str, key: &str| -> Option<usize> { s.split(key).nth(1)?.split(|c: char| !c.is_ascii_digit()).next()?.parse().ok() };
    let kind: u8 = rest.split(',').next()?.parse().ok()?;
    let n_root = num(o, "root=")?;
    let adds: Option<Vec<u8>> = if o.contains("adds=None") {
        None
    } else {
        let inner = o.split("adds=Some([").nth(1)?.split("])").next()?;
        Some(inner.split(',').filter_map(|x| x.trim().parse().ok()).collect())
    };
    let nested = o.contains("nested=true");
    let implied = o.contains("implied=true");
    let tagging = if o.contains("tagging=Explicit") { Tagging::Explicit } else { Tagging::Automatic };
    let variant = num(o, "variant=").unwrap_or(0) as u8;
    Some(c05_shape(kind, n_root, adds.as_deref(), nested, implied, tagging, variant))
}

pub fn run_c05(ctx: &Ctx) -> Report {
    let mut rep = Report::new(
        "fault_enumeration",
        "EXHAUSTIVE shape space: kind in {SEQUENCE, SET, CHOICE, ENUMERATED} x 0..R root members x {no marker, marker followed by every sequence of <= A additions over {component, [[c]], [[v: c]], [[c,c]], [[v: c,c]]} (CHOICE/ENUMERATED: components only)} x {top-level, nested once} x EXTENSIBILITY IMPLIED on/off (R=3,A=3 quick; R=4,A=4 thorough), a third of it also under EXPLICIT TAGS; plus random grammar-G sets to depth 4. Oracle: #[non_exhaustive] iff marker or EXTENSIBILITY IMPLIED; extension_addition exactly on the single additions; each [[ ]] group = one extension_addition_group member of type Option<struct> whose struct has exactly the grouped components in order (CHOICE: flattened additions); ENUMERATED additions marked. Non-trivial = warning-free Ok compilation judged; distinct by model hash.",
    );
    rep.must_observe = vec!["extensibility_flags_compared".into(), "extension_groups_checked".into(), "members_compared".into(), "extensibility_flags_compared[with COMPONENTS OF]".into()];
    rep.assumptions = vec!["reference model in oracle.rs".into()];
    if ctx.replay.is_some() {
        return cmodel::replay(ctx, "C05", &|salt| if salt == 501 { g_opts_c05_class_fields() } else { g_opts_types() }, &parse_c05_origin, rep);
    }
    let (r, a) = ctx.pick((3, 3), (4, 4));
    let space = c05_space(r, a);
    rep.exhaustive = Some(true);
    rep.extra.insert("enumerated_shapes".into(), serde_json::json!(space.len()));
    let acc = Acc::new(rep);
    let shrunk: Mutex<std::collections::BTreeSet<String>> = Mutex::new(Default::default());
    par_for(space.len() as u64, |i| {
        let (key, set) = &space[i as usize];
        let mut local = Report::default();
        cmodel::check_one(set, "C05", key, &shrunk, &mut local);
        acc.with(|r| r.merge(local));
    });
    let rep = acc.into_inner();
    let n = ctx.pick(3_000u64, 60_000);
    let rep = cmodel::run_random(ctx, "C05", 500, n, &g_opts_types(), rep);
    // second stream: components typed by fixed-type class fields (`CQ.&id`) next to markers, additions and groups - the linker
    // rebuilds such types when it resolves the class reference
    let mut rep = cmodel::run_random(ctx, "C05", 501, n / 2, &g_opts_c05_class_fields(), rep);
    c05_components_of(&mut rep);
    rep
}

/// Extensibility of types whose member list contains COMPONENTS OF clauses (grammar G does not spell them; how the copied
/// members are *placed and marked* is C09's subject and a listed finding there). Judged here: `#[non_exhaustive]` iff the type
/// itself has a marker (or the module says EXTENSIBILITY IMPLIED) - the lexer's first-extension index counts COMPONENTS OF
/// clauses, the member list does not contain them, and everything that derives "extensible" from the two must agree.
/// Exhaustive over {SEQUENCE, SET} x own members before 0..1 x clauses 1..2 x marker x additions 0..2 x {top-level, nested}
/// x EXTENSIBILITY IMPLIED.
fn c05_components_of(rep: &mut Report) {
    use crate::comp;
    for implied in [false, true] {
        for kw in ["SEQUENCE", "SET"] {
            for own in 0..2usize {
                for clauses in 1..3usize {
                    for marker in [false, true] {
                        for adds in 0..3usize {
                            if !marker && adds > 0 {
                                continue;
                            }
                            for nested in [false, true] {
                                let mut members: Vec<String> = vec![];
                                if own == 1 {
                                    members.push("fq0 NULL".into());
                                }
                                for c in 0..clauses {
                                    members.push(format!("COMPONENTS OF Bq{c}"));
                                }
                                if marker {
                                    members.push("...".into());
                                }
                                for a in 0..adds {
                                    members.push(format!("aq{a} BOOLEAN"));
                                }
                                let body = format!("{kw} {{ {} }}", members.join(", "));
                                let target = if nested { format!("{kw} {{ wq1 {body}, wq2 NULL }}") } else { body.clone() };
                                let src = format!(
                                    "Mq1 DEFINITIONS AUTOMATIC TAGS{} ::= BEGIN\nBq0 ::= {kw} {{ xq0 INTEGER, yq0 BOOLEAN }}\nBq1 ::= {kw} {{ xq1 OCTET STRING }}\nTq1 ::= {target}\nEND\n",
                                    if implied { " EXTENSIBILITY IMPLIED" } else { "" }
                                );
                                let run = comp::rasn1(&src);
                                rep.evaluations += 1;
                                let comp::Outcome::Ok { generated, .. } = &run.out else {
                                    rep.count("components_of_cases[not Ok]", 1);
                                    continue;
                                };
                                let Ok(mods) = crate::proj::project(generated) else { continue };
                                let item = if nested { "Tq1Wq1" } else { "Tq1" };
                                let Some(it) = mods[0].find(item) else {
                                    rep.count("components_of_cases[item absent]", 1);
                                    continue;
                                };
                                rep.count("extensibility_flags_compared", 1);
                                rep.count("extensibility_flags_compared[with COMPONENTS OF]", 1);
                                rep.nontrivial.insert(hash_str(&src));
                                let want = marker || implied;
                                if it.attrs.non_exhaustive != want {
                                    rep.violations.push(Violation {
                                        sig: format!("c05|non-exhaustive-{}|components-of|kind={kw},marker={marker},implied={implied},toplevel={}", if want { "missing" } else { "unexpected" }, !nested),
                                        what: format!("`{body}`: #[non_exhaustive] = {}, expected {want} ({} clauses, {adds} additions)", it.attrs.non_exhaustive, clauses),
                                        replay: serde_json::json!({"origin": "components-of-extensibility", "asn1": src}),
                                    });
                                }
                            }
                        }
                    }
                }
            }
        }
    }
}

// ------------------------------------------------------------------------------------------------ C03
const C03_POS: [&str; 7] = ["assignment", "sequence-component", "set-component", "choice-alternative", "nested-component", "sequence-of-element", "set-of-element"];
const C03_KIND: [&str; 7] = ["primitive", "referenced-sequence", "referenced-choice", "inline-choice", "open-type", "fixed-type-class-field-integer", "fixed-type-class-field-boolean"];

fn c03_point(tagging: Tagging, mode: TagMode, class: TagClass, pos: usize, kind: usize) -> Option<ModuleSet> {
    let tagged_kind = match kind {
        0 => TyKind::Integer { named: vec![] },
        1 => TyKind::Ref { module: None, name: "Tq91".into() },
        2 => TyKind::Ref { module: None, name: "Tq92".into() },
        3 => TyKind::Choice(Struct {
            root: vec![
                Comp { name: "cq71".into(), ty: Ty { tag: Some(Tag { class: TagClass::Context, num: 0, mode: TagMode::NoKeyword }), ..Ty::plain(TyKind::Boolean) }, opt: Optionality::Required },
                Comp { name: "cq72".into(), ty: Ty { tag: Some(Tag { class: TagClass::Context, num: 1, mode: TagMode::NoKeyword }), ..Ty::plain(TyKind::Null) }, opt: Optionality::Required },
            ],
            ext: None,
            root2: vec![],
        }),
        4 => TyKind::Any,
        // a fixed-type value field of a class is just that type (X.681 14): tagged like a primitive
        5 => TyKind::ClassField { class: "CLSQ1".into(), field: "id".into() },
        _ => TyKind::ClassField { class: "CLSQ1".into(), field: "flag".into() },
    };
    // an IMPLICIT keyword on an untagged CHOICE / open type is illegal ASN.1 (X.680 31.2.7 c)
    if mode == TagMode::Implicit && (2..=4).contains(&kind) {
        return None;
    }
    let num = match class {
        TagClass::Universal => 29, // an unassigned-looking universal number; legal notation
        _ => 5,
    };
    let t = Ty { tag: Some(Tag { class, num, mode }), ..Ty::plain(tagged_kind) };
    let other = |n: u32| Comp { name: format!("fq8{n}"), ty: Ty { tag: Some(Tag { class: TagClass::Context, num: 20 + n, mode: TagMode::NoKeyword }), ..Ty::plain(TyKind::Boolean) }, opt: Optionality::Required };
    let c = |name: &str| Comp { name: name.into(), ty: t.clone(), opt: Optionality::Required };
    let top = match pos {
        0 => t.clone(),
        1 => Ty::plain(TyKind::Sequence(Struct { root: vec![c("fq1"), other(1)], ext: None, root2: vec![] })),
        2 => Ty::plain(TyKind::Set(Struct { root: vec![c("fq1"), other(1)], ext: None, root2: vec![] })),
        3 => Ty::plain(TyKind::Choice(Struct { root: vec![c("cq1"), { let mut o = other(1); o.name = "cq81".into(); o }], ext: None, root2: vec![] })),
        4 => {
            let inner = Ty { tag: Some(Tag { class: TagClass::Context, num: 30, mode: TagMode::NoKeyword }), ..Ty::plain(TyKind::Sequence(Struct { root: vec![c("fq1"), other(1)], ext: None, root2: vec![] })) };
            Ty::plain(TyKind::Sequence(Struct { root: vec![Comp { name: "fq0".into(), ty: inner, opt: Optionality::Required }, other(2)], ext: None, root2: vec![] }))
        }
        5 => Ty::plain(TyKind::SeqOf(Box::new(t.clone()))),
        _ => Ty::plain(TyKind::SetOf(Box::new(t.clone()))),
    };
    let seq = Ty::plain(TyKind::Sequence(Struct { root: vec![Comp { name: "fq95".into(), ty: Ty { tag: Some(Tag { class: TagClass::Context, num: 0, mode: TagMode::NoKeyword }), ..Ty::plain(TyKind::Boolean) }, opt: Optionality::Required }], ext: None, root2: vec![] }));
    let ch = Ty::plain(TyKind::Choice(Struct {
        root: vec![
            Comp { name: "cq96".into(), ty: Ty { tag: Some(Tag { class: TagClass::Context, num: 0, mode: TagMode::NoKeyword }), ..Ty::plain(TyKind::Boolean) }, opt: Optionality::Required },
            Comp { name: "cq97".into(), ty: Ty { tag: Some(Tag { class: TagClass::Context, num: 1, mode: TagMode::NoKeyword }), ..Ty::plain(TyKind::Null) }, opt: Optionality::Required },
        ],
        ext: None,
        root2: vec![],
    }));
    Some(ModuleSet {
        modules: vec![MModule {
            name: "Mq1".into(),
            tagging,
            ext_implied: false,
            imports: vec![],
            assigns: {
                let mut a = vec![Assign::Type { name: "Tq91".into(), ty: seq }, Assign::Type { name: "Tq92".into(), ty: ch }, Assign::Type { name: "Tq1".into(), ty: top }];
                if kind >= 5 {
                    a.push(Assign::Raw { name: "CLSQ1".into(), tokens: "CLSQ1 ::= CLASS { &id INTEGER UNIQUE , &flag BOOLEAN OPTIONAL , &Type OPTIONAL } WITH SYNTAX { ID &id [ FLAG &flag ] [ TYPE &Type ] }".split(' ').map(|x| x.to_string()).collect() });
                }
                a
            },
            oid: None,
        }],
    })
}

/// automatic-tagging sub-space: module default x {none, one, all} components tagged x {SEQUENCE, SET, CHOICE} x nested
fn c03_auto_point(tagging: Tagging, tagged: usize, kind: usize, nested: bool) -> ModuleSet {
    let mk = |i: u32, pre: &str| {
        let tag = match tagged {
            0 => None,
            1 => {
                if i == 1 {
                    Some(Tag { class: TagClass::Context, num: 7, mode: TagMode::NoKeyword })
                } else {
                    None
                }
            }
            _ => Some(Tag { class: TagClass::Context, num: i, mode: TagMode::NoKeyword }),
        };
        // distinct types so that an untagged SET/CHOICE stays legal
        let k = match i {
            0 => TyKind::Boolean,
            1 => TyKind::Integer { named: vec![] },
            _ => TyKind::OctetString,
        };
        Comp { name: format!("{pre}q{i}"), ty: Ty { tag, ..Ty::plain(k) }, opt: Optionality::Required }
    };
    let pre = if kind == 2 { "c" } else { "f" };
    let s = Struct { root: vec![mk(0, pre), mk(1, pre), mk(2, pre)], ext: None, root2: vec![] };
    let ty = Ty::plain(match kind {
        0 => TyKind::Sequence(s),
        1 => TyKind::Set(s),
        _ => TyKind::Choice(s),
    });
    let top = if nested { Ty::plain(TyKind::Sequence(Struct { root: vec![Comp { name: "fq50".into(), ty, opt: Optionality::Required }], ext: None, root2: vec![] })) } else { ty };
    ModuleSet { modules: vec![MModule { name: "Mq1".into(), tagging, ext_implied: false, imports: vec![], assigns: vec![Assign::Type { name: "Tq1".into(), ty: top }], oid: None }] }
}

fn c03_space() -> Vec<(String, ModuleSet)> {
    let mut v = vec![];
    for (ti, tagging) in Tagging::all().iter().enumerate() {
        for (mi, mode) in [TagMode::NoKeyword, TagMode::Implicit, TagMode::Explicit].iter().enumerate() {
            for (ci, class) in [TagClass::Context, TagClass::Application, TagClass::Private, TagClass::Universal].iter().enumerate() {
                for pos in 0..7 {
                    for kind in 0..7 {
                        if let Some(s) = c03_point(*tagging, *mode, *class, pos, kind) {
                            v.push((format!("P(default={ti},kw={mi},class={ci},pos={pos},kind={kind}) {:?}/{:?}/{:?}/{}/{}", tagging, mode, class, C03_POS[pos], C03_KIND[kind]), s));
                        }
                    }
                }
            }
        }
        for tagged in 0..3 {
            for kind in 0..3 {
                for nested in [false, true] {
                    // an untagged SET / CHOICE outside AUTOMATIC TAGS relies on distinct universal tags (legal: BOOLEAN, INTEGER, OCTET STRING)
                    v.push((format!("A(default={ti},tagged={tagged},kind={kind},nested={nested})"), c03_auto_point(*tagging, tagged, kind, nested)));
                }
            }
        }
    }
    v
}

fn parse_c03_origin(o: &str) -> Option<ModuleSet> {
    let nums: Vec<usize> = o.split(')').next()?.split(|c: char| !c.is_ascii_digit()).filter(|s| !s.is_empty()).filter_map(|s| s.parse().ok()).collect();
    if o.starts_with("P(") && nums.len() == 5 {
        let tagging = Tagging::all()[nums[0]];
        let mode = [TagMode::NoKeyword, TagMode::Implicit, TagMode::Explicit][nums[1]];
        let class = [TagClass::Context, TagClass::Application, TagClass::Private, TagClass::Universal][nums[2]];
        c03_point(tagging, mode, class, nums[3], nums[4])
    } else if o.starts_with("A(") && nums.len() >= 3 {
        Some(c03_auto_point(Tagging::all()[nums[0]], nums[1], nums[2], o.contains("nested=true")))
    } else {
        None
    }
}

/// Notation grammar G does not spell: members that reach a type through COMPONENTS OF or through the instantiation of a
/// parameterized type, within one module and across modules with other tagging defaults. Exhaustive over defining default x
/// using default x {same module, other module} x {COMPONENTS OF, instantiation} x {SEQUENCE, SET} x {members tagged, untagged}.
/// Oracle: a keyword-less tag is explicit iff the module it is *written in* says EXPLICIT TAGS (X.680 31.2.7; the linker's copy
/// does not change that); `automatic_tags` iff the including type is in an AUTOMATIC TAGS module and none of its own textual
/// components is tagged (X.680 25.8: decided before the COMPONENTS OF transformation).
/// Referenced types whose names begin with the letters of a tag keyword (`IMPLICITData`, `EXPLICIT-info`): `[0] IMPLICITData`
/// is a keyword-less tag on a reference to that type, not `[0] IMPLICIT Data`. Exhaustive over tagging default x {SEQUENCE, SET,
/// CHOICE} x four such names x {a shorter type named like the rest exists, does not exist}. Judged: the member's type is the
/// referenced type, and the tag is explicit iff the module says EXPLICIT TAGS (the referenced types are not CHOICEs).
fn c03_keyword_prefixed_names(rep: &mut Report) {
    use crate::comp;
    use crate::proj::Kind;
    for (da, explicit_default) in [("EXPLICIT TAGS", true), ("IMPLICIT TAGS", false), ("AUTOMATIC TAGS", false)] {
        for kw in ["SEQUENCE", "SET", "CHOICE"] {
            for (n1, n2) in [("IMPLICITData", "EXPLICITData"), ("EXPLICITinfo", "IMPLICIT-x")] {
                for decoy in [false, true] {
                    let rest = |n: &str| n.trim_start_matches("IMPLICIT").trim_start_matches("EXPLICIT").trim_start_matches('-').to_string();
                    let mut src = format!("Mk DEFINITIONS {da} ::= BEGIN\n{n1} ::= BOOLEAN\n{n2} ::= OCTET STRING\n");
                    if decoy {
                        for r in [rest(n1), rest(n2)] {
                            if r.chars().next().is_some_and(|c| c.is_ascii_uppercase()) {
                                src.push_str(&format!("{r} ::= INTEGER\n"));
                            }
                        }
                    }
                    src.push_str(&format!("Sk ::= {kw} {{ a [0] {n1}, b [1] {n2} }}\nEND\n"));
                    let run = comp::rasn(&[src.clone()], &comp::Cfg::default_cfg());
                    rep.evaluations += 1;
                    let comp::Outcome::Ok { generated, warnings } = &run.out else {
                        rep.count("keyword_prefixed_name_cases[not Ok]", 1);
                        continue;
                    };
                    if !warnings.is_empty() {
                        rep.count("keyword_prefixed_name_cases[warnings]", 1);
                        continue;
                    }
                    let Ok(mods) = crate::proj::project(generated) else { continue };
                    let Some(it) = mods.iter().find_map(|m| m.find("Sk")) else { continue };
                    let members: Vec<(String, String, Option<crate::proj::Tag>)> = match &it.kind {
                        Kind::Struct { fields, .. } => fields.iter().map(|f| (f.name.clone(), f.ty.clone(), f.attrs.tag())).collect(),
                        Kind::Enum { variants } => variants.iter().map(|v| (v.name.clone(), v.payload.first().cloned().unwrap_or_default(), v.attrs.tag())).collect(),
                        _ => continue,
                    };
                    rep.count("keyword_prefixed_name_cases_judged", 1);
                    rep.nontrivial.insert(hash_str(&src));
                    let origin = format!("keyword-prefixed-names({da},{kw},{n1},{n2},decoy={decoy})");
                    for ((_, ty, tag), asn) in members.iter().zip([n1, n2]) {
                        rep.count("tag_modes_compared", 1);
                        let want_ty: String = asn.replace('-', "");
                        let norm = |x: &str| x.replace('_', "").to_lowercase();
                        if norm(ty) != norm(&want_ty) {
                            rep.violations.push(Violation {
                                sig: "c03|tag-keyword-read-out-of-a-type-name|member-type".into(),
                                what: format!("`[n] {asn}` must be a reference to the type `{asn}`; the member has type `{ty}` [{origin}]"),
                                replay: serde_json::json!({"origin": origin, "sources": [src.clone()]}),
                            });
                            continue;
                        }
                        match tag {
                            Some(t) if t.explicit == explicit_default => {}
                            got => rep.violations.push(Violation {
                                sig: format!("c03|tag-keyword-read-out-of-a-type-name|mode|default={}", da.split(' ').next().unwrap()),
                                what: format!("`[n] {asn}` carries no tag keyword: explicit={explicit_default} expected under {da}, emitted {got:?} [{origin}]"),
                                replay: serde_json::json!({"origin": origin, "sources": [src.clone()]}),
                            }),
                        }
                    }
                }
            }
        }
    }
}

/// Open types written as a type field of an information object class (`TYPE-IDENTIFIER.&Type`, `CQ.&Type`) under a tag: like
/// ANY they are always tagged explicitly (X.680 31.2.7 c). Exhaustive over tagging default x {no keyword, EXPLICIT} x two
/// classes x {SEQUENCE component, SET component, CHOICE alternative, type assignment}.
fn c03_open_type_fields(rep: &mut Report) {
    use crate::comp;
    use crate::proj::Kind;
    for da in ["EXPLICIT TAGS", "IMPLICIT TAGS", "AUTOMATIC TAGS"] {
        for kwd in ["", "EXPLICIT "] {
            for field in ["TYPE-IDENTIFIER.&Type", "CQ.&Type"] {
                let src = format!(
                    "Mo DEFINITIONS {da} ::= BEGIN\nCQ ::= CLASS {{ &id INTEGER UNIQUE, &Type }}\nSo ::= SEQUENCE {{ a [0] INTEGER, b [1] {kwd}{field} }}\nSt ::= SET {{ a [0] INTEGER, b [1] {kwd}{field} }}\nCo ::= CHOICE {{ a [0] INTEGER, b [1] {kwd}{field} }}\nTo ::= [5] {kwd}{field}\nEND\n"
                );
                let run = comp::rasn(&[src.clone()], &comp::Cfg::default_cfg());
                rep.evaluations += 1;
                let comp::Outcome::Ok { generated, warnings } = &run.out else {
                    rep.count("open_type_field_cases[not Ok]", 1);
                    continue;
                };
                let Ok(mods) = crate::proj::project(generated) else { continue };
                for (name, pos) in [("So", "sequence-component"), ("St", "set-component"), ("Co", "choice-alternative"), ("To", "type-assignment")] {
                    if warnings.iter().any(|w| w.contains(name)) {
                        continue;
                    }
                    let Some(it) = mods.iter().find_map(|m| m.find(name)) else { continue };
                    let tag = match &it.kind {
                        Kind::Struct { fields, tuple: false } => fields.iter().find(|f| f.name == "b").and_then(|f| f.attrs.tag()),
                        Kind::Enum { variants } => variants.iter().find(|v| v.name == "b").and_then(|v| v.attrs.tag()),
                        _ => it.attrs.tag(),
                    };
                    rep.count("tag_modes_compared", 1);
                    rep.count("open_type_field_tags_judged", 1);
                    rep.nontrivial.insert(hash_str(&format!("{src}|{name}")));
                    match tag {
                        Some(t) if t.explicit => {}
                        got => rep.violations.push(Violation {
                            sig: format!("c03|implicit-expected-explicit|open-type-class-field|{pos}|default={}", da.split(' ').next().unwrap()),
                            what: format!("{name}: `[n] {kwd}{field}` is a tagged open type and must be tagged explicitly ({da}), emitted {got:?}"),
                            replay: serde_json::json!({"origin": format!("open-type-fields({da},{kwd},{field})"), "sources": [src.clone()]}),
                        }),
                    }
                }
            }
        }
    }
}

/// Two shapes reported in the ninth round. (1) A tag on a *reference* to an open type (`U ::= ANY  T ::= [0] U`): like a tag on
/// ANY itself it must be explicit (X.680 31.2.7 c speaks of the type, not of its spelling). (2) Tags inside the actual
/// parameter of an instantiation are written in the instantiating module and take its default (keyword-less tag in an
/// EXPLICIT TAGS module = explicit).
fn c03_ninth_round(rep: &mut Report) {
    use crate::comp;
    use crate::proj::Kind;
    for da in ["EXPLICIT TAGS", "IMPLICIT TAGS", "AUTOMATIC TAGS"] {
        let src = format!("Mr DEFINITIONS {da} ::= BEGIN\nUr ::= ANY\nTr ::= [0] Ur\nSr ::= SEQUENCE {{ x [0] INTEGER, y [1] Ur }}\nPr {{ Xp }} ::= SEQUENCE {{ a [0] INTEGER, b [1] Xp }}\nIr ::= Pr {{ SEQUENCE {{ z [3] INTEGER, w [4] BOOLEAN }} }}\nEND\n");
        let run = comp::rasn(&[src.clone()], &comp::Cfg::default_cfg());
        rep.evaluations += 1;
        let comp::Outcome::Ok { generated, warnings } = &run.out else {
            rep.count("ninth_round_tag_cases[not Ok]", 1);
            continue;
        };
        let Ok(mods) = crate::proj::project(generated) else { continue };
        let d = da.split(' ').next().unwrap();
        let field_tag = |item: &str, field: &str| -> Option<Option<crate::proj::Tag>> {
            let it = mods.iter().find_map(|m| m.find(item))?;
            match &it.kind {
                Kind::Struct { fields, tuple: false } => fields.iter().find(|f| f.name == field).map(|f| f.attrs.tag()),
                _ => None,
            }
        };
        rep.nontrivial.insert(hash_str(&src));
        // (1)
        if !warnings.iter().any(|w| w.contains("Tr") || w.contains("Sr")) {
            let mut judge = |name: &str, got: Option<crate::proj::Tag>| {
                rep.count("tag_modes_compared", 1);
                rep.count("ninth_round_tags_judged", 1);
                if !matches!(&got, Some(t) if t.explicit) {
                    rep.violations.push(Violation { sig: format!("c03|implicit-expected-explicit|reference-to-an-open-type|default={d}"), what: format!("{name}: a tag on a reference to `Ur ::= ANY` must be explicit ({da}), emitted {got:?}"), replay: serde_json::json!({"origin": format!("ninth-round({da})"), "sources": [src.clone()]}) });
                }
            };
            if let Some(it) = mods.iter().find_map(|m| m.find("Tr")) {
                judge("Tr", it.attrs.tag());
            }
            if let Some(t) = field_tag("Sr", "y") {
                judge("Sr.y", t);
            }
        }
        // (2): the hoisted actual parameter `IrB { z, w }`
        if !warnings.iter().any(|w| w.contains("Ir")) {
            if let Some(it) = mods.iter().find_map(|m| m.items.iter().find(|i| matches!(&i.kind, Kind::Struct { fields, tuple: false } if fields.iter().any(|f| f.name == "z")))) {
                if let Kind::Struct { fields, .. } = &it.kind {
                    for f in fields.iter().filter(|f| f.name == "z" || f.name == "w") {
                        rep.count("tag_modes_compared", 1);
                        rep.count("ninth_round_tags_judged", 1);
                        let want = da == "EXPLICIT TAGS";
                        if !matches!(f.attrs.tag(), Some(t) if t.explicit == want) {
                            rep.violations.push(Violation { sig: format!("c03|tag-mode|tag-inside-an-actual-parameter|default={d}"), what: format!("{}.{}: a keyword-less tag inside the actual parameter of `Pr {{ .. }}` takes the default of the module it is written in ({da}: explicit={want}), emitted {:?}", it.name, f.name, f.attrs.tag()), replay: serde_json::json!({"origin": format!("ninth-round({da})"), "sources": [src.clone()]}) });
                        }
                    }
                }
            }
        }
    }
}

fn c03_copied_components(rep: &mut Report) {
    use crate::comp;
    // a tagged type assignment that only *becomes* a CHOICE while linking (instance of a parameterized CHOICE, selection of an
    // inline CHOICE alternative): a tagged CHOICE is always explicit (X.680 31.2.7 c)
    for da in ["EXPLICIT TAGS", "IMPLICIT TAGS", "AUTOMATIC TAGS"] {
        for kwd in ["", "EXPLICIT "] {
            let src = format!(
                "Mc DEFINITIONS {da} ::= BEGIN\nEither {{ Tp }} ::= CHOICE {{ some Tp, none NULL }}\nMaybeBool ::= [3] {kwd}Either {{ BOOLEAN }}\nWrapper ::= CHOICE {{ inner CHOICE {{ pa INTEGER, pb BOOLEAN }}, other NULL }}\nSelected ::= [5] {kwd}inner < Wrapper\nDirect ::= [4] {kwd}CHOICE {{ da INTEGER, db NULL }}\nEND\n"
            );
            let run = comp::rasn(&[src.clone()], &comp::Cfg::default_cfg());
            rep.evaluations += 1;
            let comp::Outcome::Ok { generated, warnings } = &run.out else {
                rep.count("late_choice_cases[not Ok]", 1);
                continue;
            };
            let Ok(mods) = crate::proj::project(generated) else { continue };
            for (name, how) in [("MaybeBool", "parameterized-choice-instance"), ("Selected", "selection-of-inline-choice"), ("Direct", "choice-written-directly")] {
                if warnings.iter().any(|w| w.contains(name)) {
                    continue;
                }
                let Some(it) = mods.iter().find_map(|m| m.find(name)) else { continue };
                if !matches!(it.kind, crate::proj::Kind::Enum { .. }) {
                    continue;
                }
                rep.count("tag_modes_compared", 1);
                rep.count("late_choice_tags_judged", 1);
                rep.nontrivial.insert(hash_str(&format!("{src}|{name}")));
                match it.attrs.tag() {
                    Some(t) if t.explicit => {}
                    got => rep.violations.push(Violation {
                        sig: format!("c03|implicit-expected-explicit|tagged-choice|{how}|default={}", da.split(' ').next().unwrap()),
                        what: format!("{name} is a tagged CHOICE ({how}) and must be tagged explicitly, emitted {got:?}"),
                        replay: serde_json::json!({"origin": format!("late-choice({da},{kwd})"), "sources": [src.clone()]}),
                    }),
                }
            }
        }
    }
    let defaults = [("EXPLICIT TAGS", "Explicit"), ("IMPLICIT TAGS", "Implicit"), ("AUTOMATIC TAGS", "Automatic")];
    for (da, na) in defaults {
        for (db, nb) in defaults {
            for same_module in [true, false] {
                if same_module && da != db {
                    continue;
                }
                for form in ["components-of", "instantiation"] {
                    for kw in ["SEQUENCE", "SET"] {
                        for tagged in [true, false] {
                            // untagged members outside AUTOMATIC TAGS would make the SET illegal; only SEQUENCE then
                            if !tagged && kw == "SET" && (na != "Automatic" || nb != "Automatic") {
                                continue;
                            }
                            let (t0, t1, t7) = if tagged { ("[0] ", "[1] ", "[7] ") } else { ("", "", "") };
                            let defs_a = format!("Base ::= {kw} {{ xa {t0}INTEGER, ya {t1}BOOLEAN OPTIONAL }}\nPar {{ Tp }} ::= {kw} {{ xa {t0}Tp, ya {t1}BOOLEAN OPTIONAL }}\n");
                            let def_b = match form {
                                "components-of" => format!("Copy ::= {kw} {{ zb {t7}NULL, COMPONENTS OF Base }}\n"),
                                _ => "Copy ::= Par { INTEGER }\n".to_string(),
                            };
                            let srcs = if same_module {
                                vec![format!("Ma DEFINITIONS {da} ::= BEGIN\n{defs_a}{def_b}END\n")]
                            } else {
                                vec![format!("Ma DEFINITIONS {da} ::= BEGIN\nEXPORTS ALL;\n{defs_a}END\n"), format!("Mb DEFINITIONS {db} ::= BEGIN\nIMPORTS Base, Par{{}} FROM Ma;\n{def_b}END\n")]
                            };
                            let run = comp::rasn(&srcs, &comp::Cfg::default_cfg());
                            rep.evaluations += 1;
                            let comp::Outcome::Ok { generated, warnings } = &run.out else {
                                rep.count("copied_component_cases[not Ok]", 1);
                                continue;
                            };
                            if !warnings.is_empty() {
                                rep.count("copied_component_cases[warnings]", 1);
                                continue;
                            }
                            let Ok(mods) = crate::proj::project(generated) else { continue };
                            let Some(copy) = mods.iter().find_map(|m| m.find("Copy")) else { continue };
                            let crate::proj::Kind::Struct { fields, .. } = &copy.kind else { continue };
                            rep.count("copied_component_cases_judged", 1);
                            rep.nontrivial.insert(hash_str(&srcs.join("|")));
                            let origin = format!("copied-components(defining={na},using={nb},same_module={same_module},{form},{kw},tagged={tagged})");
                            let using = if same_module { na } else { nb };
                            if tagged {
                                for f in fields.iter().filter(|f| f.name == "xa" || f.name == "ya") {
                                    rep.count("tag_modes_compared", 1);
                                    let want_explicit = na == "Explicit";
                                    match f.attrs.tag() {
                                        Some(t) if t.explicit == want_explicit => {}
                                        got => rep.violations.push(Violation {
                                            sig: format!("c03|copied-member-tag-mode|{form}|defining={na},using={using}"),
                                            what: format!("member {} written `[n] T` in a module with {da} and brought into Copy by {form}: expected explicit={want_explicit}, emitted {got:?} [{origin}]", f.name),
                                            replay: serde_json::json!({"origin": origin, "sources": srcs}),
                                        }),
                                    }
                                }
                            }
                            // automatic tagging of the including type itself
                            if form == "components-of" {
                                rep.count("automatic_tags_compared", 1);
                                let want_auto = using == "Automatic" && !tagged;
                                if copy.attrs.has("automatic_tags") != want_auto {
                                    rep.violations.push(Violation {
                                        sig: format!("c03|automatic-tags-{}|components-of|using={using},components-tagged={tagged}", if want_auto { "missing" } else { "unexpected" }),
                                        what: format!("Copy ::= {kw} {{ zb .., COMPONENTS OF Base }} in a module with {}: automatic_tags={} [{origin}]", if same_module { da } else { db }, copy.attrs.has("automatic_tags")),
                                        replay: serde_json::json!({"origin": origin, "sources": srcs}),
                                    });
                                }
                            }
                        }
                    }
                }
            }
        }
    }
}

pub fn run_c03(ctx: &Ctx) -> Report {
    let mut rep = Report::new(
        "fault_enumeration",
        "EXHAUSTIVE product space of the property: module default {EXPLICIT, IMPLICIT, AUTOMATIC, none} x keyword {none, IMPLICIT, EXPLICIT} x class {context, APPLICATION, PRIVATE, UNIVERSAL} x position {type assignment, SEQUENCE component, SET component, CHOICE alternative, component of an anonymous nested type, SEQUENCE OF element, SET OF element} x tagged kind {primitive, referenced SEQUENCE, referenced CHOICE, inline CHOICE, open type, fixed-type class field (INTEGER, BOOLEAN)} (IMPLICIT keyword on CHOICE/open type is illegal and skipped) plus the automatic-tagging sub-space {default} x {no / one / all components tagged} x {SEQUENCE, SET, CHOICE} x {top-level, nested}; plus random grammar-G compositions. Oracle (attribute level): class and number equal the source tag; explicit iff EXPLICIT keyword, or no keyword under EXPLICIT/no TAGS clause, or tagged CHOICE/open type (for CHOICE-typed components the marking is not observable and not judged); automatic_tags iff AUTOMATIC TAGS and no own component tagged. Non-trivial = warning-free Ok compilation judged; distinct by model hash.",
    );
    rep.must_observe = vec!["tags_compared".into(), "tag_modes_compared".into(), "automatic_tags_compared".into()];
    rep.assumptions = vec!["X.680 31.2.7 as implemented in oracle.rs::check_tag".into(), "DER-level observation (O6) is not part of this revision; attribute level only".into()];
    if ctx.replay.is_some() {
        return cmodel::replay(ctx, "C03", &|_| g_opts_types(), &parse_c03_origin, rep);
    }
    let space = c03_space();
    rep.exhaustive = Some(true);
    rep.extra.insert("enumerated_points".into(), serde_json::json!(space.len()));
    let acc = Acc::new(rep);
    let shrunk: Mutex<std::collections::BTreeSet<String>> = Mutex::new(Default::default());
    par_for(space.len() as u64, |i| {
        let (key, set) = &space[i as usize];
        let mut local = Report::default();
        cmodel::check_one(set, "C03", key, &shrunk, &mut local);
        acc.with(|r| r.merge(local));
    });
    let rep = acc.into_inner();
    let n = ctx.pick(3_000u64, 60_000);
    let mut rep = cmodel::run_random(ctx, "C03", 300, n, &g_opts_types(), rep);
    c03_copied_components(&mut rep);
    c03_keyword_prefixed_names(&mut rep);
    c03_open_type_fields(&mut rep);
    c03_ninth_round(&mut rep);
    // DER level (O6): the generated bindings decode model-made DER bytes of sample values and encode them back
    if std::env::var("VERIF_NO_DER").is_err() {
        crate::c03der::run(ctx, &mut rep);
    }
    rep
}

/// Sources and edge list (`from->to:how`) of recursion shape `i` (see `c02_recursion_shapes`); also type-checked by C01.
pub fn recursion_shape_sources(seed: u64, i: u64) -> (Vec<String>, Vec<String>) {
    use std::collections::BTreeSet;
    let mut rng = Rng::for_case(seed, 2021, i);
    let k = 2 + rng.below(2);
    let two_modules = rng.chance(1, 4);
    let module_of = |t: usize| if two_modules && t % 2 == 1 { "Mq2" } else { "Mq1" };
    let mut defs: Vec<Vec<String>> = vec![vec![], vec![]];
    let mut shape: Vec<String> = vec![];
    let mut aliases: BTreeSet<usize> = BTreeSet::new();
    let mut bodies: Vec<(usize, String)> = vec![];
    for t in 0..k {
        let kind = *rng.pick(&["SEQUENCE", "SEQUENCE", "SET", "CHOICE"]);
        let m = 1 + rng.below(3);
        let mut comps: Vec<String> = vec![];
        for c in 0..m {
            let j = rng.below(k);
            let opt = if kind == "CHOICE" { "" } else { " OPTIONAL" };
            let how = rng.below(8);
            let (ty, tag) = match how {
                0 => {
                    aliases.insert(j);
                    (format!("Alq{j}"), "alias")
                }
                1 => (format!("SEQUENCE {{ in{t}x{c} Tq{j} OPTIONAL }}"), "anonymous-sequence"),
                2 => (format!("CHOICE {{ in{t}x{c} Tq{j}, no{t}x{c} NULL }}"), "anonymous-choice"),
                3 => (format!("SEQUENCE OF Tq{j}"), "sequence-of"),
                _ => (format!("Tq{j}"), "direct"),
            };
            shape.push(format!("{t}->{j}:{tag}"));
            comps.push(format!("fq{t}x{c} {ty}{opt}"));
        }
        if kind == "CHOICE" {
            comps.push(format!("stop{t} NULL"));
        }
        bodies.push((t, format!("Tq{t} ::= {kind} {{ {} }}\n", comps.join(", "))));
    }
    for (t, b) in &bodies {
        defs[if module_of(*t) == "Mq2" { 1 } else { 0 }].push(b.clone());
    }
    for j in &aliases {
        // the alias lives in the module of the type it names
        defs[if module_of(*j) == "Mq2" { 1 } else { 0 }].push(format!("Alq{j} ::= Tq{j}\n"));
    }
    let names = |mi: usize| -> Vec<String> {
        let mut v: Vec<String> = (0..k).filter(|t| (module_of(*t) == "Mq2") == (mi == 1)).map(|t| format!("Tq{t}")).collect();
        v.extend(aliases.iter().filter(|j| (module_of(**j) == "Mq2") == (mi == 1)).map(|j| format!("Alq{j}")));
        v
    };
    let mut srcs = vec![];
    for mi in 0..if two_modules { 2 } else { 1 } {
        let imports = if two_modules && !names(1 - mi).is_empty() { format!("IMPORTS {} FROM Mq{};\n", names(1 - mi).join(", "), 2 - mi) } else { String::new() };
        srcs.push(format!("Mq{} DEFINITIONS AUTOMATIC TAGS ::= BEGIN\n{imports}{}END\n", mi + 1, defs[mi].concat()));
    }
    (srcs, shape)
}
