#!/bin/bash
# usage: confirm_seed.sh <out-dir-of-agent> <id>   -- confirms a seeded defect in a scratch worktree of /repo HEAD:
# patched tree builds (workspace + verif-hooks), unedited suite passes, demo fails with the patch and passes without.
# Prints one line; copies nothing. The worktree and its build output are removed afterwards.
set -u
SRC=$1; ID=$2; WT=/tmp/confirm-$ID
export CARGO_NET_OFFLINE=true
git -C /repo worktree remove --force $WT >/dev/null 2>&1
git -C /repo worktree add --detach $WT HEAD >/dev/null 2>&1 || { echo "$ID WORKTREE-FAILED"; exit 2; }
cd $WT
if ! git apply $SRC/patch.diff 2>/tmp/confirm-$ID.err; then echo "$ID PATCH-DOES-NOT-APPLY $(head -2 /tmp/confirm-$ID.err | tr '\n' ' ')"; cd /; git -C /repo worktree remove --force $WT; exit 3; fi
suite=$(cargo test --workspace --no-fail-fast --offline 2>&1 | grep -E "^test result" | awk '{p+=$4; f+=$6} END {print p" passed "f" failed"}')
hooks=$(cargo build --offline -p rasn-compiler --features verif-hooks 2>&1 | grep -c "^error")
# where does the demo go?
loc=rasn-compiler-tests/tests; pkg="-p rasn-compiler-tests"
if grep -q "rasn-compiler/tests/demo.rs" $SRC/NOTES.md 2>/dev/null && ! grep -q "rasn-compiler-tests/tests/demo.rs" $SRC/NOTES.md; then loc=rasn-compiler/tests; pkg="-p rasn-compiler --features cli"; fi
mkdir -p $loc; cp $SRC/demo.rs $loc/demo.rs
with=$(cargo test --offline $pkg --test demo 2>&1 | grep -E "^test result|error: could not compile|^error" | head -1)
git apply -R $SRC/patch.diff
clean=$(cargo test --offline $pkg --test demo 2>&1 | grep -E "^test result|error: could not compile|^error" | head -1)
echo "$ID loc=$loc suite-with-patch=[$suite] hooks-build-errors=$hooks demo-with-patch=[$with] demo-clean=[$clean]"
cd /; git -C /repo worktree remove --force $WT
