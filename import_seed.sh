#!/bin/bash
# usage: import_seed.sh <agent-out-dir> <id> <round> <confirm-line-file>  -- copies a confirmed seeded defect into /verif/seeded/<id>
set -u
SRC=$1; ID=$2; ROUND=$3; CONF=$4
D=/verif/seeded/$ID; mkdir -p $D
cp $SRC/patch.diff $SRC/demo.rs $SRC/NOTES.md $D/
python3 - "$ID" "$ROUND" "$CONF" "$D" <<'PY'
import json,sys
id_,rnd,conf,d=sys.argv[1:5]
title=open(f"{d}/NOTES.md").readline().lstrip('# ').strip()
meta={"id":id_,"property":id_.split('-')[0],"round":int(rnd),"title":title,
 "origin":"independent sub-agent (round %s) given only the text of the property, the input grammar it refers to (DESIGN.md section 3) and a scratch worktree of /repo; nothing else from /verif, no earlier seeded patches"%rnd,
 "confirmed_by_me":open(conf).read().strip(),
 "confirm_procedure":"/verif/confirm_seed.sh: scratch worktree of /repo HEAD, patch applied, workspace suite (unedited) run, build with verif-hooks, demo run with the patch (must fail) and after git apply -R (must pass); worktree removed",
 "needs_to_manifest":"see NOTES.md (written by the sub-agent), section on the trigger"}
json.dump(meta,open(f"{d}/meta.json","w"),indent=1)
PY
echo imported $ID
