#!/bin/bash
# usage: seed_matrix_list.sh <out-file> <seed-id>...   (nothing else may use /repo while this runs)
OUT=$1; shift; : > $OUT
cd /verif
for n in "$@"; do
  d=seeded/$n; prop=${n%-*}
  checks=$prop
  [ -f $d/also_run ] && checks="$checks $(cat $d/also_run)"
  for c in $checks; do
    git -C /repo checkout -q -- .
    if ! git -C /repo apply /verif/$d/patch.diff 2>/dev/null; then echo "$n $c PATCH-DOES-NOT-APPLY" >> $OUT; continue; fi
    ./vcheck $c --tier quick > /tmp/seed_matrix.run 2>&1; rc=$?
    git -C /repo checkout -q -- .
    sig=$(grep -a -A1 "^VIOLATION" /tmp/seed_matrix.run | grep -a "sig=" | head -1 | cut -c1-200)
    nv=$(grep -a -c "^VIOLATION" /tmp/seed_matrix.run)
    echo "$n $c exit=$rc violations=$nv $sig" >> $OUT
  done
done
git -C /repo checkout -q -- .
cd /verif/harness && cargo build --offline >/dev/null 2>&1
echo DONE >> $OUT
