//! C11 under Miri: the same module set compiled concurrently on N threads (and twice in a row on one thread) must give
//! byte-identical results; Miri checks the executions for undefined behaviour and data races and explores one thread
//! schedule per seed (-Zmiri-many-seeds).
use rasn_compiler::prelude::*;
use std::sync::Arc;

const A: &str = "A DEFINITIONS AUTOMATIC TAGS ::= BEGIN IMPORTS U, v FROM B; T ::= SEQUENCE { a INTEGER (0..7) DEFAULT v, b U OPTIONAL, ..., [[ c BOOLEAN ]] } C ::= CHOICE { x T, y NULL } END";
const B: &str = "B DEFINITIONS EXPLICIT TAGS ::= BEGIN U ::= ENUMERATED { p, q(5), ..., r } v INTEGER ::= 3 W ::= SET OF [2] IA5String (SIZE (1..4)) END";

fn compile(order: bool) -> (String, Vec<String>) {
    let c = Compiler::<RasnBackend, _>::new();
    let c = if order { c.add_asn_literal(A).add_asn_literal(B) } else { c.add_asn_literal(B).add_asn_literal(A) };
    let r = c.compile_to_string().expect("compiles");
    let mut w: Vec<String> = r.warnings.iter().map(|w| w.to_string()).collect();
    w.sort();
    (r.generated, w)
}

fn main() {
    let threads: usize = std::env::args().nth(1).and_then(|s| s.parse().ok()).unwrap_or(3);
    let reference = Arc::new(compile(true));
    assert_eq!(*reference, compile(true), "C11: repeated compilation differs");
    assert_eq!(*reference, compile(false), "C11: source order changes the result");
    let hs: Vec<_> = (0..threads)
        .map(|k| {
            let r = reference.clone();
            std::thread::spawn(move || {
                let got = compile(k % 2 == 0);
                assert_eq!(*r, got, "C11: concurrent compilation differs");
                got.0.len()
            })
        })
        .collect();
    let lens: Vec<usize> = hs.into_iter().map(|h| h.join().expect("thread panicked")).collect();
    println!("MIRI-C11 ok threads={} bytes={:?}", threads, lens);
}
