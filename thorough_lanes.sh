#!/bin/bash
# Sanity run of the thorough tier of every check on the unchanged tree, in N isolated lanes (private copies of the harness
# sources pointing at a detached worktree of /repo HEAD, as in seed_lanes.sh). Not evidence: the registered commands write
# /verif/evidence themselves. usage: thorough_lanes.sh <out-file> <lanes> <seed>
set -u
OUT=$1; N=$2; SEED=${3:-1}
cd /verif
export CARGO_NET_OFFLINE=true
CHECKS="C01 C13 C08 C11 C03 C20 C02 C17 C05 C12 C04 C06 C07 C09 C10 C14 C15 C16 C18 C19"
lane() {
  k=$1; shift
  L=/tmp/tlane-$k
  git -C /repo worktree remove --force $L/repo >/dev/null 2>&1; rm -rf $L; mkdir -p $L/verif/harness $L/verif/evidence
  git -C /repo worktree add --detach $L/repo HEAD >/dev/null 2>&1 || { echo "lane $k: worktree failed" > $L.out; return; }
  cp -r /verif/harness/src /verif/harness/Cargo.toml /verif/harness/Cargo.lock $L/verif/harness/
  cp /verif/known_findings.txt $L/verif/
  cp -r /verif/miri-c11 $L/verif/ 2>/dev/null
  sed -i "s#pub const VERIF_DIR: &str = \"/verif\";#pub const VERIF_DIR: \&str = \"$L/verif\";#; s#pub const REPO_DIR: &str = \"/repo\";#pub const REPO_DIR: \&str = \"$L/repo\";#" $L/verif/harness/src/core.rs
  sed -i "s#/verif/gen-ws/delivery#$L/verif/gen-ws/delivery#" $L/verif/harness/src/comp.rs
  sed -i "s#path = \"/repo/rasn-compiler\"#path = \"$L/repo/rasn-compiler\"#" $L/verif/harness/Cargo.toml
  ( cd $L/verif/harness && cargo build --offline >/dev/null 2>&1 && ./target/debug/vcheck setup >/dev/null 2>&1 )
  : > $L.out
  for c in "$@"; do
    s=$(date +%s)
    ( cd $L/verif && VERIF_SEED=$SEED ./harness/target/debug/vcheck $c --tier thorough > $L.run 2>&1 ); rc=$?
    e=$(date +%s)
    echo "$c tier=thorough seed=$SEED exit=$rc wall=$((e-s))s $(grep -a "^\[$c\]" $L.run | sed 's/.*evaluations/evaluations/' | cut -c1-150) | $(grep -a -A1 '^VIOLATION' $L.run | grep -a 'sig=' | head -3 | tr '\n' ' ' | cut -c1-300)" >> $L.out
  done
  git -C /repo worktree remove --force $L/repo >/dev/null 2>&1
  rm -rf $L $L.run
}
i=0; declare -a BUCKET
for c in $CHECKS; do BUCKET[$((i % N))]="${BUCKET[$((i % N))]:-} $c"; i=$((i+1)); done
for k in $(seq 0 $((N-1))); do lane $k ${BUCKET[$k]} & done
wait
cat /tmp/tlane-*.out | sort > $OUT; rm -f /tmp/tlane-*.out
echo DONE >> $OUT
