#!/bin/bash
# usage: try_seed.sh <patch.diff> <Cxx> [tier]   -- applies a seeded defect to /repo, runs one check, reverts
set -u
P=$1; C=$2; T=${3:-quick}
git -C /repo apply "$P" || { echo "PATCH DOES NOT APPLY"; exit 3; }
cd /verif && ./vcheck $C --tier $T > /tmp/try_seed.out 2>&1; rc=$?
git -C /repo checkout -- . 
echo "exit=$rc"; grep -a -E "^VIOLATION|^  sig=|^KNOWN|^\[C|INCONCLUSIVE|HARNESS" /tmp/try_seed.out | cut -c1-220 | head -${4:-12}
