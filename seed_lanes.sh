#!/bin/bash
# Runs every seeded defect against the quick check of its own property (+ also_run) in N parallel lanes.
# A lane is a private copy of the harness sources that points at a detached worktree of /repo HEAD under /tmp/lane-<k>
# (same sources, same commands as the registered checks; evidence, replay files and work spaces of a lane stay inside it).
# usage: seed_lanes.sh <out-file> <lanes> [seed-id ...]      (default: all of /verif/seeded/C*-*)
# Everything under /tmp/lane-* is removed at the end.
set -u
OUT=$1; N=$2; shift 2
cd /verif
SEEDS=${@:-$(for d in seeded/C??-?; do [ -e $d/retired ] || basename $d; done)}
export CARGO_NET_OFFLINE=true
lane() {
  k=$1; shift
  L=/tmp/lane-$k
  git -C /repo worktree remove --force $L/repo >/dev/null 2>&1; rm -rf $L; mkdir -p $L/verif/harness $L/verif/evidence
  git -C /repo worktree add --detach $L/repo HEAD >/dev/null 2>&1 || { echo "lane $k: worktree failed" > $L.out; return; }
  cp -r /verif/harness/src /verif/harness/Cargo.toml /verif/harness/Cargo.lock $L/verif/harness/
  cp /verif/known_findings.txt $L/verif/
  cp -r /verif/miri-c11 $L/verif/ 2>/dev/null
  sed -i "s#pub const VERIF_DIR: &str = \"/verif\";#pub const VERIF_DIR: \&str = \"$L/verif\";#; s#pub const REPO_DIR: &str = \"/repo\";#pub const REPO_DIR: \&str = \"$L/repo\";#" $L/verif/harness/src/core.rs
  sed -i "s#/verif/gen-ws/delivery#$L/verif/gen-ws/delivery#" $L/verif/harness/src/comp.rs
  sed -i "s#path = \"/repo/rasn-compiler\"#path = \"$L/repo/rasn-compiler\"#" $L/verif/harness/Cargo.toml
  ( cd $L/verif/harness && cargo build --offline >/dev/null 2>&1 && ./target/debug/vcheck setup >/dev/null 2>&1 )
  : > $L.out
  for n in "$@"; do
    d=/verif/seeded/$n; prop=${n%-*}; checks=$prop
    [ -f $d/also_run ] && checks="$checks $(cat $d/also_run)"
    for c in $checks; do
      git -C $L/repo checkout -q -- .
      if ! git -C $L/repo apply $d/patch.diff 2>/dev/null; then echo "$n $c PATCH-DOES-NOT-APPLY" >> $L.out; continue; fi
      if ! ( cd $L/verif/harness && cargo build --offline >/dev/null 2>&1 ); then echo "$n $c HARNESS-BUILD-FAILED" >> $L.out; git -C $L/repo checkout -q -- .; continue; fi
      ( cd $L/verif && ./harness/target/debug/vcheck $c --tier quick > $L.run 2>&1 ); rc=$?
      git -C $L/repo checkout -q -- .
      sig=$(grep -a -A1 "^VIOLATION" $L.run | grep -a "sig=" | head -1 | cut -c1-200)
      nv=$(grep -a -c "^VIOLATION" $L.run)
      echo "$n $c exit=$rc violations=$nv $sig" >> $L.out
    done
  done
  git -C /repo worktree remove --force $L/repo >/dev/null 2>&1
  rm -rf $L $L.run
}
i=0; declare -a BUCKET
for s in $SEEDS; do BUCKET[$((i % N))]="${BUCKET[$((i % N))]:-} $s"; i=$((i+1)); done
for k in $(seq 0 $((N-1))); do lane $k ${BUCKET[$k]} & done
wait
cat /tmp/lane-*.out | sort > $OUT; rm -f /tmp/lane-*.out
echo DONE >> $OUT
