#!/usr/bin/env python3
"""Regenerates /verif/MANIFEST.json from the table below (keeps it schema-valid at all times)."""
import json, subprocess, sys

# id -> (built?, level, technique, level text, level note, design ref)
CHECKS = {
 "C02": (True, "exploration", "reference-model monitor: grammar-generated module sets (model kept as ground truth, unique mangling-stable names) compiled by the real compiler; syn projection of every generated item compared structurally with the model; by-value containment graph of generated items checked for cycles",
         "Held on the compilations observed: for every SEQUENCE/SET/CHOICE/SEQUENCE OF/SET OF of the generated inputs (top-level and anonymous to depth 4, incl. class-field-typed components and module-qualified references) the member list (names, count, order), each member's Rust type, Option/default/Box/set markers agree with the model, and the generated item graph is acyclic by value. Sampling of an infinite input space.",
         "Trusted: oracle.rs reference model (type correspondence table, X.680 component order), syn projection. Only warning-free Ok compilations are claims. Integer width is C06's subject, the exact placement of Box is free (sufficiency + no Box off a cycle).", "DESIGN.md §4 C02"),
 "C03": (True, "fault_enumeration", "reference-model monitor at attribute level: exhaustive enumeration of the property's product space (default x keyword x class x position x tagged kind, 1344 legal points + automatic-tagging sub-space) + random grammar compositions; #[rasn(tag(..))]/automatic_tags of the syn projection compared with X.680 31.2.7 / 25.3 / 29.2",
         "Every legal point of the stated product space is compiled and the emitted tag class, number, explicit marking and automatic_tags are compared with the model; random larger compositions are sampled. Attribute level only: the DER-level observation (explicit wrappers of CHOICE-typed components, delegate newtypes around CHOICE/open types) is not built in this revision and those markings are not judged.",
         "Trusted: oracle.rs::check_tag (30 lines of X.680 31.2.7), syn projection. Two genuine defects are pinned by the repository's own tests and listed as known findings (no TAGS clause = IMPLICIT; SEQUENCE OF element tag dropped).", "DESIGN.md §4 C03"),
 "C04": (True, "exploration", "reference-model monitor: subtype expressions built by the harness (exact interval-set semantics + X.691 10.3 PER-visible fold kept as ground truth) compiled by the real compiler in 13 contexts; the emitted value()/size()/Fixed*String<n> of the syn projection compared with the model's hull, containment of the exact permitted set, and the extensible flag",
         "Exhaustive for expressions with <= 2 atoms over a 5-point endpoint alphabet in three contexts, seeded random for 3..4 atoms / 7-point alphabet / serial constraints / value references / named numbers / SIZE on six type kinds. Four root-cause classes of genuine folding defects of the pinned tree are known findings (>= 2 set operators, serial-after-union, own named numbers, marker after EXCEPT); every other deviation is reported with its exact expression shape.",
         "Trusted: c04.rs (Expr::full / per_visible, 60 lines) over iv.rs (brute-force tested). Parenthesised sub-expressions and open ranges are rejected by the compiler and are not claims. The known-finding classes are defined on the input expression only, so they also mask other defects that need >= 2 set operators to manifest.", "DESIGN.md §4 C04"),
 "C05": (True, "fault_enumeration", "reference-model monitor: exhaustive enumeration of extensible shapes (kind x root size x every addition/group sequence x nesting x EXTENSIBILITY IMPLIED) + random grammar sets; non_exhaustive / extension_addition / extension_addition_group attributes and group structs of the syn projection compared with the model",
         "Every shape of the bounded space is compiled and judged: extensible iff marker or EXTENSIBILITY IMPLIED; exactly the additions marked; each [[ ]] group one optional extension_addition_group member whose hoisted struct has exactly the grouped components in order. Exhaustive within the stated bounds, sampled beyond.",
         "Trusted: oracle.rs, syn projection. For CHOICE, version brackets have no encoding effect: alternatives in brackets must appear, in order, as individual extension additions.", "DESIGN.md §4 C05"),
 "C06": (True, "fault_enumeration", "reference-model monitor (interval containment) over the syn projection of real compiler output; exhaustive enumeration of the 53-point boundary pairs x marker x 9 contexts + seeded random unions/intersections/serial constraints",
         "All (lower<=upper) pairs of the property's 53-point boundary set, with and without extension marker, are compiled in nine contexts and every emitted integer type token (resolved through delegate newtypes) must contain the permitted set and be arbitrary-precision when extensible or half-open; every integer literal of constants/DEFAULT functions must fit its declared or suffix type. Exhaustive for the stated space; random 2-operand combinations sampled.",
         "Trusted: interval model harness/src/iv.rs (brute-force unit test), syn projection. For serial constraints only 'both carry a marker' is treated as extensible; other marker placements are judged on containment only (X.680 50.8-50.10 latitude).", "DESIGN.md §4 C06"),
 "C07": (True, "exploration", "reference-model monitor with a symbolic evaluator: the emitted const/static initialisers and *_default functions of the syn projection are evaluated to abstract values (integers, booleans, unit, strings, bit vectors, byte vectors, OID arcs, enumerals, tagged variants, records, lists) and compared with the value the harness put into the source",
         "Held on the executions observed: 60k (quick) / 600k (thorough) generated values of every listed notation, each observed at four sites (value assignment, value reference to it, DEFAULT, DEFAULT through the value reference). Evaluator-unknown expression forms are inconclusive (0 on the pinned tree).",
         "Trusted: the evaluator in c07.rs (it models the expression forms the templates emit; newtype wrapping is transparent), X.660 well-known arc table, named-bit values compared modulo trailing zero bits (X.680 22.7). DER-level comparison through compiled bindings is not part of this revision.", "DESIGN.md §4 C07"),
 "C08": (True, "exploration", "process-level monitor: worker processes (8 MiB main stack) run compile_to_string with both backends plus Display/contextualize of every error and warning; driver observes call/return events, exit status, terminating signal, panic hook and H3 linker step counters (hang decided on steps, wall-clock only inconclusive)",
         "Held on the executions observed: every char-boundary prefix of the N smallest corpus modules (exhaustive), plus seeded soup / token mutation / snippet composition / deep nesting / open-at-EOF workloads; a panic, a signal death or a step-budget excess is a violation with the input as witness. Sampling, not proof: 'for all UTF-8 strings' is out of reach.",
         "Trusted: OS process status, the panic hook, hook H3 counters. Exponential-time lexer backtracking on deeply nested syntax errors shows up as watchdog firings below the step budget and is reported as inconclusive, not as violation.", "DESIGN.md §4 C08"),
 "C17": (True, "fault_enumeration", "fault injection with known token positions: every single-token corruption (insert/replace by a character that starts no ASN.1 token, delete, replace) of grammar-generated inputs; the reported offset/line/src_file and the three renderings (Display, contextualize, ReportData) are compared with positions known by construction",
         "For every corrupted input that the real compiler rejects with a syntax error: offset within input and on a char boundary, line = 1 + line breaks before offset, offset not before the end of the preceding definition and not after the offending character (exact upper bound for garbage-character faults), Display line = contextualize marked line = contextualize header line = ReportData.line, src_file = the path iff given as file. Exhaustive over token positions for inputs within the per-input budget, sampled otherwise.",
         "Trusted: own layout engine (token byte spans), fixed patterns for the message shapes. A blank/absent error line cannot carry the contextualize marker (it omits blank lines by design) and is not judged.", "DESIGN.md §4 C17"),
 "C09": (True, "exploration", "metamorphic monitor: two executions of the real compiler on a sugared module and on the harness's hand-expansion of the same description (both with identical helper definitions), compared on the token-normalised items of the target definitions; each pair also compiled with helper names sorting before and after the referencing name",
         "Held on the pairs executed (6k quick / 200k thorough) for named numbers in constraints, single-level value references, parameterized types with 1..3 parameters and 1..3 instantiations, selection types, fixed-type class fields in SEQUENCE/SET/CHOICE, and COMPONENTS OF as last member of a non-extensible type; COMPONENTS OF at other positions and value-reference chains of length >= 2 are known findings of the pinned tree.",
         "Trusted: the harness's expansion (X.680 25.5/30, X.683 8-9, X.681). A pair whose expanded form does not compile cleanly is not a claim. NULL is not used as actual type parameter (the compiler answers with a warning).", "DESIGN.md §4 C09"),
 "C10": (True, "exploration", "conservation monitor over the hook event log: parsed inventory (H1) = emitted (H5 tokens + name present in the syn projection) u warned (H5 Err / named in a linker warning) u documented-silent; key overwrites (H2) explain losses; locality monitor: metamorphic comparison of the items of independent definitions before/after replacing 1..3 assignments by parseable-but-unsupported ones",
         "Held on the executions observed: every top-level assignment of 1200+ generated module sets (quick) and of every compiling real-world module is accounted for in the event log; after 3 fault trials per input every definition outside the dependency cone of the replaced ones keeps byte-identical token-normalised items. 'Err carries nothing' holds by type (Result) and is not a run-time claim.",
         "Trusted: hooks H1/H2/H5, model reference graph for the dependency cone, attribution of items to definitions by unique serial names. Object sets count as documented-silent under opaque_open_types (the default).", "DESIGN.md §4 C10"),
 "C11": (True, "exploration", "metamorphic byte-equality monitor over repeated / permuted / split / history-preceded / concurrent executions of the real compiler (rustfmt made unavailable); schedules: 2/4/8/16 native threads each compiling the whole shuffled input list, compared with a single-threaded reference",
         "Held on the executions observed: generated bytes and sorted warning strings are identical across repetition, every permutation of modules and of sources (<= 3 modules), all or k random permutations of assignments, one source vs one source per module, compilation after 1..3 other compilations on the same thread, and concurrent compilation on 2..16 threads, for grammar-generated sets (incl. value-import pairs aimed at the linker's import bookkeeping) and real-world modules.",
         "Trusted: String equality. Interleavings are whatever the OS scheduler produced in this run (not enumerated); the compiler has no shared mutable state by reading (DESIGN §1), Miri/TSan runs are not part of this revision's registered commands.", "DESIGN.md §4 C11"),
 "C12": (True, "exploration", "metamorphic monitor (per-module block of the full-set compilation vs the block when compiled with the import closure / closure + random modules / every order) + state-invariant monitor on hook H4 (backend tagging/extensibility default = module header while generating) + reference model for use lines and module-qualified references",
         "Held on the executions observed: for every module of 600+ generated sets of 2..5 modules with independently drawn defaults, imports of types and values, cyclic import graphs and module-qualified references, the module's block is byte-identical (token-normalised, doc-free) across all explored subsets and orders; H4 showed the backend default equal to the header for every generated module (and the overwrite mattering thousands of times); use lines import exactly the IMPORTS symbols plus documented associated types, none twice.",
         "Trusted: hook H4, import-closure computation on the model. Several use lines for one sibling module are accepted (associated-type additions come as a line of their own); a symbol imported twice is not.", "DESIGN.md §4 C12"),
 "C13": (True, "exploration", "metamorphic monitor: two executions of the real compiler on a text and on its re-layout at one token boundary (13 white-space / comment forms); token boundaries from the harness's own X.680 tokenizer; outcome digests (status, warning count, doc-free token-normalised bindings) must be equal",
         "Held on the re-layouts executed: every token boundary of small grammar-generated inputs (exhaustive per input) and sampled boundaries of real-world modules, each with tab/LF/CRLF/blank runs/no separator (only where the tokens stay separable)/line comment (LF and CRLF)/inline comment/block comment (spaced, tight, nested, multi-line)/comments with quotes, braces, keywords and non-ASCII text.",
         "Trusted: harness tokenizer tok.rs (every transformed text is re-tokenised and must give the same token sequence, else the transformation is discarded); a sign directly before digits is kept with the number. Real-world files are used only if their single-space re-join reproduces the original outcome.", "DESIGN.md §4 C13"),
 "C15": (True, "exploration", "reference-model monitor: FROM expressions built by the harness (exact character-set semantics kept as ground truth) compiled by the real compiler on 10 string types; the character set denoted by the emitted from(..) items of the syn projection is compared with the model set and with the base alphabet",
         "Exhaustive for 1 and 2 atoms (strings, code-point ranges over a per-type probe alphabet, | ^ EXCEPT) on NumericString/PrintableString/VisibleString/IA5String, one-atom cases on BMPString/UniversalString, seeded random 3-atom expressions, SIZE in four combinations, serial FROM, assignment and component, plus the four non-known-multiplier types (no annotation allowed). Four root-cause classes of genuine alphabet-folding defects are known findings; anything else is reported with its exact shape.",
         "Trusted: c15.rs set semantics (ranges in ascending code-point order restricted to the type alphabet; from(\"a..=b\") denotes every scalar between a and b). BMP/Universal are compared on a finite universe (printable ASCII + U+00E9). Ranges reaching far into the BMP combined with SIZE make the compiler run for minutes (linear find_char_index) and are not generated.", "DESIGN.md §4 C15"),
 "C16": (True, "exploration", "reference-model monitor: one hostile name per tiny module in each role; syn legality of every identifier of the output, documented case rules, normalisation relation to the ASN.1 name, identifier annotation iff renamed, references spelled like the definition",
         "Exhaustive over 58 Rust keywords (strict, reserved, weak) x 7 roles plus special type names; 100k (quick) / 1M (thorough) seeded random legal ASN.1 identifiers up to 24 characters with hyphens, digits next to case changes and all-caps runs.",
         "Trusted: syn (rejects keywords and illegal identifiers), the normalisation relation (drop _ and -, lower-case, optional r_ escape). Edition 2021 keyword set (gen is an ordinary identifier). Same-scope collisions of two names that mangle alike are C01's subject.", "DESIGN.md §4 C16"),
 "C18": (True, "exploration", "reference-model monitor: TypeScript backend output of grammar-generated module sets read by a structural TypeScript declaration parser written for this purpose (namespaces, import aliases, export type/enum/const, object types, unions, arrays, literal types, index signatures, bracket balance) and compared with the JER shape derived from the model",
         "Held on the executions observed: for 3k (quick) / 120k (thorough) generated module sets every type assignment has exactly one exported declaration of the mangled name in its namespace with the JER shape (member order, `?` iff OPTIONAL/DEFAULT, arrays, string-valued enum members, union of single-key objects, index signature iff marker), every mentioned name resolves, imports name existing declarations and the output is bracket-balanced. EXTENSIBILITY IMPLIED without marker is a known finding.",
         "Trusted: the TypeScript parser and JER-shape rules in c18.rs (there is no TypeScript compiler in the sandbox). Leaf type spellings (number, string, ...) are not prescribed; definitions named by a warning are not claims.", "DESIGN.md §4 C18"),
 "C19": (True, "exploration", "metamorphic monitor: item-level diff of the syn projections of the same input compiled under two configurations that differ in exactly one option, along the edges of the configuration lattice; each coordinate has an allowance predicate",
         "Held on the executions observed: 160 generated inputs x 48-point sub-lattice (quick) / 4000 x the full 192-point lattice (thorough); along every edge only the documented aspect changed: From impls exactly for alternatives with a payload type unique in their CHOICE, import lists -> wildcards for the same sibling modules, LazyLock <-> lazy_static with equal (name, type, initialiser), exactly the configured custom use lines in every module, only outer attributes of type items with the six required derives exactly once.",
         "Trusted: syn projection, the allowance predicates in c19.rs. Payload-type uniqueness is judged on the generated payload tokens with module path and Box stripped. For opaque_open_types only 'no definition changes, nothing added when turning the flag on' is asserted.", "DESIGN.md §4 C19"),
 "C14": (True, "fault_enumeration", "reference-model monitor (X.680 §20 numbering) over the syn projection of real compiler output; exhaustive enumeration of the property's finite space + seeded random",
         "Every enumeration of the property's finite space (<=5 root x <=3 additions over {-1,0,1,2,5,identifier-only}) is compiled by the real compiler and every emitted discriminant is compared with the X.680 20.3-20.6 number; larger random enumerations are sampled. Exhaustive for the stated space, sampled beyond it.",
         "Trusted: the 40-line numbering model in harness/src/c14.rs, syn's parsing of discriminants. Illegal inputs (duplicate numbers, non-ascending additions) are not claims.", "DESIGN.md §4 C14"),
}

NOT_BUILT_REASON = "check not built yet in this revision of the framework (runtime-monitoring design exists in DESIGN.md §4); not claimed until its monitor runs silent on the unchanged tree"

def main():
    props = [json.loads(l) for l in open('/verif/properties.jsonl')]
    hooks_commits = subprocess.run(["git", "-C", "/repo", "log", "--format=%H %s", "--grep=^verif-hooks"], capture_output=True, text=True).stdout.strip().splitlines()
    checks = []
    na = []
    for p in props:
        pid = p["id"]
        c = CHECKS.get(pid)
        if c and c[0]:
            _, level, tech, text, note, ref = c
            checks.append({
                "property_id": pid,
                "quick_cmd": f"./vcheck {pid} --tier quick",
                "thorough_cmd": f"./vcheck {pid} --tier thorough",
                "evidence_file": f"/verif/evidence/{pid}.json",
                "replay_cmd_template": f"./vcheck {pid} --replay {{path}}",
                "engine": "harness",
                "level_claimed": {"category": level, "text": text, "design_ref": ref},
                "level_note": note,
                "technique": tech,
            })
        else:
            na.append({"property_id": pid, "reason": (c[1] if c and not c[0] and isinstance(c[1], str) and len(c) == 2 else NOT_BUILT_REASON)})
    m = {
        "version": 1,
        "setup_cmd": "./vcheck --setup",
        "hooks": {
            "guard": "verif-hooks",
            "enable": "cargo feature `verif-hooks` of crate rasn-compiler; /verif/harness depends on /repo/rasn-compiler by path with features=[\"verif-hooks\"], so every check rebuilds from /repo's working tree with hooks on",
            "baseline_off_cmd": "cd /repo && cargo test --workspace --no-fail-fast --offline",
            "source_commits": [l.split()[0] for l in hooks_commits],
            "add_only": True,
        },
        "engines": [
            {"name": "harness", "path": "/verif/harness", "serves_properties": [c["property_id"] for c in checks],
             "kind_free_text": "Rust binary vcheck: workload generators + reference-model / metamorphic / event-log monitors observing executions of the real compiler (in-process and in worker processes)"},
        ],
        "checks": checks,
        "not_applicable": na,
        "notes": "Technique family: runtime monitoring. Every check observes executions of the real compiler built from /repo's working tree with the verif-hooks feature. Known findings: /verif/known_findings.txt. Exit codes: 0 held / known findings only, 1 unlisted violation (VIOLATION line), 2 harness failure or nothing observed (inconclusive).",
    }
    json.dump(m, open('/verif/MANIFEST.json', 'w'), indent=1)
    # validate
    try:
        import jsonschema
        jsonschema.validate(m, json.load(open('/root/.vp/MANIFEST.schema.json')))
        print("MANIFEST.json valid;", len(checks), "checks,", len(na), "not_applicable")
    except ImportError:
        print("jsonschema not importable; wrote MANIFEST.json unvalidated")

if __name__ == "__main__":
    main()
